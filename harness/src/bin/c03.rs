//! C03 — replay fidelity.  (a) schema-driven frame documents through the real serde codec of rip-kernel vs
//! the schema-driven model coq/Model/Wire.v (decode, re-encode, stream kind compared inside Coq), plus the
//! independent round-trip oracle on the implementation; (b) histories on the real ContinuityStore /
//! SessionEngine comparing the four views frame for frame, during the history and at its end (module hist);
//! (c) store level: a frame is on disk for a fresh reader as soon as `EventLog::append` has returned.
use rip_kernel::{Event, EventKind, StreamKind};
use rv::*;
use serde_json::{json, Value};
use std::collections::BTreeMap;

#[path = "c03/extra.rs"]
mod extra;
#[path = "c03/hist.rs"]
mod hist;
#[path = "c03/sized.rs"]
mod sized;
#[path = "c03/snaps.rs"]
mod snaps;
#[path = "../session_matrix.rs"]
mod session_matrix;
#[path = "c03/matrix.rs"]
mod matrix;

// ---------------------------------------------------------------- ordered JSON AST (numbers = token text)
#[derive(Clone, Debug, PartialEq)]
pub enum J {
    Null,
    Bool(bool),
    Num(String),
    Str(String),
    Arr(Vec<J>),
    Obj(Vec<(String, J)>),
}

struct P<'a> {
    s: &'a [u8],
    i: usize,
}
impl<'a> P<'a> {
    fn ws(&mut self) {
        while self.i < self.s.len() && matches!(self.s[self.i], b' ' | b'\t' | b'\n' | b'\r') {
            self.i += 1;
        }
    }
    fn hex4(&mut self) -> Result<u32, String> {
        if self.i + 4 > self.s.len() {
            return Err("short \\u".into());
        }
        let h = std::str::from_utf8(&self.s[self.i..self.i + 4]).map_err(|e| e.to_string())?;
        self.i += 4;
        u32::from_str_radix(h, 16).map_err(|e| e.to_string())
    }
    fn string(&mut self) -> Result<String, String> {
        // self.s[self.i] == '"'
        self.i += 1;
        let mut out: Vec<u8> = vec![];
        loop {
            if self.i >= self.s.len() {
                return Err("eof in string".into());
            }
            let c = self.s[self.i];
            self.i += 1;
            match c {
                b'"' => break,
                b'\\' => {
                    let e = *self.s.get(self.i).ok_or("eof in escape")?;
                    self.i += 1;
                    let ch = match e {
                        b'"' => '"',
                        b'\\' => '\\',
                        b'/' => '/',
                        b'b' => '\u{8}',
                        b'f' => '\u{c}',
                        b'n' => '\n',
                        b'r' => '\r',
                        b't' => '\t',
                        b'u' => {
                            let hi = self.hex4()?;
                            if (0xD800..0xDC00).contains(&hi) {
                                if self.s.get(self.i) != Some(&b'\\') || self.s.get(self.i + 1) != Some(&b'u') {
                                    return Err("lone surrogate".into());
                                }
                                self.i += 2;
                                let lo = self.hex4()?;
                                if !(0xDC00..0xE000).contains(&lo) {
                                    return Err("bad low surrogate".into());
                                }
                                char::from_u32(0x10000 + ((hi - 0xD800) << 10) + (lo - 0xDC00)).ok_or("bad pair")?
                            } else {
                                char::from_u32(hi).ok_or("lone surrogate")?
                            }
                        }
                        _ => return Err("bad escape".into()),
                    };
                    let mut b = [0u8; 4];
                    out.extend_from_slice(ch.encode_utf8(&mut b).as_bytes());
                }
                c if c < 0x20 => return Err("control char in string".into()),
                c => out.push(c),
            }
        }
        String::from_utf8(out).map_err(|e| e.to_string())
    }
    fn value(&mut self) -> Result<J, String> {
        self.ws();
        let c = *self.s.get(self.i).ok_or("eof")?;
        match c {
            b'n' if self.s[self.i..].starts_with(b"null") => {
                self.i += 4;
                Ok(J::Null)
            }
            b't' if self.s[self.i..].starts_with(b"true") => {
                self.i += 4;
                Ok(J::Bool(true))
            }
            b'f' if self.s[self.i..].starts_with(b"false") => {
                self.i += 5;
                Ok(J::Bool(false))
            }
            b'"' => Ok(J::Str(self.string()?)),
            b'[' => {
                self.i += 1;
                let mut v = vec![];
                self.ws();
                if self.s.get(self.i) == Some(&b']') {
                    self.i += 1;
                    return Ok(J::Arr(v));
                }
                loop {
                    v.push(self.value()?);
                    self.ws();
                    match self.s.get(self.i) {
                        Some(b',') => self.i += 1,
                        Some(b']') => {
                            self.i += 1;
                            return Ok(J::Arr(v));
                        }
                        _ => return Err("expected , or ]".into()),
                    }
                }
            }
            b'{' => {
                self.i += 1;
                let mut v = vec![];
                self.ws();
                if self.s.get(self.i) == Some(&b'}') {
                    self.i += 1;
                    return Ok(J::Obj(v));
                }
                loop {
                    self.ws();
                    if self.s.get(self.i) != Some(&b'"') {
                        return Err("expected key".into());
                    }
                    let k = self.string()?;
                    self.ws();
                    if self.s.get(self.i) != Some(&b':') {
                        return Err("expected :".into());
                    }
                    self.i += 1;
                    let x = self.value()?;
                    v.push((k, x));
                    self.ws();
                    match self.s.get(self.i) {
                        Some(b',') => self.i += 1,
                        Some(b'}') => {
                            self.i += 1;
                            return Ok(J::Obj(v));
                        }
                        _ => return Err("expected , or }".into()),
                    }
                }
            }
            b'-' | b'0'..=b'9' => {
                let st = self.i;
                while self.i < self.s.len() && matches!(self.s[self.i], b'-' | b'+' | b'.' | b'e' | b'E' | b'0'..=b'9') {
                    self.i += 1;
                }
                let tok = String::from_utf8_lossy(&self.s[st..self.i]).into_owned();
                if !json_number(&tok) {
                    return Err(format!("bad number {tok}"));
                }
                Ok(J::Num(tok))
            }
            _ => Err(format!("unexpected byte {c} at {}", self.i)),
        }
    }
}
/// the JSON number grammar: -? (0 | [1-9][0-9]*) (. [0-9]+)? ([eE] [+-]? [0-9]+)?
fn json_number(t: &str) -> bool {
    let b = t.as_bytes();
    let mut i = 0;
    if i < b.len() && b[i] == b'-' {
        i += 1;
    }
    let d0 = i;
    while i < b.len() && b[i].is_ascii_digit() {
        i += 1;
    }
    if i == d0 || (b[d0] == b'0' && i - d0 > 1) {
        return false;
    }
    if i < b.len() && b[i] == b'.' {
        i += 1;
        let f0 = i;
        while i < b.len() && b[i].is_ascii_digit() {
            i += 1;
        }
        if i == f0 {
            return false;
        }
    }
    if i < b.len() && (b[i] == b'e' || b[i] == b'E') {
        i += 1;
        if i < b.len() && (b[i] == b'+' || b[i] == b'-') {
            i += 1;
        }
        let e0 = i;
        while i < b.len() && b[i].is_ascii_digit() {
            i += 1;
        }
        if i == e0 {
            return false;
        }
    }
    i == b.len()
}
pub fn parse_json(text: &str) -> Result<J, String> {
    let mut p = P { s: text.as_bytes(), i: 0 };
    let v = p.value()?;
    p.ws();
    if p.i != p.s.len() {
        return Err("trailing".into());
    }
    Ok(v)
}
fn esc(s: &str, out: &mut String) {
    out.push('"');
    for c in s.chars() {
        match c {
            '"' => out.push_str("\\\""),
            '\\' => out.push_str("\\\\"),
            '\u{8}' => out.push_str("\\b"),
            '\t' => out.push_str("\\t"),
            '\n' => out.push_str("\\n"),
            '\u{c}' => out.push_str("\\f"),
            '\r' => out.push_str("\\r"),
            c if (c as u32) < 0x20 => out.push_str(&format!("\\u{:04x}", c as u32)),
            c => out.push(c),
        }
    }
    out.push('"');
}
pub fn print_json(j: &J, out: &mut String) {
    match j {
        J::Null => out.push_str("null"),
        J::Bool(b) => out.push_str(if *b { "true" } else { "false" }),
        J::Num(t) => out.push_str(t),
        J::Str(s) => esc(s, out),
        J::Arr(v) => {
            out.push('[');
            for (i, x) in v.iter().enumerate() {
                if i > 0 {
                    out.push(',');
                }
                print_json(x, out);
            }
            out.push(']');
        }
        J::Obj(v) => {
            out.push('{');
            for (i, (k, x)) in v.iter().enumerate() {
                if i > 0 {
                    out.push(',');
                }
                esc(k, out);
                out.push(':');
                print_json(x, out);
            }
            out.push('}');
        }
    }
}
fn coq_json(j: &J, out: &mut String) {
    match j {
        J::Null => out.push_str("JNull"),
        J::Bool(b) => out.push_str(if *b { "(JBool true)" } else { "(JBool false)" }),
        J::Num(t) => {
            out.push_str("(JNum ");
            out.push_str(&coq_str(t));
            out.push(')');
        }
        J::Str(s) => {
            out.push_str("(JStr ");
            out.push_str(&coq_str(s));
            out.push(')');
        }
        J::Arr(v) => {
            out.push_str("(JArr [");
            for (i, x) in v.iter().enumerate() {
                if i > 0 {
                    out.push_str("; ");
                }
                coq_json(x, out);
            }
            out.push_str("])");
        }
        J::Obj(v) => {
            out.push_str("(JObj [");
            for (i, (k, x)) in v.iter().enumerate() {
                if i > 0 {
                    out.push_str("; ");
                }
                out.push('(');
                out.push_str(&coq_str(k));
                out.push_str(", ");
                coq_json(x, out);
                out.push(')');
            }
            out.push_str("])");
        }
    }
}
fn jdepth(j: &J) -> usize {
    match j {
        J::Arr(v) => 1 + v.iter().map(jdepth).max().unwrap_or(0),
        J::Obj(v) => 1 + v.iter().map(|(_, x)| jdepth(x)).max().unwrap_or(0),
        _ => 0,
    }
}

// ---------------------------------------------------------------- schema-driven generator
const STRS: &[&str] = &[
    "", "a", "hello world", "é", "€uro", "😀", "a\u{2028}b\u{2029}", "\u{1}\u{1f}", "line\nbreak\r\n\ttab", "q\"uote\\back/slash",
    "\u{7f}\u{80}\u{ffff}", "\u{10ffff}", "null", "0", "{\"k\":1}", "\u{0}", "\u{8}\u{c}", "ｆｕｌｌ", "session_started", "type",
];
fn gen_str(r: &mut Rng, big: bool) -> String {
    if big {
        let unit = *r.pick(&["x", "é", "😀", "\n", "\""]);
        let n = r.range(5_000, 20_000) as usize;
        return unit.repeat(n / unit.len());
    }
    if r.chance(1, 4) {
        let n = r.range(2, 12);
        (0..n).map(|_| *r.pick(STRS)).collect::<Vec<_>>().concat()
    } else {
        r.pick(STRS).to_string()
    }
}
fn f64_tok(f: f64) -> String {
    serde_json::to_string(&f).unwrap()
}
fn gen_num_val(r: &mut Rng) -> J {
    let toks: Vec<String> = vec![
        "0".into(),
        "1".into(),
        "9007199254740991".into(),
        "9007199254740992".into(),
        "9007199254740993".into(),
        "18446744073709551615".into(),
        "-1".into(),
        "-9223372036854775808".into(),
        f64_tok(1.5),
        f64_tok(-0.0),
        f64_tok(1e300),
        f64_tok(1e-7),
        f64_tok(0.1),
        f64_tok(123456789.125),
        f64_tok(1.0),
        "-1.6870701997249725e-12".into(),
        f64_tok(f64::from_bits(0x3FB999999999999A)),
        f64_tok(5e-324),
    ];
    J::Num(r.pick(&toks).clone())
}
/// a serde_json::Value-typed payload; `messy` adds unsorted / duplicate members (the reader normalises them)
fn gen_val(r: &mut Rng, depth: u32, messy: bool) -> J {
    let k = if depth == 0 { r.below(5) } else { r.below(8) };
    match k {
        0 => J::Null,
        1 => J::Bool(r.chance(1, 2)),
        2 => gen_num_val(r),
        3 | 4 => J::Str(gen_str(r, false)),
        5 => J::Arr((0..r.below(4)).map(|_| gen_val(r, depth - 1, messy)).collect()),
        _ => {
            let n = r.below(4);
            let mut m: Vec<(String, J)> = vec![];
            for _ in 0..n {
                let key = if messy && !m.is_empty() && r.chance(1, 4) { m[0].0.clone() } else { gen_str(r, false) };
                m.push((key, gen_val(r, depth - 1, messy)));
            }
            if !messy {
                // what a serde_json::Value holds: sorted by key, no duplicates
                let mut bm: BTreeMap<String, J> = BTreeMap::new();
                for (k, v) in m {
                    bm.insert(k, v);
                }
                m = bm.into_iter().collect();
            }
            J::Obj(m)
        }
    }
}
fn nested(depth: usize, obj: bool) -> J {
    let mut j = J::Num("1".into());
    for i in 0..depth {
        j = if obj && i % 2 == 0 { J::Obj(vec![("k".into(), j)]) } else { J::Arr(vec![j]) };
    }
    j
}

#[derive(Clone, Copy, PartialEq, Debug)]
enum Presence {
    Full,    // every field present
    Minimal, // optional / defaulted fields absent
    Random,
    Nulls, // optional fields present as null
}
struct Gen<'a> {
    r: &'a mut Rng,
    presence: Presence,
    aliases: bool,
    messy_val: bool,
    big: bool,
}
impl<'a> Gen<'a> {
    fn value(&mut self, ty: &Value) -> J {
        match ty["k"].as_str().unwrap_or("unknown") {
            "str" => {
                let big = self.big && self.r.chance(1, 3);
                J::Str(gen_str(self.r, big))
            }
            "u64" => J::Num(self.r.pick(&[0u64, 1, 42, (1 << 53) - 1, 1 << 53, (1 << 53) + 1, u64::MAX, u64::MAX - 1, 1_700_000_000_000]).to_string()),
            "u32" => J::Num(self.r.pick(&[0u32, 1, 7, u32::MAX, u32::MAX - 1, 65536]).to_string()),
            "u16" => J::Num(self.r.pick(&[0u16, 1, 24, 80, u16::MAX, 200]).to_string()),
            "i32" => J::Num(self.r.pick(&[0i32, 1, -1, i32::MIN, i32::MAX, 137, -15]).to_string()),
            "bool" => J::Bool(self.r.chance(1, 2)),
            "val" => {
                let d = *self.r.pick(&[0u32, 1, 2, 3, 5]);
                gen_val(self.r, d, self.messy_val)
            }
            "opt" => {
                let null = match self.presence {
                    Presence::Nulls => true,
                    Presence::Full => false,
                    _ => self.r.chance(1, 4),
                };
                if null {
                    J::Null
                } else {
                    self.value(&ty["of"])
                }
            }
            "vec" => {
                let n = match self.presence {
                    Presence::Minimal => 0,
                    Presence::Full => self.r.range(1, 3),
                    _ => self.r.below(4),
                };
                J::Arr((0..n).map(|_| self.value(&ty["of"])).collect())
            }
            "enum" => {
                let tags: Vec<&str> = ty["tags"].as_array().map(|a| a.iter().filter_map(|t| t.as_str()).collect()).unwrap_or_default();
                if tags.is_empty() {
                    J::Null
                } else {
                    J::Str(self.r.pick(&tags).to_string())
                }
            }
            "struct" => J::Obj(self.fields(ty["fields"].as_array().map(|v| v.as_slice()).unwrap_or(&[]))),
            _ => J::Null,
        }
    }
    fn fields(&mut self, fs: &[Value]) -> Vec<(String, J)> {
        let mut out = vec![];
        for f in fs {
            let optional = f["ty"]["k"] == "opt" || f["default"] == true;
            let absent = optional
                && match self.presence {
                    Presence::Minimal => true,
                    Presence::Full | Presence::Nulls => false,
                    Presence::Random => self.r.chance(1, 3),
                };
            if absent {
                continue;
            }
            let mut key = f["key"].as_str().unwrap_or("?").to_string();
            if self.aliases {
                if let Some(al) = f["aliases"].as_array() {
                    if !al.is_empty() && self.r.chance(1, 2) {
                        key = self.r.pick(al).as_str().unwrap_or("?").to_string();
                    }
                }
            }
            out.push((key, self.value(&f["ty"])));
        }
        out
    }
}

fn envelope(r: &mut Rng, kind: &str) -> Vec<(String, J)> {
    let sid = r.pick(&["s1", "2b1e6c1e-7f4f-4d6b-9d0c-0a1b2c3d4e5f", "tásk-😀", ""]).to_string();
    vec![
        ("id".into(), J::Str(r.pick(&["e0", "0c0e7b1c-0000-4000-8000-000000000001", "\u{1}id"]).to_string())),
        ("session_id".into(), J::Str(sid.clone())),
        ("stream_kind".into(), J::Str(kind.to_string())),
        ("stream_id".into(), J::Str(sid)),
        ("timestamp_ms".into(), J::Num(r.pick(&[0u64, 1_758_000_000_000, u64::MAX, (1 << 53) + 1]).to_string())),
        ("seq".into(), J::Num(r.pick(&[0u64, 1, 2, 1000, u64::MAX]).to_string())),
    ]
}

fn wrong_typed(r: &mut Rng, j: &J) -> J {
    match j {
        J::Str(_) => r.pick(&[J::Num("1".into()), J::Null, J::Bool(true), J::Arr(vec![])]).clone(),
        J::Num(_) => r.pick(&[J::Str("1".into()), J::Null, J::Num("1.0".into()), J::Num("-0".into()), J::Num("1e2".into()), J::Num("18446744073709551616".into()), J::Num("-1".into()), J::Num("65536".into()), J::Num("4294967296".into()), J::Num("2147483648".into()), J::Num("-2147483649".into())]).clone(),
        J::Bool(_) => r.pick(&[J::Str("true".into()), J::Num("1".into()), J::Null]).clone(),
        J::Null => r.pick(&[J::Str("x".into()), J::Num("0".into()), J::Obj(vec![]), J::Arr(vec![])]).clone(),
        J::Arr(_) => r.pick(&[J::Obj(vec![]), J::Null, J::Str("[]".into())]).clone(),
        J::Obj(_) => r.pick(&[J::Arr(vec![]), J::Null, J::Str("{}".into()), J::Num("3".into())]).clone(),
    }
}

/// Number tokens that serde_json would print differently (`-0`, `1e2`, an integer beyond u64) are replaced by
/// the spelling serde_json prints; returns whether anything changed.  The model treats the number tokens of a
/// `Value` payload as opaque atoms (assumption: a WRITTEN token reads back and prints as itself), so a foreign
/// spelling inside an accepted document is outside what the correspondence compares; typed fields refuse
/// these spellings on both sides and keep them.
fn canon_nums(j: &mut J) -> bool {
    match j {
        J::Num(t) => match serde_json::from_str::<Value>(t) {
            Ok(v) => {
                let c = v.to_string();
                if c != *t {
                    *t = c;
                    true
                } else {
                    false
                }
            }
            Err(_) => false,
        },
        J::Arr(xs) => xs.iter_mut().fold(false, |acc, x| canon_nums(x) | acc),
        J::Obj(ms) => ms.iter_mut().fold(false, |acc, (_, x)| canon_nums(x) | acc),
        _ => false,
    }
}

/// one malformed / unusual variation of a well-formed document; returns a label
fn mutate(r: &mut Rng, doc: &mut Vec<(String, J)>, v: &Value, nvariants: usize) -> &'static str {
    let n = doc.len();
    match r.below(16) {
        0 => {
            let i = r.below(n as u64) as usize;
            doc.remove(i);
            "drop_member"
        }
        1 => {
            let i = r.below(n as u64) as usize;
            let m = doc[i].clone();
            let at = r.below(doc.len() as u64 + 1) as usize;
            doc.insert(at, m);
            "duplicate_member"
        }
        2 => {
            let i = r.below(n as u64) as usize;
            doc[i].1 = wrong_typed(r, &doc[i].1.clone());
            "wrong_type"
        }
        3 => {
            let i = r.below(n as u64) as usize;
            doc[i].0 = format!("{}_x", doc[i].0);
            "rename_member"
        }
        4 => {
            for k in ["extra", "stream_kind", "stream_id", "kind", "ref"] {
                if r.chance(1, 2) {
                    let at = r.below(doc.len() as u64 + 1) as usize;
                    doc.insert(at, (k.to_string(), gen_val(r, 2, true)));
                }
            }
            "unknown_members"
        }
        5 => {
            if let Some(m) = doc.iter_mut().find(|m| m.0 == "type") {
                let idx = r.below(nvariants as u64 + 2).to_string();
                m.1 = r.pick(&[J::Str("no_such_frame".into()), J::Num(idx), J::Null, J::Str("".into()), J::Num("-1".into()), J::Num("1.0".into())]).clone();
            }
            "tag_changed"
        }
        6 => {
            // tag alias of some variant
            if let Some(m) = doc.iter_mut().find(|m| m.0 == "type") {
                if let Some(al) = v["aliases"].as_array().and_then(|a| a.first()).and_then(|a| a.as_str()) {
                    m.1 = J::Str(al.to_string());
                }
            }
            "tag_alias"
        }
        7 => {
            // shuffle
            for i in (1..doc.len()).rev() {
                let j = r.below(i as u64 + 1) as usize;
                doc.swap(i, j);
            }
            "shuffled"
        }
        8 => {
            // enum given in map form, struct given positionally
            fn walk(r: &mut Rng, j: &mut J, ty: &Value) {
                match (ty["k"].as_str().unwrap_or(""), &mut *j) {
                    ("enum", J::Str(s)) => {
                        let inner = r.pick(&[J::Null, J::Obj(vec![]), J::Num("1".into()), J::Arr(vec![])]).clone();
                        *j = J::Obj(vec![(s.clone(), inner)]);
                    }
                    ("struct", J::Obj(m)) => {
                        if r.chance(1, 2) {
                            *j = J::Arr(m.iter().map(|x| x.1.clone()).collect());
                        }
                    }
                    ("opt", x) if *x != J::Null => walk(r, x, &ty["of"]),
                    ("vec", J::Arr(xs)) => {
                        for x in xs.iter_mut() {
                            walk(r, x, &ty["of"])
                        }
                    }
                    _ => {}
                }
            }
            for f in v["fields"].as_array().map(|x| x.as_slice()).unwrap_or(&[]) {
                let key = f["key"].as_str().unwrap_or("");
                if let Some(m) = doc.iter_mut().find(|m| m.0 == key) {
                    walk(r, &mut m.1, &f["ty"]);
                }
            }
            "enum_map_or_struct_seq"
        }
        9 => {
            let i = r.below(n as u64) as usize;
            doc[i].1 = J::Null;
            "null_member"
        }
        10 => {
            // alias and key of the same field together
            for f in v["fields"].as_array().map(|x| x.as_slice()).unwrap_or(&[]) {
                if let Some(al) = f["aliases"].as_array().and_then(|a| a.first()).and_then(|a| a.as_str()) {
                    doc.push((al.to_string(), J::Str("via alias".into())));
                }
            }
            "alias_added"
        }
        11 => {
            let d = *r.pick(&[120usize, 124, 125, 126, 127, 128, 129]);
            doc.push(("extra_deep".into(), nested(d, r.chance(1, 2))));
            "deep_unknown_member"
        }
        12 => {
            doc.retain(|m| m.0 != "type");
            "tag_missing"
        }
        13 => {
            if let Some(m) = doc.iter().find(|m| m.0 == "type").cloned() {
                doc.push(m);
            }
            "tag_duplicate"
        }
        14 => {
            // nested member dropped / duplicated inside a helper struct
            fn walk(r: &mut Rng, j: &mut J) -> bool {
                match j {
                    J::Obj(m) if !m.is_empty() => {
                        let i = r.below(m.len() as u64) as usize;
                        if r.chance(1, 2) {
                            m.remove(i);
                        } else {
                            let x = m[i].clone();
                            m.push(x);
                        }
                        true
                    }
                    J::Arr(xs) => xs.iter_mut().any(|x| walk(r, x)),
                    _ => false,
                }
            }
            for f in v["fields"].as_array().map(|x| x.as_slice()).unwrap_or(&[]) {
                let k = f["ty"]["k"].as_str().unwrap_or("");
                let inner = f["ty"]["of"]["k"].as_str().unwrap_or("");
                if k == "struct" || inner == "struct" {
                    let key = f["key"].as_str().unwrap_or("");
                    if let Some(m) = doc.iter_mut().find(|m| m.0 == key) {
                        walk(r, &mut m.1);
                    }
                }
            }
            "nested_struct_member"
        }
        _ => "none",
    }
}

struct DocCase {
    /// the text is the real writer's output for a frame (hand-built value or a line the system logged)
    emitted: bool,
    /// a frame holding Some(Value::Null) in a skipped-when-None field: rip never builds one (props/C03.json,
    /// assumptions); serde drops the key on the second write, which is exactly what the model says
    /// (c03_some_null_skipped_refuted) — compared with the model, not held against the implementation
    some_null_skipped: bool,
    doc_text: String,
    label: String,
    variant: String,
    wellformed: bool,
}

fn kind_code(k: StreamKind) -> u64 {
    match k {
        StreamKind::Session => 0,
        StreamKind::Task => 1,
        StreamKind::Continuity => 2,
        StreamKind::Artifact => 3,
    }
}

struct ImplObs {
    pretty: Option<String>,
    t1: Option<String>,
    err: Option<String>,
    ok: bool,
    re: Option<J>,
    kind: u64,
    violation: Option<(String, String)>,
}

/// the implementation under test + the independent oracle: whatever `Event` the reader accepts, writing it
/// and reading it back must give the same frame (text-identical second write), same stream kind and id, via
/// the line form and via the pretty snapshot form
fn run_impl(doc_text: &str) -> ImplObs {
    let ev: Event = match serde_json::from_str(doc_text) {
        Ok(e) => e,
        Err(e) => return ImplObs { pretty: None, t1: None, err: Some(e.to_string()), ok: false, re: None, kind: 0, violation: None },
    };
    let t1 = match serde_json::to_string(&ev) {
        Ok(t) => t,
        Err(e) => return ImplObs { pretty: None, t1: None, err: None, ok: true, re: None, kind: kind_code(ev.stream_kind()), violation: Some((format!("frame cannot be serialised: {e}"), "unwritable_frame".into())) },
    };
    let re = parse_json(&t1).ok();
    let mut violation = None;
    match serde_json::from_str::<Event>(&t1) {
        Err(e) => {
            let cls = if e.to_string().contains("recursion limit") { "written_frame_unreadable_recursion_limit" } else { "written_frame_unreadable" };
            violation = Some((format!("a frame the writer produced is rejected by the reader: {e}"), cls.to_string()));
        }
        Ok(ev2) => {
            let t2 = serde_json::to_string(&ev2).unwrap_or_default();
            if ev2.stream_kind() != ev.stream_kind() || ev2.stream_id() != ev.stream_id() {
                violation = Some((format!("read-back frame is assigned to stream {:?}/{} instead of {:?}/{}", ev2.stream_kind(), ev2.stream_id(), ev.stream_kind(), ev.stream_id()), "stream_changed".into()));
            } else if t2 != t1 {
                let cls = if some_null_dropped(&t1, &t2) { "some_null_in_skipped_option_vanishes" } else { "roundtrip_alters_frame" };
                violation = Some((format!("write/read/write changes the frame: first {} second {}", clip(&t1), clip(&t2)), cls.into()));
            } else if ev2.id != ev.id || ev2.session_id != ev.session_id || ev2.seq != ev.seq || ev2.timestamp_ms != ev.timestamp_ms {
                violation = Some(("envelope field altered by the round trip".into(), "roundtrip_alters_frame".into()));
            } else {
                // snapshot form: pretty array
                let arr = vec![ev.clone(), ev2];
                match serde_json::to_string_pretty(&arr).ok().and_then(|p| serde_json::from_str::<Vec<Event>>(&p).ok()) {
                    Some(back) if back.len() == 2 && back.iter().all(|b| serde_json::to_string(b).ok().as_deref() == Some(t1.as_str())) => {}
                    _ => {
                        let deep = parse_json(&t1).map(|j| jdepth(&j) + 1 >= 128).unwrap_or(false);
                        let cls = if deep { "snapshot_unreadable_recursion_limit" } else { "snapshot_roundtrip_alters_frame" };
                        violation = Some(("pretty (snapshot) form of a readable frame does not read back to the same frames".into(), cls.into()))
                    }
                }
            }
        }
    }
    let pretty = serde_json::to_string_pretty(&[ev.clone()]).ok();
    ImplObs { pretty, t1: Some(t1), err: None, ok: true, re, kind: kind_code(ev.stream_kind()), violation }
}
/// Store level, every frame type: when `EventLog::append` has returned, a reader that shares nothing with
/// the writer (a new file handle; a second `EventLog` on the same path) finds the frame, as the last line,
/// byte for byte what the codec writes.  "Replaying the store from disk reproduces every frame a live
/// subscriber receives" holds at every moment only if this does: the emitters publish a frame and append
/// it in one step and nothing else carries it to the disk.
fn store_oracle(docs: &[&str], seed: u64, res: &mut RunResult) {
    use std::io::{Read, Seek, SeekFrom};
    let scratch = Scratch::new("c03log");
    let path = scratch.path().join("data").join("events.jsonl");
    let log = match rip_log::EventLog::new(&path) {
        Ok(l) => l,
        Err(e) => {
            res.notes.push(format!("store oracle: cannot create a log: {e}"));
            return;
        }
    };
    let mut offset: u64 = 0;
    let mut appended: Vec<String> = Vec::new();
    let mut reported = false;
    for (i, text) in docs.iter().enumerate() {
        let Ok(ev) = serde_json::from_str::<Event>(text) else { continue };
        let Ok(line) = serde_json::to_string(&ev) else { continue };
        if serde_json::from_str::<Event>(&line).is_err() {
            // frames the reader refuses (open findings W2) would make every later replay of this log fail
            continue;
        }
        let r = std::panic::catch_unwind(std::panic::AssertUnwindSafe(|| log.append(&ev)));
        match r {
            Err(_) => {
                res.impl_panics += 1;
                res.oracle_violations.push(OracleViolation { case_id: i as i64, what: "EventLog::append panicked".into(), class: "panic".into(), replay: json!({"doc": clip(text), "seed": seed}) });
                return;
            }
            Ok(Err(e)) => {
                // nothing about a frame may make the log refuse it (the disk is healthy here): the session / task emitters
                // publish and record a frame before this append and drop its result
                res.bump("store.append_refused");
                if !res.oracle_violations.iter().any(|v| v.class == "append_refuses_frame") {
                    let ty = serde_json::to_value(&ev).ok().and_then(|v| v.get("type").and_then(|t| t.as_str()).map(|s| s.to_string())).unwrap_or_default();
                    res.oracle_violations.push(OracleViolation {
                        case_id: i as i64,
                        what: format!("EventLog::append refused a frame the codec reads and writes (type {ty}, a line of {} bytes) on a healthy disk: `{e}`", line.len()),
                        class: "append_refuses_frame".into(),
                        replay: json!({"frame": clip(&line), "type": ty, "line_bytes": line.len(), "error": e.to_string(), "seed": seed,
                            "how": "append the frame to a new rip_log::EventLog: it must return Ok"}),
                    });
                }
                continue;
            }
            Ok(Ok(())) => {}
        }
        appended.push(line.clone());
        res.oracle_checks += 1;
        res.bump("store.frames_appended_then_read_by_a_fresh_reader");
        let mut fresh = Vec::new();
        let read = std::fs::File::open(&path).and_then(|mut f| {
            f.seek(SeekFrom::Start(offset))?;
            f.read_to_end(&mut fresh)
        });
        let want = format!("{line}\n");
        if read.is_err() || fresh != want.as_bytes() {
            if !reported {
                reported = true;
                let ty = serde_json::to_value(&ev).ok().and_then(|v| v.get("type").and_then(|t| t.as_str()).map(|s| s.to_string())).unwrap_or_default();
                let on_disk = std::fs::read(&path).map(|b| b.iter().filter(|c| **c == b'\n').count()).unwrap_or(0);
                res.oracle_violations.push(OracleViolation {
                    case_id: i as i64,
                    what: format!(
                        "EventLog::append returned Ok for frame #{} of the log (type {ty}, {} bytes), but a fresh reader of the file finds {on_disk} complete lines of {} appended; bytes after the previous frame: {:?}",
                        appended.len() - 1,
                        want.len(),
                        appended.len(),
                        clip(&String::from_utf8_lossy(&fresh))
                    ),
                    class: "appended_frame_not_on_disk".into(),
                    replay: json!({"frame": clip(&line), "type": ty, "frames_appended": appended.len(), "lines_on_disk": on_disk, "seed": seed,
                        "how": "append these frames to a new rip_log::EventLog one by one; after each append read the file with a new handle"}),
                });
            }
            // resynchronise on whatever is there so that one lost flush is one report
            offset = std::fs::metadata(&path).map(|m| m.len()).unwrap_or(offset);
            continue;
        }
        offset += want.len() as u64;
        // a second log object on the same path: replay = everything appended so far
        if appended.len() % 97 == 0 {
            second_handle_check(&path, &appended, seed, res);
        }
    }
    second_handle_check(&path, &appended, seed, res);
    // the writer is still alive here (as the authority's is while it serves replays)
    drop(log);
}

fn second_handle_check(path: &std::path::Path, appended: &[String], seed: u64, res: &mut RunResult) {
    res.oracle_checks += 1;
    let got = rip_log::EventLog::new(path).and_then(|l| l.replay());
    let ok = match &got {
        Ok(evs) => evs.len() == appended.len() && evs.iter().zip(appended.iter()).all(|(e, l)| serde_json::to_string(e).ok().as_deref() == Some(l.as_str())),
        Err(_) => false,
    };
    if !ok && !res.oracle_violations.iter().any(|v| v.class == "appended_frame_not_on_disk") {
        res.oracle_violations.push(OracleViolation {
            case_id: -1,
            what: format!(
                "a second EventLog on the same file replays {} while {} frames were appended (append returned Ok for each)",
                match &got {
                    Ok(evs) => format!("{} frames", evs.len()),
                    Err(e) => format!("with error `{e}`"),
                },
                appended.len()
            ),
            class: "appended_frame_not_on_disk".into(),
            replay: json!({"frames_appended": appended.len(), "seed": seed}),
        });
    }
}

fn clip(s: &str) -> String {
    s.chars().take(300).collect()
}
/// t2 equals t1 with some `"key":null` members removed
fn some_null_dropped(t1: &str, t2: &str) -> bool {
    fn strip(j: &J) -> J {
        match j {
            J::Obj(m) => J::Obj(m.iter().filter(|x| x.1 != J::Null).map(|(k, v)| (k.clone(), strip(v))).collect()),
            J::Arr(v) => J::Arr(v.iter().map(strip).collect()),
            x => x.clone(),
        }
    }
    match (parse_json(t1), parse_json(t2)) {
        (Ok(a), Ok(b)) => a != b && strip(&a) == strip(&b),
        _ => false,
    }
}

const TEXT_LIMIT: usize = 2500;

fn coq_case(doc_text: &str, doc: Option<&J>, o: &ImplObs) -> String {
    let mut d = String::new();
    match doc {
        Some(j) => coq_json(j, &mut d),
        None => d.push_str("JNull"),
    }
    let mut re = String::new();
    match &o.re {
        Some(j) => coq_json(j, &mut re),
        None => re.push_str("JNull"),
    }
    let t1 = o.t1.clone().unwrap_or_default();
    let pretty = o.pretty.clone().unwrap_or_default();
    // texts are compared too (model printer / parser against serde_json's) unless they are very large
    let with_text = doc.is_none() || (doc_text.chars().count() <= TEXT_LIMIT && t1.chars().count() <= TEXT_LIMIT && pretty.chars().count() <= 2 * TEXT_LIMIT);
    let (dt, it, ip) = if with_text { (coq_str(doc_text), coq_str(&t1), coq_str(&pretty)) } else { ("[]".to_string(), "[]".to_string(), "[]".to_string()) };
    format!(
        "{{| c_text := {}; c_doc_text := {dt}; c_has_ast := {}; c_doc := {d}; c_impl_ok := {}; c_impl_re := {re}; c_impl_kind := {}; c_impl_text := {it}; c_impl_pretty := {ip} |}}",
        coq_bool(with_text),
        coq_bool(doc.is_some()),
        coq_bool(o.ok),
        o.kind
    )
}

/// text-level variations of a well-formed document (what the tree-level generator cannot express): escapes,
/// whitespace, number spellings, lone surrogates, control characters, truncation, trailing text
fn mutate_text(r: &mut Rng, text: &str) -> (String, &'static str) {
    let k = r.below(18);
    let rep1 = |t: &str, from: &str, to: &str| t.replacen(from, to, 1);
    match k {
        0 => (rep1(text, "\"id\":\"", "\"id\":\"\\ud800"), "txt_lone_high_surrogate"),
        1 => (rep1(text, "\"id\":\"", "\"id\":\"\\udc00x"), "txt_lone_low_surrogate"),
        2 => (rep1(text, "\"id\":\"", "\"id\":\"\\ud83d\\ude00\\u0041\\/\\u00E9"), "txt_escapes_accepted"),
        3 => (rep1(text, "\"id\":\"", "\"id\":\"\u{1}"), "txt_raw_control_char"),
        4 => {
            let mut t = text.to_string();
            if t.ends_with('}') {
                t.pop();
                t.push_str(",}");
            }
            (t, "txt_trailing_comma")
        }
        5 => {
            let ws = [" ", "\t", "\r\n", "\n  "];
            let mut t = String::new();
            let mut in_str = false;
            let mut esc = false;
            for c in text.chars() {
                t.push(c);
                if in_str {
                    if esc {
                        esc = false;
                    } else if c == '\\' {
                        esc = true;
                    } else if c == '"' {
                        in_str = false;
                    }
                } else if c == '"' {
                    in_str = true;
                } else if matches!(c, '{' | ',' | ':' | '[') && r.chance(1, 3) {
                    t.push_str(ws[r.below(4) as usize]);
                }
            }
            (format!(" {t}\n"), "txt_whitespace")
        }
        6 => {
            let bad = *r.pick(&["01", "+1", "1.", "1e2", "-0", "1.0", ".5", "0x10", "1_000", "NaN", "Infinity", "-", "1E+2"]);
            // the seq member is `"seq":<digits>` in every generated document
            let re = text.find("\"seq\":").map(|i| {
                let st = i + 6;
                let en = text[st..].find(|c: char| !c.is_ascii_digit()).map(|x| st + x).unwrap_or(text.len());
                format!("{}{}{}", &text[..st], bad, &text[en..])
            });
            (re.unwrap_or_else(|| text.to_string()), "txt_number_spelling")
        }
        7 => (format!("{text}x"), "txt_trailing_garbage"),
        8 => (format!("{text}{text}"), "txt_two_documents"),
        9 => (format!("\u{feff}{text}"), "txt_bom"),
        10 => {
            let n = text.chars().count();
            let cut = r.range(1, n.max(2) as u64 - 1) as usize;
            (text.chars().take(cut).collect(), "txt_truncated")
        }
        11 => (rep1(text, "\"id\":", "\"\\u0069d\":"), "txt_escaped_key"),
        12 => (rep1(text, "\"type\":", "\"typ\\u0065\":"), "txt_escaped_tag_key"),
        13 => (rep1(text, "\"id\":\"", "\"id\":\"\\x41"), "txt_bad_escape"),
        14 => (rep1(text, "\"id\":\"", "\"id\":\"\\u12"), "txt_short_hex_escape"),
        15 => (text.replacen(':', " : ", 3), "txt_space_around_colon"),
        16 => (rep1(text, "\"id\":\"", "\"id\":'"), "txt_single_quote"),
        _ => (rep1(text, "\"id\":\"", "\"id\":\"\\ud83d\\u0041"), "txt_high_surrogate_then_non_surrogate"),
    }
}

/// frames built as Rust values (values the reader can never produce: Some(Value::Null))
fn handmade() -> Vec<(String, Event)> {
    let ev = |kind: EventKind| Event { id: "h".into(), session_id: "s".into(), timestamp_ms: 5, seq: 0, kind };
    vec![
        ("job_ended result Some(Null) [skipped-if-none field]".into(), ev(EventKind::ContinuityJobEnded { job_id: "j".into(), job_kind: "k".into(), status: "ok".into(), result: Some(Value::Null), error: None, actor_id: "a".into(), origin: "o".into() })),
        ("job_spawned details Some(Null) [skipped-if-none field]".into(), ev(EventKind::ContinuityJobSpawned { job_id: "j".into(), job_kind: "k".into(), details: Some(Value::Null), actor_id: "a".into(), origin: "o".into() })),
        ("provider_event data Some(Null) [always written]".into(), ev(EventKind::ProviderEvent { provider: "p".into(), status: rip_kernel::ProviderEventStatus::Event, event_name: None, data: Some(Value::Null), raw: None, errors: vec![], response_errors: vec![] })),
        ("tool_ended artifacts Some(Null) [always written]".into(), ev(EventKind::ToolEnded { tool_id: "t".into(), exit_code: -1, duration_ms: 0, artifacts: Some(Value::Null) })),
        ("provider_cursor_updated cursor Some(Null)".into(), ev(EventKind::ContinuityProviderCursorUpdated { provider: "p".into(), endpoint: None, model: None, cursor: Some(Value::Null), action: "set".into(), reason: None, run_session_id: None, actor_id: "a".into(), origin: "o".into() })),
        ("tool_started args nested object".into(), ev(EventKind::ToolStarted { tool_id: "t".into(), name: "n".into(), args: json!({"z": [1, 2.5, {"y": null}], "a": "😀"}), timeout_ms: Some(u64::MAX) })),
    ]
}


/// frames produced by the real provider path: SSE bytes -> SseDecoder -> EventFrameMapper (what session.rs logs
/// and broadcasts for every provider event)
fn provider_frames(r: &mut Rng) -> Vec<(String, Event)> {
    use rip_provider_openresponses::{EventFrameMapper, SseDecoder};
    let mut payloads: Vec<(String, String)> = vec![
        ("text delta".into(), r#"{"type":"response.output_text.delta","sequence_number":1,"item_id":"i","output_index":0,"content_index":0,"delta":"h\u00e9llo \ud83d\ude00"}"#.into()),
        ("done".into(), "[DONE]".into()),
        ("invalid json".into(), "{not json".into()),
        ("float payload".into(), r#"{"type":"x","v":[-1.6870701997249725e-12,0.1,1e300,5e-324,1.7976931348623157e308,123456789.12345679]}"#.into()),
        ("null payload".into(), "null".into()),
        ("scalar payload".into(), "18446744073709551615".into()),
    ];
    for d in [60usize, 125, 126, 127, 128, 129] {
        payloads.push((format!("payload nested {d} arrays deep"), format!("{}1{}", "[".repeat(d), "]".repeat(d))));
    }
    for _ in 0..6 {
        let bits = rand_f64_bits(r);
        payloads.push(("random float payload".into(), format!("{{\"type\":\"x\",\"f\":{}}}", f64_tok(f64::from_bits(bits)))));
    }
    let mut out = vec![];
    let mut dec = SseDecoder::new();
    let mut map = EventFrameMapper::new("provider-session");
    for (label, data) in payloads {
        let chunk = format!("event: e\ndata: {data}\n\n");
        for parsed in dec.push(&chunk) {
            for ev in map.map(&parsed) {
                out.push((format!("provider path: {label}"), ev));
            }
        }
    }
    out
}

fn rand_f64_bits(r: &mut Rng) -> u64 {
    let mant = r.next() & ((1u64 << 52) - 1);
    let exp = match r.below(4) {
        0 => 1 + r.below(2046),
        _ => 1023 - 60 + r.below(120),
    };
    (r.below(2) << 63) | (exp << 52) | mant
}

/// numbers inside payload values: the token the writer prints for a float must read back to the same float
/// (the model treats number tokens as opaque atoms; this is the assumption it rests on)
fn float_oracle(r: &mut Rng, n: usize, res: &mut RunResult) {
    let mut toks: Vec<String> = vec!["-1.6870701997249725e-12".into(), "5e-324".into(), "1.7976931348623157e308".into(), "0.1".into(), "2.2250738585072014e-308".into()];
    for _ in 0..n {
        toks.push(f64_tok(f64::from_bits(rand_f64_bits(r))));
    }
    let mut bad = 0u64;
    for (i, tok) in toks.iter().enumerate() {
        res.oracle_checks += 1;
        let back = serde_json::from_str::<Value>(tok).ok().map(|v| serde_json::to_string(&v).unwrap_or_default());
        let canonical = tok.parse::<f64>().ok().map(f64_tok);
        // only tokens in the writer's own (shortest round-trip) form are held to identity
        if canonical.as_deref() == Some(tok.as_str()) && back.as_deref() != Some(tok.as_str()) {
            bad += 1;
            if bad <= 2 {
                res.oracle_violations.push(OracleViolation {
                    case_id: -(1000 + i as i64),
                    what: format!("a float the writer printed as {tok} reads back and prints as {}: a frame holding it replays to a different value than the one broadcast live", back.unwrap_or_else(|| "<error>".into())),
                    class: "float_not_roundtripping".into(),
                    replay: json!({"float_token": tok, "how": "serde_json::to_string(&serde_json::from_str::<Value>(tok))"}),
                });
            }
        }
    }
    res.bump_by("float.tokens_checked", toks.len() as u64);
    res.bump_by("float.not_roundtripping", bad);
}

fn deep_frames() -> Vec<(String, Event)> {
    let mut out = vec![];
    for d in [100usize, 124, 125, 126, 127, 128, 200] {
        let mut v = json!(1);
        for _ in 0..d {
            v = Value::Array(vec![v]);
        }
        let beyond = if d > rip_kernel::MAX_PAYLOAD_NESTING { " [beyond the producers' bound]" } else { "" };
        out.push((format!("tool_started args nested {d} arrays deep{beyond}"), Event { id: "d".into(), session_id: "s".into(), timestamp_ms: 1, seq: 0, kind: EventKind::ToolStarted { tool_id: "t".into(), name: "n".into(), args: v, timeout_ms: None } }));
    }
    out
}

fn main() {
    // nothing from the caller's environment reaches a run: the configuration matrix sets the switches it drives
    let home = Scratch::new("c03home");
    session_matrix::scrub_env(home.path());
    let a = parse_args();
    let mut res = RunResult::new("C03", &a);
    res.rule = "(a) one case = one JSON document for serde_json::from_str::<Event>, generated from the extracted schema (every variant x {all fields, minimal, random presence, explicit nulls} x aliases x unicode/large/nested/number corner values) plus one of 15 malformed/unusual variations, plus hand-built frames holding Some(Null) and deeply nested payloads, plus frames produced by the real provider path (SSE bytes -> SseDecoder -> EventFrameMapper, incl. float and deeply nested payloads), plus real log lines produced by the histories; the model decodes/re-encodes the same document inside Coq. (b) one history = 5-40 continuity operations, provider-less session runs (tool output chunks), tool tasks (output deltas while running), cache-loss steps (continuity_streams/ or one thread's sidecar removed while the store lives) and replay_events calls on the real store; restarts of the store and periods in which the log's writer sits on a full disk (events.jsonl is a symlink that points at /dev/full while the writer is opened: every write op returns an error); the views are compared DURING the history (after every frame a live subscriber has, once its emit step is over, a fresh reader of events.jsonl / the sidecar must find it; replay_events = log; after EVERY op, failed ones included, every frame a fresh reader finds under continuity_streams/ must be in events.jsonl) and frame for frame at the end; 5 fixed regression histories run first. (d) 4 OS threads append to one thread of a real store at the same time (free running): live order = order in events.jsonl = sidecar = replay_events and the log replays. (e) one session of 17 005 frames (ls over 17 000 files): live = log = snapshot. (f) one session run on an engine whose log writer sits on a full disk (known finding W3). (g) frames of EVERY size through the real emit paths: one store, ~45 streams (quick) whose payload is a unit of one of 16 character classes (ASCII, quote, backslash, newline, NUL / control characters, DEL, 2- / 3- / 4-byte UTF-8, U+2028, U+FFFD, noncharacters, a mixed unit) repeated to 1 B .. 5.3 MB as written (anchors on both sides of 8 KiB, 64 KiB, 1 / 2 / 4 MiB + sizes drawn log-uniformly from the seed), entering as a prompt (session_started.input, output_text_delta), tool arguments (tool_started.args, also nested 124 deep), one tool output chunk (tool_stdout), a provider event from a scripted OpenResponses server (provider_event raw + data, output_text_delta), task arguments (POST /tasks: tool_task_spawned.args) and a continuity message; a live subscriber attached before each run; per stream live = snapshot (sidecar, replay_events) = the stream's lines in events.jsonl, nothing live or in the snapshot that is not in the log, at the end replay_validated of the whole log and the continuity written before; a failing size is bisected; every stream also goes to the model as its frames with long strings run-length folded (byte length + code-point sum of each line and the views of each frame compared). (i) 3 rounds of 6 sessions of one engine spawned at once whose snapshot writes are made to overlap (a rip_verif hook holds each write_snapshot at snap.created until all six have arrived): per session live = snapshot = log. (h) frames of six types x sizes up to 4.2 MB appended to a real EventLog: append must return Ok (a refusal is a violation), a fresh reader finds the line; one document per frame type with a 70 KB .. 2.3 MB field through the codec oracle and the store oracle. (c) every accepted document is appended to a real EventLog and looked up by a fresh reader after append returns. non-trivial = accepted documents with at least one optional/vector/Value field or a variation; distinct by document text".into();
    let schema_path = a.extra.get("schema").cloned().unwrap_or_else(|| "coq/Gen/event_schema.json".to_string());
    let schema: Value = serde_json::from_str(&std::fs::read_to_string(&schema_path).unwrap_or_else(|e| panic!("cannot read {schema_path}: {e}"))).expect("schema json");
    let variants: Vec<Value> = schema["variants"].as_array().cloned().unwrap_or_default();
    let thorough = a.thorough();
    if a.extra.get("only").map(|s| s.as_str()) == Some("matrix") {
        // the configuration matrix alone (debugging / replay of a config_* violation): oracle only
        let x = matrix::config_matrix(a.seed, thorough);
        for n in &x.notes {
            println!("note: {n}");
        }
        for v in &x.violations {
            println!("VIOLATION-CANDIDATE [{}] {}", v.class, v.what);
        }
        for (t, _) in x.cases.iter().take(6) {
            println!("head case: {t}");
        }
        println!("c03 --only matrix: {} runs, {} oracle checks, {} violations, {} heads", x.evaluations, x.oracle_checks, x.violations.len(), x.cases.len());
        return;
    }
    let per_variant = if thorough { 120 } else { 14 };
    let n_hist = if thorough { 400 } else { 60 };
    let mut r = Rng::new(a.seed);
    let mut w = CaseWriter::new(&a.out, "Base.Json Model.Wire Gen.EventSchema", "check_case", "model_obs", 40);
    let mut distinct = Distinct::default();

    // ---- (b) histories first: their real log lines also feed (a)
    let h = hist::run_histories(a.seed, n_hist, if thorough { 600 } else { 150 });
    res.oracle_checks += h.oracle_checks;
    res.evaluations += h.histories;
    for (k, v) in &h.distribution {
        res.bump_by(&format!("hist.{k}"), *v);
    }
    res.bump_by("hist.frames_compared", h.frames_compared);
    res.notes.extend(h.notes.iter().cloned());
    res.samples.extend(h.samples.iter().take(1).cloned());
    res.oracle_violations.extend(h.violations);

    // ---- (d) several writers on one thread at once; (e) one session with more frames than any buffer in the path
    let mut extras = vec![extra::concurrent_writers(a.seed, if thorough { 24 } else { 4 }, 300), extra::long_session(17_000), extra::session_on_full_disk()];
    if thorough {
        extras.push(extra::long_session(40_000));
    }
    for x in extras {
        res.oracle_checks += x.oracle_checks;
        res.evaluations += x.evaluations;
        for (k, v) in &x.distribution {
            res.bump_by(&format!("hist.{k}"), *v);
        }
        res.bump_by("hist.frames_compared", x.frames_compared);
        res.notes.extend(x.notes.iter().cloned());
        res.oracle_violations.extend(x.violations);
    }

    // ---- (g) frames of every size through the real emit paths; (h) EventLog::append takes every frame
    let mut sized_cases: Vec<(String, Value)> = vec![];
    for mut x in [sized::sized_frames(a.seed, thorough), sized::append_ladder(a.seed, thorough), snaps::concurrent_session_ends(if thorough { 12 } else { 3 })] {
        res.oracle_checks += x.oracle_checks;
        res.evaluations += x.evaluations;
        for (k, v) in &x.distribution {
            res.bump_by(&format!("sized.{k}"), *v);
        }
        res.bump_by("hist.frames_compared", x.frames_compared);
        res.notes.extend(x.notes.iter().cloned());
        res.oracle_violations.append(&mut x.violations);
        sized_cases.append(&mut x.cases);
    }

    // ---- (j) session streams under every configuration switch session.rs branches on
    let mut head_cases: Vec<(String, Value)> = vec![];
    {
        let mut x = matrix::config_matrix(a.seed, thorough);
        res.oracle_checks += x.oracle_checks;
        res.evaluations += x.evaluations;
        for (k, v) in &x.distribution {
            res.bump_by(k, *v);
        }
        res.bump_by("hist.frames_compared", x.frames_compared);
        res.notes.extend(x.notes.iter().cloned());
        res.notes.extend(matrix::switch_notes(&a.repo()));
        res.oracle_violations.append(&mut x.violations);
        head_cases.append(&mut x.cases);
    }

    // ---- (a) documents
    let mut cases: Vec<DocCase> = vec![];
    for (label, ev) in handmade().into_iter().chain(deep_frames()) {
        let sns = label.contains("[skipped-if-none field]");
        // hand-built frames whose payload nests deeper than rip_kernel::MAX_PAYLOAD_NESTING: no producer builds them
        // any more (provider events, tool arguments and task arguments are bounded where they enter, /repo fix W2);
        // they stay as codec cases (the model's depth guard, c03_depth_limit_refuted), not as frames the system emits
        let beyond = label.contains("[beyond the producers' bound]");
        cases.push(DocCase { emitted: !beyond, some_null_skipped: sns, doc_text: serde_json::to_string(&ev).unwrap(), label: format!("handmade: {label}"), variant: "handmade".into(), wellformed: true });
    }
    for (label, ev) in provider_frames(&mut r) {
        cases.push(DocCase { emitted: true, some_null_skipped: false, doc_text: serde_json::to_string(&ev).unwrap(), label, variant: "provider".into(), wellformed: true });
    }
    float_oracle(&mut r, if thorough { 20_000 } else { 2_000 }, &mut res);
    for line in &h.emitted_lines {
        cases.push(DocCase { emitted: true, some_null_skipped: false, doc_text: line.clone(), label: "real log line".into(), variant: "real".into(), wellformed: true });
    }
    let mut huge_ix = 0usize;
    for v in &variants {
        let kind = v["kind"].as_str().unwrap_or("session").to_string();
        let tag = v["tag"].as_str().unwrap_or("?").to_string();
        let fields: Vec<Value> = v["fields"].as_array().cloned().unwrap_or_default();
        for i in 0..per_variant + 1 {
            // the extra round: one document per frame type whose first string / Value field is HUGE (70 KB .. 2.3 MB as written;
            // all sizes in the thorough tier): codec round trip + store-level append; too large to ship into Coq as text
            let huge = i == per_variant;
            if huge && !fields.iter().any(|f| matches!(f["ty"]["k"].as_str(), Some("str") | Some("val"))) {
                continue;
            }
            let presence = if huge { Presence::Full } else { match i % 5 {
                0 => Presence::Full,
                1 => Presence::Minimal,
                2 => Presence::Nulls,
                _ => Presence::Random,
            } };
            let malformed = !huge && i >= 4 && r.chance(3, 5);
            let mut g = Gen { r: &mut r, presence, aliases: i % 4 == 3, messy_val: malformed, big: i == 5 };
            let mut payload = g.fields(&fields);
            if huge {
                let sizes: &[usize] = if thorough { &[70_000, 300_000, 1_048_300, 1_100_000, 2_300_000, 4_300_000] } else { &[70_000, 1_100_000, 300_000, 2_300_000] };
                let size = sizes[(huge_ix + a.seed as usize) % sizes.len()];
                huge_ix += 1;
                let unit = sized::UNITS[r.below(sized::UNITS.len() as u64) as usize].1;
                let esc = serde_json::to_string(unit).map(|t| t.len() - 2).unwrap_or(1);
                let key = fields.iter().find(|f| matches!(f["ty"]["k"].as_str(), Some("str") | Some("val"))).and_then(|f| f["key"].as_str()).unwrap_or("?").to_string();
                if let Some(m) = payload.iter_mut().find(|m| m.0 == key) {
                    m.1 = J::Str(unit.repeat((size / esc).max(1)));
                }
            }
            let mut doc = envelope(&mut r, &kind);
            doc.push(("type".into(), J::Str(tag.clone())));
            doc.extend(payload);
            let mut label = format!("{presence:?}");
            if huge {
                label = format!("{label}+huge_payload");
            }
            if malformed {
                let m = mutate(&mut r, &mut doc, v, variants.len());
                label = format!("{label}+{m}");
            }
            let mut text = String::new();
            let mut doc = J::Obj(doc);
            print_json(&doc, &mut text);
            if malformed && serde_json::from_str::<Event>(&text).is_ok() && canon_nums(&mut doc) {
                // the variation put a foreign number spelling into a `Value` payload of a document the reader accepts
                text.clear();
                print_json(&doc, &mut text);
                label = format!("{label}(numbers as serde_json spells them)");
            }
            // one in four well-formed documents also goes through a text-level variation (as a separate case)
            if !malformed && text.chars().count() <= TEXT_LIMIT && r.chance(1, 4) {
                let (t2, l2) = mutate_text(&mut r, &text);
                cases.push(DocCase { emitted: false, some_null_skipped: false, doc_text: t2, label: format!("{label}+{l2}"), variant: v["name"].as_str().unwrap_or("?").to_string(), wellformed: false });
            }
            cases.push(DocCase { emitted: false, some_null_skipped: false, doc_text: text, label, variant: v["name"].as_str().unwrap_or("?").to_string(), wellformed: !malformed });
        }
    }
    // top-level shapes that are not objects
    for t in ["[]", "null", "\"session_started\"", "{}", "[\"e\",\"s\",0,0]"] {
        cases.push(DocCase { emitted: false, some_null_skipped: false, doc_text: t.to_string(), label: "not_a_frame".into(), variant: "none".into(), wellformed: false });
    }

    let mut accepted = 0u64;
    for (i, c) in cases.iter().enumerate() {
        let text = c.doc_text.clone();
        let got = std::panic::catch_unwind(move || run_impl(&text));
        res.evaluations += 1;
        res.oracle_checks += 1;
        res.bump(&format!("doc.{}", c.label.split('+').nth(1).unwrap_or(if c.wellformed { "wellformed" } else { "other" })));
        let doc: Option<J> = parse_json(&c.doc_text).ok();
        if doc.is_none() {
            res.bump("doc.text_rejected_by_harness_parser");
        }
        let replay = json!({"label": c.label, "variant": c.variant, "doc": clip(&c.doc_text), "doc_len": c.doc_text.len(), "seed": a.seed});
        match got {
            Err(_) => {
                res.impl_panics += 1;
                res.oracle_violations.push(OracleViolation { case_id: i as i64, what: "serde codec panicked".into(), class: "panic".into(), replay });
            }
            Ok(o) => {
                if o.ok {
                    accepted += 1;
                    res.bump(&format!("accepted.kind{}", o.kind));
                } else {
                    res.bump("rejected");
                    if c.emitted {
                        let e = o.err.clone().unwrap_or_default();
                        let cls = if e.contains("recursion limit") { "written_frame_unreadable_recursion_limit" } else { "written_frame_unreadable" };
                        res.oracle_violations.push(OracleViolation { case_id: i as i64, what: format!("a frame the writer produced is rejected by the reader: {e}"), class: cls.into(), replay: replay.clone() });
                    } else if c.wellformed {
                        // a well-formed document generated from the schema must be accepted
                        if doc.as_ref().map(jdepth).unwrap_or(0) < 128 {
                            res.oracle_violations.push(OracleViolation { case_id: i as i64, what: "a frame generated from the extracted schema is rejected by the reader".into(), class: "schema_document_rejected".into(), replay: replay.clone() });
                        }
                    }
                }
                if c.emitted && o.ok && o.violation.is_none() {
                    // the document IS a written frame: reading and writing it again must reproduce it
                    let t1 = o.t1.clone().unwrap_or_default();
                    if t1 != c.doc_text && c.some_null_skipped && some_null_dropped(&c.doc_text, &t1) {
                        res.bump("handmade.some_null_in_skipped_option_vanishes_as_modelled");
                    } else if t1 != c.doc_text {
                        let cls = if some_null_dropped(&c.doc_text, &t1) { "some_null_in_skipped_option_vanishes" } else { "roundtrip_alters_frame" };
                        res.oracle_violations.push(OracleViolation { case_id: i as i64, what: format!("write/read/write changes the frame: written {} read back and written again {}", clip(&c.doc_text), clip(&t1)), class: cls.into(), replay: replay.clone() });
                    }
                }
                if let Some((what, class)) = &o.violation {
                    if !c.emitted && class.ends_with("_recursion_limit") && c.label.contains("[beyond the producers' bound]") {
                        res.bump("handmade.deeper_than_the_producers_bound_unreadable_as_modelled");
                    } else {
                        res.oracle_violations.push(OracleViolation { case_id: i as i64, what: what.clone(), class: class.clone(), replay: replay.clone() });
                    }
                }
                if doc.is_none() && c.doc_text.chars().count() > 3 * TEXT_LIMIT {
                    res.bump("doc.text_only_case_too_large_skipped");
                } else if c.doc_text.len() > 30_000 {
                    // the sized frames go to the model in folded form (module sized), not as trees of code points
                    res.bump("doc.huge_document_not_shipped_as_a_tree");
                } else if !a.oracle_only() {
                    let id = w.push(coq_case(&c.doc_text, doc.as_ref(), &o));
                    if res.case_index.len() < 3000 {
                        res.case_index.insert(id.to_string(), replay.clone());
                    }
                }
                if o.ok && distinct.add(&c.doc_text) {}
                if res.samples.len() < 3 && o.ok && c.variant != "handmade" && c.doc_text.len() < 600 {
                    res.samples.push(replay);
                }
            }
        }
    }
    w.flush();
    // the sized streams: their own case files (another check function), ids from 5 000 000
    let mut wz = CaseWriter::new(&a.out.join("sized"), "Base.Json Model.Wire Model.WireSized Gen.Sinks", "check_sized", "sized_obs", 12).with_base(5_000_000);
    if !a.oracle_only() {
        for (term, replay) in &sized_cases {
            let id = wz.push(term.clone());
            res.case_index.insert(id.to_string(), replay.clone());
        }
        wz.flush();
    }
    // the request heads of the configuration matrix: their own case files, ids from 6 000 000
    let mut wh = CaseWriter::new(&a.out.join("matrix"), "Model.WireRun Gen.RequestHead", "check_head", "head_obs", 200).with_base(6_000_000);
    if !a.oracle_only() {
        for (term, replay) in &head_cases {
            let id = wh.push(term.clone());
            if res.case_index.len() < 3400 {
                res.case_index.insert(id.to_string(), replay.clone());
            }
        }
        wh.flush();
    }
    res.bump_by("config.heads_compared_with_the_model", head_cases.len() as u64);
    res.bump_by("sized.cases_compared_with_the_model", sized_cases.len() as u64);
    let docs: Vec<&str> = cases.iter().map(|c| c.doc_text.as_str()).collect();
    store_oracle(&docs, a.seed, &mut res);
    res.bump_by("doc.accepted", accepted);
    res.distinct_nontrivial = distinct.count();
    res.case_files = w.files.iter().chain(wz.files.iter()).chain(wh.files.iter()).map(|p| p.display().to_string()).collect();
    res.write(&a.out);
    println!(
        "c03: {} documents ({} accepted), {} histories / {} frame-view comparisons, {} oracle violations, {} panics",
        cases.len(),
        accepted,
        h.histories,
        h.frames_compared,
        res.oracle_violations.len(),
        res.impl_panics
    );
}
