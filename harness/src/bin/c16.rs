//! C16 — tool loop answers each provider call exactly once, in order, in the very next request; never runs
//! a barred tool; bounded; a schema-invalid request is never sent; stateless inputs extend each other.
//!
//! Three kinds of correspondence cases (model = coq/Model/ToolLoop.v):
//!  * CCollect: the real `ToolCallCollector` (hook `ripd::verif::collect_calls`) over generated provider
//!    events (clean and dirty grammars: missing/empty/duplicate ids, any order of added/delta/done);
//!  * CEnforce: the real `ToolChoiceEnforcement::from_value` + `allows_function` over every tool_choice shape;
//!  * CLoop: the real `run_openresponses_agent_loop` behind the real router (`ripd::verif::build_app`,
//!    POST /sessions, POST /sessions/{id}/input) against the scripted provider (real HTTP, chunked SSE),
//!    with marker tools writing into the workspace; observed = recorded request bodies, the session frames
//!    (request kinds, tool_started/ended), end reason.
//! Independent oracle (no model): on the recorded bodies, frames and marker files — answered exactly once
//! by call id, in output order, in the very next request (clean scripts: against the calls the generator
//! emitted); barred tools leave no marker and no run frame; <= 32 tool calls (refused ones count); every sent body
//! satisfies the CreateResponseBody schema as judged by the harness's OWN JSON-Schema interpreter over the schema
//! documents (../c16_schema.rs — not by rip_openresponses' validator, whose verdict is only compared); stateless
//! inputs are prefix-ordered; a marker is written at most once per call id; calls of the last round stay unanswered
//! only for a named reason (O7); each output belongs to the call it is filed under (O8).
//! (e) Sized runs (../c16_sized.rs): every kind of invalidity the generator knows x quoted payloads (tool outputs, call
//! arguments) of 0 bytes .. 8 KiB on and next to every power of two and every integer constant of the code between the
//! validator's verdict and the gate, in characters of 1-4 bytes at every alignment; same oracle.
//! The validity handed to the model (`valids`) is the judge's verdict too, and check_case additionally demands that
//! the model's own `items_ok` (the schema's value limits on input items) equals that verdict on every follow-up.
use rip_provider_openresponses::{ParsedEvent, ParsedEventKind, ToolChoiceParam};
use rv::provider::{Scripted, ScriptedProvider};
use rv::*;
use serde::{Deserialize, Serialize};
use serde_json::{json, Map, Value};
use std::collections::{BTreeMap, BTreeSet};
use std::path::Path;
use std::sync::OnceLock;
use std::time::Duration;

/// the independent schema judge (harness/src/c16_schema.rs): a JSON-Schema interpreter over the schema documents,
/// sharing no code with rip_openresponses' validators
#[path = "../c16_schema.rs"]
mod schema;
static SCHEMAS: OnceLock<schema::Schemas> = OnceLock::new();
fn schemas() -> &'static schema::Schemas {
    SCHEMAS.get_or_init(|| schema::Schemas::load().expect("schema documents"))
}
/// violations of the CreateResponseBody schema by a whole request body (nothing carved out)
fn schema_errors(body: &Value) -> Vec<String> {
    schemas().validate("CreateResponseBody.json", body)
}
/// schema-invalid requests of every size: payload texts, the size ladder read from the source, the schedule
#[path = "../c16_sized.rs"]
mod sized;

// ------------------------------------------------------------------ Coq printers
fn coq_json(v: &Value) -> String {
    match v {
        Value::Null => "JNull".into(),
        Value::Bool(b) => format!("(JBool {})", coq_bool(*b)),
        Value::Number(n) => format!("(JNum {})", coq_str(&n.to_string())),
        Value::String(s) => format!("(JStr {})", coq_str(s)),
        Value::Array(a) => format!("(JArr {})", coq_list(a, coq_json)),
        Value::Object(o) => {
            let kv: Vec<(&String, &Value)> = o.iter().collect();
            format!("(JObj {})", coq_list(&kv, |(k, v)| format!("({}, {})", coq_str(k), coq_json(v))))
        }
    }
}
/// a long flat list as `(chunk ++ chunk ++ ...)`: one list literal with tens of thousands of elements
/// overflows coqc's stack while it is parsed
fn coq_list_n_chunked(xs: &[u64]) -> String {
    if xs.len() <= 400 {
        return coq_list_n(xs);
    }
    let parts: Vec<String> = xs.chunks(400).map(coq_list_n).collect();
    format!("({})", parts.join(" ++ "))
}
fn enc_ostr(out: &mut Vec<u64>, s: Option<&str>) {
    match s {
        None => out.push(0),
        Some(s) => {
            out.push(1);
            enc_str(out, s)
        }
    }
}

// ------------------------------------------------------------------ event generator
const TOOLS: [&str; 8] = ["read", "write", "apply_patch", "ls", "grep", "artifact_fetch", "bash", "shell"];

#[derive(Clone, Debug, Serialize, Deserialize, PartialEq)]
struct ExpCall {
    oi: u64,
    call_id: String,
    name: String,
    args: String,
}

fn split_random(r: &mut Rng, s: &str) -> Vec<String> {
    let cs: Vec<char> = s.chars().collect();
    if cs.is_empty() {
        return vec![];
    }
    let k = r.range(1, 4) as usize;
    let mut cuts: Vec<usize> = (0..k - 1).map(|_| r.below(cs.len() as u64 + 1) as usize).collect();
    cuts.sort();
    let mut out = vec![];
    let mut p = 0;
    for c in cuts.into_iter().chain(std::iter::once(cs.len())) {
        out.push(cs[p..c].iter().collect::<String>());
        p = c;
    }
    out
}

/// One function-call item of a clean script and the events announcing it (in order).
fn clean_item_events(r: &mut Rng, oi: u64, id: Option<&str>, call_id: &str, name: &str, args: &str) -> Vec<Value> {
    let mut item = Map::new();
    item.insert("type".into(), json!("function_call"));
    if let Some(id) = id {
        item.insert("id".into(), json!(id));
    }
    item.insert("call_id".into(), json!(call_id));
    item.insert("name".into(), json!(name));
    let key = id.unwrap_or(call_id); // item_id falls back to the call id
    let mut evs = vec![];
    let delivery = r.below(5);
    // added
    let mut added = item.clone();
    match delivery {
        3 => {
            added.insert("arguments".into(), json!(args));
        }
        0 if r.chance(1, 2) => {
            added.insert("arguments".into(), json!(""));
        }
        _ => {}
    }
    added.insert("status".into(), json!("in_progress"));
    let with_added = delivery == 3 || r.chance(4, 5);
    // the name must reach the collector through added or done
    let name_in_added = r.chance(4, 5);
    let name_in_done = !(with_added && name_in_added) || r.chance(2, 3);
    if !name_in_added {
        added.remove("name");
    }
    if with_added {
        evs.push(json!({"type":"response.output_item.added","output_index":oi,"item":Value::Object(added)}));
    }
    let delta = |d: &str| json!({"type":"response.function_call_arguments.delta","item_id":key,"output_index":oi,"delta":d});
    match delivery {
        0 => {
            // arguments only in the done item; deltas are arbitrary (overridden)
            for d in split_random(r, "{\"x\":") {
                if r.chance(1, 2) && !args.is_empty() {
                    evs.push(delta(&d));
                }
            }
        }
        1 => {
            for d in split_random(r, args) {
                evs.push(delta(&d));
            }
        }
        2 => {
            for d in split_random(r, "zz") {
                evs.push(delta(&d));
            }
            evs.push(json!({"type":"response.function_call_arguments.done","item_id":key,"output_index":oi,"arguments":args}));
        }
        4 => {
            for d in split_random(r, args) {
                evs.push(delta(&d));
            }
            if r.chance(1, 2) {
                evs.push(json!({"type":"response.function_call_arguments.done","item_id":key,"output_index":oi,"arguments":args}));
            }
        }
        _ => {}
    }
    let mut done = item.clone();
    match delivery {
        0 => {
            done.insert("arguments".into(), json!(args));
        }
        4 => {
            done.insert("arguments".into(), json!(args));
        }
        _ => {
            if r.chance(1, 2) {
                done.insert("arguments".into(), json!(""));
            }
        }
    }
    if !name_in_done {
        done.remove("name");
    }
    done.insert("status".into(), json!("completed"));
    evs.push(json!({"type":"response.output_item.done","output_index":oi,"item":Value::Object(done)}));
    evs
}

fn noise_event(r: &mut Rng) -> Value {
    match r.below(11) {
        8 => json!({"type":"response.output_item.done","output_index":2,"item":{"type":"frobnicate_call","id":"x_1","call_id":"call_x","name":"bash","arguments":"{}"}}),
        9 => json!({"type":"response.output_item.done","output_index":2,"item":{"type":"custom_tool_call","id":"ct_1","call_id":"call_ct","name":"bash","input":"echo"}}),
        10 => json!({"type":"response.output_item.added","output_index":2,"item":{"type":7,"call_id":"call_n","name":"bash"}}),
        0 => json!({"type":"response.output_text.delta","delta":"hi","output_index":0,"content_index":0,"item_id":"msg_1"}),
        1 => json!({"type":"response.output_item.added","output_index":7,"item":{"type":"message","id":"msg_1","role":"assistant","content":[]}}),
        2 => json!({"type":"response.output_item.done","output_index":7,"item":{"type":"message","id":"msg_1","role":"assistant","content":[]}}),
        3 => json!({"type":"response.in_progress"}),
        4 => json!(["not", "an", "object"]),
        5 => json!({"no_type":true,"item":{"type":"function_call","call_id":"ghost","name":"bash","arguments":"{}"}}),
        6 => json!({"type":"response.output_item.done","output_index":1}),
        _ => json!({"type":"response.output_item.done","output_index":1,"item":"str"}),
    }
}

/// interleave per-item event sequences keeping each item's own order
fn interleave(r: &mut Rng, mut seqs: Vec<Vec<Value>>) -> Vec<Value> {
    for s in &mut seqs {
        s.reverse();
    }
    let mut out = vec![];
    loop {
        let live: Vec<usize> = (0..seqs.len()).filter(|i| !seqs[*i].is_empty()).collect();
        if live.is_empty() {
            break;
        }
        let i = *r.pick(&live);
        out.push(seqs[i].pop().unwrap());
    }
    out
}

fn weird_value(r: &mut Rng) -> Value {
    match r.below(6) {
        0 => Value::Null,
        1 => json!(7),
        2 => json!(""),
        3 => json!(true),
        4 => json!({"a":1}),
        _ => json!([1]),
    }
}

/// Dirty provider events around function calls: ids missing / empty / shared, wrong types, any order.
fn dirty_events(r: &mut Rng, tag: &str, mk: &mut dyn FnMut(&mut Rng, usize) -> (String, String)) -> Vec<Value> {
    let ids = [format!("fc_{tag}_a"), format!("fc_{tag}_b"), format!("fc_{tag}_c")];
    let cids = [format!("call_{tag}_a"), format!("call_{tag}_b"), format!("call_{tag}_c"), format!("call_{tag}_{}", "L".repeat(70))];
    let n = r.range(1, 12) as usize;
    let mut evs = vec![];
    for j in 0..n {
        let (name, args) = mk(r, j);
        let oi: Value = match r.below(10) {
            0 => Value::Null,
            1 => json!(-1),
            2 => json!(1.5),
            3 => json!("2"),
            4 => json!(18446744073709551615u64),
            _ => json!(r.below(4)),
        };
        let id: Option<Value> = match r.below(8) {
            0 => None,
            1 => Some(json!("")),
            2 => Some(weird_value(r)),
            _ => Some(json!(r.pick(&ids).clone())),
        };
        let cid: Option<Value> = match r.below(8) {
            0 => None,
            1 => Some(json!("")),
            2 => Some(weird_value(r)),
            _ => Some(json!(r.pick(&cids).clone())),
        };
        let key: String = match r.below(6) {
            0 => "".into(),
            1 => r.pick(&cids).clone(),
            _ => r.pick(&ids).clone(),
        };
        match r.below(7) {
            0 | 1 | 2 => {
                let done = r.below(3) > 0;
                let mut item = Map::new();
                item.insert("type".into(), if r.chance(1, 12) { json!("message") } else { json!("function_call") });
                if let Some(id) = id {
                    item.insert("id".into(), id);
                }
                if let Some(cid) = cid {
                    item.insert("call_id".into(), cid);
                }
                match r.below(6) {
                    0 => {}
                    1 => {
                        item.insert("name".into(), weird_value(r));
                    }
                    _ => {
                        item.insert("name".into(), json!(name));
                    }
                }
                match r.below(5) {
                    0 => {}
                    1 => {
                        item.insert("arguments".into(), json!(""));
                    }
                    2 => {
                        item.insert("arguments".into(), weird_value(r));
                    }
                    _ => {
                        item.insert("arguments".into(), json!(args));
                    }
                }
                let mut ev = Map::new();
                ev.insert("type".into(), json!(if done { "response.output_item.done" } else { "response.output_item.added" }));
                if !oi.is_null() {
                    ev.insert("output_index".into(), oi);
                }
                ev.insert("item".into(), Value::Object(item));
                let ev = Value::Object(ev);
                if r.chance(1, 8) {
                    evs.push(ev.clone()); // the same event twice
                }
                evs.push(ev);
            }
            3 | 4 => {
                let mut ev = Map::new();
                ev.insert("type".into(), json!("response.function_call_arguments.delta"));
                if r.chance(9, 10) {
                    ev.insert("item_id".into(), if r.chance(1, 10) { weird_value(r) } else { json!(key) });
                }
                if !oi.is_null() {
                    ev.insert("output_index".into(), oi);
                }
                if r.chance(9, 10) {
                    ev.insert("delta".into(), if r.chance(1, 10) { weird_value(r) } else { json!(split_random(r, &args).first().cloned().unwrap_or_default()) });
                }
                evs.push(Value::Object(ev));
            }
            5 => {
                let mut ev = Map::new();
                ev.insert("type".into(), json!("response.function_call_arguments.done"));
                if r.chance(9, 10) {
                    ev.insert("item_id".into(), json!(key));
                }
                if !oi.is_null() {
                    ev.insert("output_index".into(), oi);
                }
                if r.chance(4, 5) {
                    ev.insert("arguments".into(), json!(args));
                }
                evs.push(Value::Object(ev));
            }
            _ => evs.push(noise_event(r)),
        }
    }
    evs
}

fn response_id_event(r: &mut Rng, id: &str) -> Value {
    match r.below(3) {
        0 => json!({"type":"response.created","response":{"id":id,"status":"in_progress"}}),
        1 => json!({"type":"response.in_progress","response":{"id":id}}),
        _ => json!({"type":"response.completed","response":{"id":id,"status":"completed"}}),
    }
}

// ------------------------------------------------------------------ part A: collector
fn parsed(kind: ParsedEventKind, data: Option<Value>) -> ParsedEvent {
    ParsedEvent { kind, event: None, raw: String::new(), data, errors: vec![], response_errors: vec![] }
}

fn enc_calls(out: &mut Vec<u64>, calls: &[ripd::verif::VerifCall], resp: Option<&str>) {
    out.push(calls.len() as u64);
    for (oi, cid, item, name, args) in calls {
        out.push(*oi);
        enc_str(out, cid);
        enc_ostr(out, item.as_deref());
        enc_str(out, name);
        enc_str(out, args);
    }
    enc_ostr(out, resp);
}

fn is_fc_done(ev: &Value) -> bool {
    ev["type"] == "response.output_item.done" && ev["item"]["type"] == "function_call"
}

fn run_collect(events: &[Value]) -> Option<(Vec<ripd::verif::VerifCall>, Option<String>)> {
    let evs: Vec<ParsedEvent> = events.iter().map(|v| parsed(ParsedEventKind::Event, Some(v.clone()))).collect();
    std::panic::catch_unwind(move || ripd::verif::collect_calls(&evs)).ok()
}

fn collect_oracle(events: &[Value], calls: &[ripd::verif::VerifCall], expected: Option<&Vec<ExpCall>>) -> Vec<(String, String)> {
    let mut bad = vec![];
    if calls.windows(2).any(|p| p[0].0 > p[1].0) {
        bad.push(("drained calls are not in output_index order".to_string(), "drain_not_sorted".to_string()));
    }
    let dones = events.iter().filter(|e| is_fc_done(e)).count();
    if calls.len() > dones {
        bad.push((format!("{} calls drained from {} done events", calls.len(), dones), "call_from_nothing".to_string()));
    }
    let mut ids = BTreeSet::new();
    if calls.iter().any(|c| !ids.insert(c.1.clone())) {
        bad.push(("one response: the same call id is drained (and would be executed and answered) more than once".to_string(), "call_id_completed_twice".to_string()));
    }
    if let Some(exp) = expected {
        let gotc: Vec<ExpCall> = calls.iter().map(|c| ExpCall { oi: c.0, call_id: c.1.clone(), name: c.3.clone(), args: c.4.clone() }).collect();
        if &gotc != exp {
            bad.push((format!("clean script announced {:?} but the collector drained {:?}", exp, gotc), "collector_lost_or_reordered_call".to_string()));
        }
    }
    bad
}

struct CollectCase {
    events: Vec<Value>,
    expected: Option<Vec<ExpCall>>,
}

fn gen_collect(r: &mut Rng, i: usize) -> CollectCase {
    let clean = i % 3 != 0;
    let mut mk = |r: &mut Rng, j: usize| -> (String, String) {
        let name = if r.chance(1, 10) { "frobnicate".to_string() } else { r.pick(&TOOLS).to_string() };
        let args = match r.below(4) {
            0 => String::new(),
            1 => "not json".to_string(),
            _ => serde_json::to_string(&json!({"path": format!("m/t{j}"), "é": "ü\n"})).unwrap(),
        };
        (name, args)
    };
    if clean {
        let (events, exp) = clean_round(r, "r", &mut mk, 8);
        CollectCase { events, expected: Some(exp) }
    } else {
        let mut events = dirty_events(r, "r", &mut mk);
        if r.chance(1, 2) {
            let at = r.below(events.len() as u64 + 1) as usize;
            let rid = if r.chance(1, 6) { "" } else { "resp_1" };
            events.insert(at, response_id_event(r, rid));
        }
        if r.chance(1, 6) {
            events.push(json!({"type":"response.completed","response":{"id":7}}));
        }
        CollectCase { events, expected: None }
    }
}

/// A clean round: every call has a unique call id, events of one item stay in order; returns the events and
/// the calls in the order the loop must answer them (output_index, ties by completion order).
fn clean_round(r: &mut Rng, tag: &str, mk: &mut dyn FnMut(&mut Rng, usize) -> (String, String), max_items: u64) -> (Vec<Value>, Vec<ExpCall>) {
    clean_round_p(r, tag, mk, max_items, 0)
}

/// A call id the provider may well send and that is structurally fine (a non-empty string) but sits on or beyond
/// the limits the schema puts on `call_id` in function_call / function_call_output items (1..=64 characters):
/// the follow-up that answers such a call violates the schema exactly when `schema_ok` is false.
fn edge_call_id(r: &mut Rng, tag: &str, j: usize) -> (String, bool) {
    let base = format!("call_{tag}_{j}_");
    let pad = |n: usize, c: char| -> String { base.chars().chain(std::iter::repeat(c)).take(n).collect() };
    match r.below(7) {
        0 => (pad(65, 'x'), false),
        1 => (pad(70, 'x'), false),
        2 => (pad(300, 'y'), false),
        3 => (pad(65, 'é'), false), // 65 characters
        4 => (pad(64, 'x'), true),   // the boundary itself
        5 => (pad(64, 'é'), true),   // 64 characters in more than 64 bytes
        _ => (pad(63, 'z'), true),
    }
}

/// `poison_den` > 0: each call gets an `edge_call_id` with chance 1/poison_den
fn clean_round_p(r: &mut Rng, tag: &str, mk: &mut dyn FnMut(&mut Rng, usize) -> (String, String), max_items: u64, poison_den: u64) -> (Vec<Value>, Vec<ExpCall>) {
    let n = r.below(max_items + 1) as usize;
    // output indexes: a permutation, with gaps, sometimes equal (ties)
    let mut ois: Vec<u64> = (0..n as u64).map(|k| k * r.range(1, 2)).collect();
    for k in (1..n).rev() {
        let j = r.below(k as u64 + 1) as usize;
        ois.swap(k, j);
    }
    if n >= 2 && r.chance(1, 4) {
        ois[0] = ois[1];
    }
    let mut seqs = vec![];
    let mut calls = vec![];
    for j in 0..n {
        let (name, args) = mk(r, j);
        let id = format!("fc_{tag}_{j}");
        let cid = if poison_den > 0 && r.chance(1, poison_den) { edge_call_id(r, tag, j).0 } else { format!("call_{tag}_{j}") };
        let with_id = r.chance(3, 4);
        seqs.push(clean_item_events(r, ois[j], if with_id { Some(&id) } else { None }, &cid, &name, &args));
        calls.push(ExpCall { oi: ois[j], call_id: cid, name, args });
    }
    for _ in 0..r.below(3) {
        seqs.push(vec![noise_event(r)]);
    }
    if r.chance(5, 6) {
        seqs.push(vec![response_id_event(r, &format!("resp_{tag}"))]);
    }
    let events = interleave(r, seqs);
    // completion order = order of the done events
    let mut order: Vec<(usize, &ExpCall)> = vec![];
    for (pos, ev) in events.iter().enumerate() {
        if is_fc_done(ev) {
            let cid = ev["item"]["call_id"].as_str().unwrap_or("");
            if let Some(c) = calls.iter().find(|c| c.call_id == cid) {
                order.push((pos, c));
            }
        }
    }
    let mut exp: Vec<ExpCall> = order.into_iter().map(|(_, c)| c.clone()).collect();
    exp.sort_by_key(|c| c.oi); // stable
    (events, exp)
}

// ------------------------------------------------------------------ part B: tool_choice enforcement
/// a tool_choice value + (when the shape is a well-formed one) the independently known allowed set:
/// None = every function, Some(set) = only these
#[derive(Clone)]
struct ChoiceCase {
    value: Value,
    spec: Option<Option<BTreeSet<String>>>,
}

fn gen_choice(r: &mut Rng, names: &[&str]) -> ChoiceCase {
    let pickn = |r: &mut Rng| -> Vec<String> { (0..r.below(4)).map(|_| r.pick(names).to_string()).collect() };
    match r.below(14) {
        0 => ChoiceCase { value: json!("auto"), spec: Some(None) },
        1 => ChoiceCase { value: json!("required"), spec: Some(None) },
        2 => ChoiceCase { value: json!("none"), spec: Some(Some(BTreeSet::new())) },
        3 | 4 => {
            let n = r.pick(names).to_string();
            ChoiceCase { value: ToolChoiceParam::specific_function(n.clone()).into_value(), spec: Some(Some([n].into_iter().collect())) }
        }
        5 | 6 => {
            let ns = pickn(r);
            let mode = *r.pick(&[None, Some("auto"), Some("required")]);
            let mut v = json!({"type":"allowed_tools","tools": ns.iter().map(|n| json!({"type":"function","name":n})).collect::<Vec<_>>()});
            if let Some(m) = mode {
                v["mode"] = json!(m);
            }
            ChoiceCase { value: v, spec: Some(Some(ns.into_iter().collect())) }
        }
        7 => {
            let ns = pickn(r);
            ChoiceCase { value: json!({"type":"allowed_tools","mode":"none","tools": ns.iter().map(|n| json!({"type":"function","name":n})).collect::<Vec<_>>()}), spec: Some(Some(BTreeSet::new())) }
        }
        // malformed / unusual shapes: no independent spec, the model is the reference
        8 => ChoiceCase { value: json!({"type":"function"}), spec: None },
        9 => ChoiceCase { value: json!({"type":"function","name": weird_value(r)}), spec: None },
        10 => {
            let tools: Vec<Value> = (0..r.below(5))
                .map(|_| match r.below(6) {
                    0 => json!("read"),
                    1 => json!({"type":"custom","name":"read"}),
                    2 => json!({"type":"function"}),
                    3 => json!({"type":"function","name":""}),
                    4 => json!({"name": r.pick(names)}),
                    _ => json!({"type":"function","name": r.pick(names)}),
                })
                .collect();
            let mut v = json!({"type":"allowed_tools","tools":tools});
            if r.chance(1, 2) {
                v["mode"] = r.pick(&[json!("none"), json!("None"), json!(1), json!("auto")]).clone();
            }
            ChoiceCase { value: v, spec: None }
        }
        11 => ChoiceCase { value: json!({"type":"allowed_tools","tools": weird_value(r)}), spec: None },
        12 => ChoiceCase { value: r.pick(&[json!({"type":"mcp","server_label":"x"}), json!({}), json!({"type":7}), json!({"name":"read"}), json!({"type":"web_search"})]).clone(), spec: None },
        _ => ChoiceCase { value: r.pick(&[json!(""), json!("None"), json!("NONE"), json!(null), json!(3), json!([1]), json!(false), json!("function")]).clone(), spec: None },
    }
}

// ------------------------------------------------------------------ part C: the loop end to end
#[derive(Clone, Debug, Serialize, Deserialize)]
struct RoundSpec {
    /// 0 = SSE answer, 1 = HTTP 500, 2 = connection dropped before the end of the body
    mode: u8,
    events: Vec<Value>,
    /// send the `[DONE]` marker (false: the stream just ends)
    done: bool,
    /// the calls a clean round announces, in the order they must be answered (None: dirty round)
    expected: Option<Vec<ExpCall>>,
    /// seed of the SSE rendering (event names, comments, invalid-JSON lines) and the HTTP chunking
    render: u64,
    /// how the body ENDS (mode 0 only).  0: every event terminated by its blank line, `[DONE]` iff `done`.
    /// Tails that only `pipe.finish()` can deliver (no `[DONE]` before them):
    ///   1: the last event is CRLF-framed and the body is cut between the CR and the LF of its final blank line
    ///      (`...}\r\n\r`) — SseDecoder::finish completes the line and the event IS dispatched;
    ///   4: the last event ends `...}\n\r` (LF line end, then a lone CR) — dispatched as well;
    ///   5: all events terminated, then `data: [DONE]\r\n\r` — the marker itself comes out of finish().
    /// Tails whose last event is NOT dispatched (`lost`: a well-formed call the provider never got to emit):
    ///   2: `data: <lost>\n` (LF body missing its final blank line); 3: `data: <lost>` (no line end at all);
    ///   6: `data: [DONE]\n\n` and then `data: <lost>\r\n\r` (after the marker: the stream has ended).
    ///   8: `data: [DONE]\n\n` and then `data: <lost>\n\n` (a properly terminated event AFTER the marker: dropped by
    ///      truncate_after_done when it arrives in the same network chunk, never read when it arrives later).
    ///   7: a body without a single byte ("provider stream ended before first byte": provider_error).
    #[serde(default)]
    tail: u8,
    /// the event rendered as the undispatched tail (tails 2, 3, 6); never part of `events`
    #[serde(default)]
    lost: Option<Value>,
}

#[derive(Clone, Debug, Serialize, Deserialize)]
struct LoopCase {
    stateless: bool,
    tool_choice: Value,
    /// independently known allowed set for well-formed shapes (None = unknown, Some(None) = all)
    choice_spec: Option<Option<BTreeSet<String>>>,
    followup: Option<String>,
    prompt: String,
    rounds: Vec<RoundSpec>,
    /// run through a thread (POST /threads/{id}/messages): the first request carries the compiled context
    /// as input items (`initial_items`) instead of the prompt text
    #[serde(default)]
    thread: bool,
    /// workspace files `big/p<j>.txt` written before the run (texts of a given size and character width: the payloads
    /// that `read` / `bash cat` calls quote into the follow-up)
    #[serde(default)]
    payloads: Vec<sized::PaySpec>,
}

fn marker_args(r: &mut Rng, name: &str, tok: &str) -> String {
    match name {
        "write" => serde_json::to_string(&json!({"append": true, "content": "x\n", "path": format!("m/{tok}")})).unwrap(),
        // without `cwd` the bash tool runs in the process's directory, not in the workspace
        "bash" | "shell" => serde_json::to_string(&json!({"command": format!("echo x >> m/{tok}; echo {tok}"), "cwd": "."})).unwrap(),
        "read" => serde_json::to_string(&json!({"path": "seed.txt"})).unwrap(),
        "ls" => serde_json::to_string(&json!({"path": "."})).unwrap(),
        "grep" => serde_json::to_string(&json!({"path": "seed.txt", "pattern": "seed"})).unwrap(),
        _ => {
            if r.chance(1, 2) {
                format!("garbage {tok}")
            } else {
                serde_json::to_string(&json!({"tok": tok})).unwrap()
            }
        }
    }
}

/// the bytes of the answer (before HTTP chunking) and the generator state for the chunking
fn render_body(spec: &RoundSpec) -> (Vec<u8>, Rng) {
    let mut r = Rng::new(spec.render);
    let mut s = String::new();
    if spec.tail == 7 {
        return (vec![], r);
    }
    let all_crlf = spec.tail == 1 && r.chance(1, 2);
    let n = spec.events.len();
    for (i, ev) in spec.events.iter().enumerate() {
        if r.chance(1, 6) {
            s.push_str(": keep-alive\n\n");
        }
        if r.chance(1, 10) {
            s.push_str("data: {not json\n\n");
        }
        if r.chance(1, 2) {
            if let Some(t) = ev.get("type").and_then(|t| t.as_str()) {
                s.push_str(&format!("event: {t}{}", if all_crlf { "\r\n" } else { "\n" }));
            }
        }
        let nl = if all_crlf || r.chance(1, 5) { "\r\n" } else { "\n" };
        let js = serde_json::to_string(ev).unwrap();
        if i + 1 == n && spec.tail == 1 {
            // cut one byte short: the LF of the blank line never arrives
            s.push_str(&format!("data: {js}\r\n\r"));
        } else if i + 1 == n && spec.tail == 4 {
            s.push_str(&format!("data: {js}\n\r"));
        } else {
            s.push_str(&format!("data: {js}{nl}{nl}"));
        }
    }
    let lost = || serde_json::to_string(spec.lost.as_ref().unwrap_or(&Value::Null)).unwrap();
    match spec.tail {
        1 | 4 => {}
        2 => s.push_str(&format!("data: {}\n", lost())),
        3 => s.push_str(&format!("data: {}", lost())),
        5 => s.push_str("data: [DONE]\r\n\r"),
        6 => s.push_str(&format!("data: [DONE]\n\ndata: {}\r\n\r", lost())),
        8 => s.push_str(&format!("data: [DONE]\n\ndata: {}\n\n", lost())),
        _ => {
            if spec.done {
                s.push_str("data: [DONE]\n\n");
            }
        }
    }
    if s.is_empty() {
        s.push_str(": empty\n\n");
    }
    (s.into_bytes(), r)
}

fn render_sse(spec: &RoundSpec) -> Vec<Vec<u8>> {
    let (b, mut r) = render_body(spec);
    let k = r.range(1, 5) as usize;
    let mut cuts: Vec<usize> = (0..k - 1).map(|_| r.below(b.len() as u64 + 1) as usize).collect();
    cuts.sort();
    let mut out = vec![];
    let mut p = 0;
    for c in cuts.into_iter().chain(std::iter::once(b.len())) {
        if c > p {
            out.push(b[p..c].to_vec());
        }
        p = c;
    }
    out
}

fn scripted(spec: &RoundSpec) -> Scripted {
    match spec.mode {
        1 => Scripted::http_error(500, "{\"error\":\"scripted failure\"}"),
        2 => {
            let mut s = Scripted::sse(render_sse(&RoundSpec { done: false, tail: 0, lost: None, ..spec.clone() }));
            s.drop_after_chunks = Some((spec.render % 2) as usize);
            s
        }
        _ => Scripted::sse(render_sse(spec)),
    }
}

/// a well-formed call the provider never gets to emit: it sits in a tail that is not dispatched
fn lost_call(tag: &str) -> Value {
    let args = serde_json::to_string(&json!({"append": true, "content": "x\n", "path": format!("m/tlost{}", tag.replace('_', "x"))})).unwrap();
    json!({"type":"response.output_item.done","output_index":0,"item":{"type":"function_call","id":format!("fc_lost_{tag}"),"call_id":format!("call_lost_{tag}"),"name":"write","arguments":args,"status":"completed"}})
}

/// For the tails that deliver the last event through finish() (1, 4) the last done event of a function call is moved
/// to the very end (an item's done event is the last of its events anyway) and the order the calls must be answered in
/// is recomputed: output_index, ties by completion order.
fn move_last_done_to_end(events: &mut Vec<Value>, expected: &mut Option<Vec<ExpCall>>) {
    let Some(exp) = expected.as_mut() else { return };
    let Some(pos) = events.iter().rposition(is_fc_done) else { return };
    let e = events.remove(pos);
    events.push(e);
    let pos_of = |cid: &str| events.iter().position(|ev| is_fc_done(ev) && ev["item"]["call_id"].as_str() == Some(cid)).unwrap_or(usize::MAX);
    exp.sort_by_key(|c| pos_of(&c.call_id));
    exp.sort_by_key(|c| c.oi); // stable
}

/// how the body of a mode-0 round ends (see RoundSpec::tail): about two rounds in five get a tail that only
/// pipe.finish() can deliver, or one that is not dispatched at all
fn gen_tail(r: &mut Rng, events: &mut Vec<Value>, expected: &mut Option<Vec<ExpCall>>, tag: &str) -> (u8, Option<Value>) {
    if !r.chance(2, 5) {
        return (0, None);
    }
    let tail = *r.pick(&[1u8, 1, 1, 4, 5, 2, 3, 6, 8]);
    match tail {
        1 | 4 => {
            if events.is_empty() {
                return (0, None);
            }
            // usually the last call's done event sits in the tail; now and then the event that announces the response
            // id does (stateful follow-ups are chained to it: the collector must see it as well)
            let rid = events.iter().rposition(|ev| ev.get("response").and_then(|x| x.get("id")).is_some());
            match rid {
                Some(pos) if r.chance(1, 4) => {
                    let e = events.remove(pos);
                    events.push(e);
                }
                _ => move_last_done_to_end(events, expected),
            }
            (tail, None)
        }
        5 => (5, None),
        _ => (tail, Some(lost_call(tag))),
    }
}

const EXEC_NAMES: [&str; 7] = ["write", "bash", "read", "ls", "grep", "write", "frobnicate"];

fn gen_loop(r: &mut Rng, i: usize) -> LoopCase {
    let stateless = r.chance(1, 2);
    let names: Vec<&str> = EXEC_NAMES.to_vec();
    let ch = match i % 5 {
        // runs into the bound with every / most calls refused: the bound counts refused calls as well
        _ if i % 17 == 5 && i % 2 == 1 => {
            if r.chance(1, 2) {
                ChoiceCase { value: json!("none"), spec: Some(Some(BTreeSet::new())) }
            } else {
                ChoiceCase { value: ToolChoiceParam::specific_function("ls".to_string()).into_value(), spec: Some(Some(["ls".to_string()].into_iter().collect())) }
            }
        }
        0 => ChoiceCase { value: json!("auto"), spec: Some(None) },
        _ => {
            // mostly well-formed shapes: a schema-invalid tool_choice ends the run before the first request
            let mut ch = gen_choice(r, &names);
            for _ in 0..2 {
                if ch.spec.is_none() {
                    ch = gen_choice(r, &names);
                }
            }
            ch
        }
    };
    let followup = if r.chance(1, 3) { Some(r.pick(&["continue", "go on ✓", ""]).to_string()) } else { None };
    let dirty_case = i % 4 == 3;
    let big = i % 17 == 5; // drive the run into the tool-call bound
    // provider data that is structurally fine but breaks a schema constraint of the follow-up (both history modes)
    let poison = i % 4 == 2 && !big;
    let nrounds = if big { r.range(3, 7) } else if poison { r.range(1, 4) } else { r.range(0, 4) } as usize;
    let mut rounds = vec![];
    let mut tokn = 0usize;
    for k in 0..nrounds {
        // now and then a response reuses the ids of an earlier one (call ids, item ids, response id): the same
        // call id in two responses is two calls, each answered in its own next request
        let tag = if k > 0 && r.chance(1, 6) { format!("{}", r.below(k as u64)) } else { format!("{k}") };
        let mut mk = |r: &mut Rng, _j: usize| -> (String, String) {
            tokn += 1;
            // provider-chosen function names on and beyond the schema's limits for a function_call item (1..=64
            // characters of [a-zA-Z0-9_-]): they make the STATELESS follow-up (which echoes the call) schema-invalid
            // (runs meant to reach the 32-call bound keep to ordinary names: a refused follow-up would end them early)
            let name = if !big && r.chance(1, if poison { 5 } else { 15 }) {
                match r.below(if poison { 7 } else { 1 }) {
                    0 => String::new(),
                    1 => "functions.read".to_string(),
                    2 => "my tool".to_string(),
                    3 => "lés".to_string(),
                    4 => "n".repeat(65),
                    5 => "N".repeat(64), // valid
                    _ => "read_file-2".to_string(), // valid, not a tool
                }
            } else {
                r.pick(&EXEC_NAMES).to_string()
            };
            let args = marker_args(r, &name, &format!("t{tokn}"));
            (name, args)
        };
        let mode = if !big && r.chance(1, 14) { r.range(1, 2) as u8 } else { 0 };
        let (events, expected) = if dirty_case && r.chance(2, 3) {
            let mut ev = dirty_events(r, &tag, &mut mk);
            if stateless || r.chance(5, 6) {
                let at = r.below(ev.len() as u64 + 1) as usize;
                ev.insert(at, response_id_event(r, &format!("resp_{tag}")));
            }
            (ev, None)
        } else {
            let (ev, exp) = clean_round_p(r, &tag, &mut mk, if big { 14 } else { 4 }, if poison { 4 } else { 0 });
            (ev, Some(exp))
        };
        let (mut events, mut expected) = (events, expected);
        let (tail, lost) = if mode == 0 { gen_tail(r, &mut events, &mut expected, &format!("{i}_{k}")) } else { (0, None) };
        rounds.push(RoundSpec { mode, events, done: r.chance(3, 4), expected, render: r.next(), tail, lost });
    }
    // usually end with a call-free answer so that the run completes
    if r.chance(4, 5) {
        let mut events = vec![response_id_event(r, "resp_end"), json!({"type":"response.output_text.delta","delta":"done"})];
        let mut expected = Some(vec![]);
        let (tail, lost) = gen_tail(r, &mut events, &mut expected, &format!("{i}_end"));
        rounds.push(RoundSpec { mode: 0, events, done: r.chance(3, 4), expected, render: r.next(), tail, lost });
    }
    LoopCase { payloads: vec![], stateless, tool_choice: ch.value, choice_spec: ch.spec, followup, prompt: format!("prompt {i}"), rounds, thread: i % 3 == 1 }
}

/// One run of the "every size" schedule (../c16_sized.rs): a carrier call quotes a payload of the planned size and
/// character width into the follow-up (tool output, or call arguments in the stateless history); the planned kind of
/// invalidity sits in the same response or (late) in the next one.  Rounds are clean: every oracle of a generated run
/// applies as it is.
fn gen_sized(r: &mut Rng, p: &sized::SizedPlan, i: usize) -> LoopCase {
    let tag = format!("z{i}");
    if sized::kind_is_tool_choice(p.kind) {
        // the INITIAL request is invalid: a malformed tool_choice (type function without a name) that carries the payload
        // itself — whatever quotes the offending instance quotes the payload
        return LoopCase {
            payloads: vec![p.pay.clone()],
            stateless: p.stateless,
            tool_choice: json!({"type": "function", "note": sized::payload_text(&p.pay)}),
            choice_spec: None,
            followup: None,
            prompt: format!("sized {i} {} {}", sized::KINDS[p.kind], p.block),
            rounds: vec![RoundSpec { mode: 0, events: vec![response_id_event(r, &format!("resp_{tag}_end")), json!({"type":"response.output_text.delta","delta":"done"})], done: true, expected: Some(vec![]), render: r.next(), tail: 0, lost: None }],
            thread: p.thread,
        };
    }
    let (cname, cargs) = match p.carrier {
        0 => ("read", json!({"path": "big/p0.txt"})),
        1 => ("bash", json!({"command": "cat big/p0.txt", "cwd": "."})),
        _ => ("write", json!({"append": true, "content": format!("{}\n", sized::payload_text(&p.pay)), "path": format!("m/tZ{i}")})),
    };
    let cargs = serde_json::to_string(&cargs).unwrap();
    let bad_id = sized::poison_call_id(p.kind, &format!("call_{tag}_"));
    let bad_name = sized::poison_name(p.kind);
    // (name, args, call id) of the calls of a round -> events + expected answer order (output_index = position)
    let mk_round = |r: &mut Rng, k: usize, calls: Vec<(String, String, String)>| -> RoundSpec {
        let mut seqs = vec![vec![response_id_event(r, &format!("resp_{tag}_{k}"))]];
        let mut exp = vec![];
        for (j, (name, args, cid)) in calls.iter().enumerate() {
            let id = format!("fc_{tag}_{k}_{j}");
            let with_id = r.chance(3, 4);
            seqs.push(clean_item_events(r, j as u64, if with_id { Some(&id) } else { None }, cid, name, args));
            exp.push(ExpCall { oi: j as u64, call_id: cid.clone(), name: name.clone(), args: args.clone() });
        }
        let events = interleave(r, seqs);
        // answer order: output_index (distinct here)
        RoundSpec { mode: 0, events, done: r.chance(3, 4), expected: Some(exp), render: r.next(), tail: 0, lost: None }
    };
    let small = |r: &mut Rng, n: usize| -> (String, String) {
        let name = *r.pick(&["ls", "read", "grep"]);
        (name.to_string(), marker_args(r, name, &format!("t{i}x{n}")))
    };
    let mut rounds = vec![];
    // the response that carries the payload
    let mut first: Vec<(String, String, String)> = vec![];
    let carrier_id = match (&bad_id, p.late) {
        (Some(b), false) => b.clone(),
        _ => format!("call_{tag}_c"),
    };
    first.push((cname.to_string(), cargs, carrier_id));
    if !p.late {
        if let Some(n) = &bad_name {
            first.push((n.clone(), serde_json::to_string(&json!({"tok": format!("z{i}")})).unwrap(), format!("call_{tag}_n")));
        }
    }
    if r.chance(1, 3) {
        let (n, a) = small(r, 0);
        let at = r.below(first.len() as u64 + 1) as usize;
        first.insert(at, (n, a, format!("call_{tag}_s")));
    }
    rounds.push(mk_round(r, 0, first));
    if p.late && p.kind != 0 {
        // some turns later: an ordinary response or two, then the response with the invalid item
        for k in 0..r.below(2) as usize {
            let (n, a) = small(r, 1 + k);
            rounds.push(mk_round(r, 1 + k, vec![(n, a, format!("call_{tag}_m{k}"))]));
        }
        let k = rounds.len();
        let (n, a) = small(r, 9);
        let call = match (&bad_id, &bad_name) {
            (Some(b), _) => (n, a, b.clone()),
            (_, Some(bn)) => (bn.clone(), serde_json::to_string(&json!({"tok": format!("z{i}")})).unwrap(), format!("call_{tag}_n")),
            _ => (n, a, format!("call_{tag}_l")),
        };
        rounds.push(mk_round(r, k, vec![call]));
    }
    rounds.push(RoundSpec { mode: 0, events: vec![response_id_event(r, &format!("resp_{tag}_end")), json!({"type":"response.output_text.delta","delta":"done"})], done: r.chance(3, 4), expected: Some(vec![]), render: r.next(), tail: 0, lost: None });
    LoopCase {
        payloads: vec![p.pay.clone()],
        stateless: p.stateless,
        tool_choice: json!(if r.chance(1, 5) { "required" } else { "auto" }),
        choice_spec: Some(None),
        followup: if p.followup { Some("go on ✓".to_string()) } else { None },
        prompt: format!("sized {i} {} {}", sized::KINDS[p.kind], p.block),
        rounds,
        thread: p.thread,
    }
}

#[derive(Default, Debug)]
struct LoopObs {
    bodies: Vec<Value>,
    frames: Vec<Value>,
    /// marker file name -> number of lines
    markers: BTreeMap<String, usize>,
    errors: Vec<String>,
}

async fn http_call(app: &axum::Router, method: &str, uri: &str, body: Option<Value>) -> Result<(u16, Vec<u8>), String> {
    use http_body_util::BodyExt;
    use tower::ServiceExt;
    let mut b = axum::http::Request::builder().method(method).uri(uri);
    let body = match body {
        Some(v) => {
            b = b.header("content-type", "application/json");
            axum::body::Body::from(serde_json::to_vec(&v).unwrap())
        }
        None => axum::body::Body::empty(),
    };
    let resp = app.clone().oneshot(b.body(body).unwrap()).await.map_err(|e| format!("{method} {uri}: {e}"))?;
    let status = resp.status().as_u16();
    let bytes = tokio::time::timeout(Duration::from_secs(120), resp.into_body().collect()).await.map_err(|_| format!("{method} {uri}: body timeout"))?.map_err(|e| format!("{method} {uri}: {e}"))?.to_bytes().to_vec();
    Ok((status, bytes))
}

async fn sse_frames(app: &axum::Router, uri: &str, timeout_s: u64) -> Result<Vec<Value>, String> {
    use futures_util::StreamExt;
    use tower::ServiceExt;
    let req = axum::http::Request::builder().method("GET").uri(uri).body(axum::body::Body::empty()).unwrap();
    let resp = app.clone().oneshot(req).await.map_err(|e| format!("GET {uri}: {e}"))?;
    if resp.status().as_u16() != 200 {
        return Err(format!("GET {uri}: status {}", resp.status()));
    }
    let mut frames = vec![];
    let mut stream = resp.into_body().into_data_stream();
    let mut buf: Vec<u8> = vec![];
    let deadline = tokio::time::Instant::now() + Duration::from_secs(timeout_s);
    let mut done = false;
    while !done {
        let chunk = match tokio::time::timeout_at(deadline, stream.next()).await {
            Ok(Some(Ok(c))) => c,
            Ok(_) => break,
            Err(_) => return Err(format!("GET {uri}: no session_ended within {timeout_s}s ({} frames)", frames.len())),
        };
        buf.extend_from_slice(&chunk);
        while let Some(p) = buf.windows(2).position(|w| w == b"\n\n") {
            let msg: Vec<u8> = buf.drain(..p + 2).collect();
            for line in String::from_utf8_lossy(&msg).lines() {
                if let Some(d) = line.strip_prefix("data: ").or_else(|| line.strip_prefix("data:")) {
                    if let Ok(v) = serde_json::from_str::<Value>(d) {
                        if v["type"] == "session_ended" {
                            done = true;
                        }
                        frames.push(v);
                    }
                }
            }
        }
    }
    Ok(frames)
}

async fn drive_loop(c: &LoopCase, root: &Path) -> LoopObs {
    let mut obs = LoopObs::default();
    let ws = root.join("ws");
    let data = root.join("data");
    std::fs::create_dir_all(ws.join("m")).unwrap();
    std::fs::create_dir_all(&data).unwrap();
    std::fs::write(ws.join("seed.txt"), "seed line\n").unwrap();
    if !c.payloads.is_empty() {
        std::fs::create_dir_all(ws.join("big")).unwrap();
        for (j, p) in c.payloads.iter().enumerate() {
            std::fs::write(ws.join("big").join(format!("p{j}.txt")), sized::payload_text(p)).unwrap();
        }
    }
    let provider = ScriptedProvider::start(c.rounds.iter().map(scripted).collect());
    let cfg = ripd::verif::OpenResponsesConfig {
        endpoint: provider.url.clone(),
        api_key: None,
        model: Some("scripted".into()),
        headers: vec![],
        tool_choice: ToolChoiceParam::new(c.tool_choice.clone()),
        followup_user_message: c.followup.clone(),
        stateless_history: c.stateless,
        parallel_tool_calls: false,
    };
    let app = ripd::verif::build_app(data.clone(), ws.clone(), Some(cfg));
    let field = |r: Result<(u16, Vec<u8>), String>, k: &str| -> Result<String, String> {
        let (st, b) = r?;
        serde_json::from_slice::<Value>(&b).ok().and_then(|v| v[k].as_str().map(String::from)).ok_or_else(|| format!("no {k} in answer (status {st}): {}", String::from_utf8_lossy(&b)))
    };
    let sid = if c.thread {
        let tid = match field(http_call(&app, "POST", "/threads/ensure", None).await, "thread_id") {
            Ok(t) => t,
            Err(e) => {
                obs.errors.push(e);
                return obs;
            }
        };
        match field(http_call(&app, "POST", &format!("/threads/{tid}/messages"), Some(json!({"content": c.prompt}))).await, "session_id") {
            Ok(s) => s,
            Err(e) => {
                obs.errors.push(e);
                return obs;
            }
        }
    } else {
        let sid = match field(http_call(&app, "POST", "/sessions", None).await, "session_id") {
            Ok(s) => s,
            Err(e) => {
                obs.errors.push(e);
                return obs;
            }
        };
        if let Err(e) = http_call(&app, "POST", &format!("/sessions/{sid}/input"), Some(json!({"input": c.prompt}))).await {
            obs.errors.push(e);
        }
        sid
    };
    match sse_frames(&app, &format!("/sessions/{sid}/events"), 300).await {
        Ok(f) => obs.frames = f,
        Err(e) => obs.errors.push(e),
    }
    obs.bodies = provider.recorded().iter().map(|r| r.json()).collect();
    if let Ok(rd) = std::fs::read_dir(ws.join("m")) {
        for e in rd.flatten() {
            let n = std::fs::read(e.path()).map(|b| b.iter().filter(|x| **x == b'\n').count()).unwrap_or(0);
            obs.markers.insert(e.file_name().to_string_lossy().to_string(), n);
        }
    }
    drop(provider);
    obs
}

fn kind_code(k: &str) -> u64 {
    match k {
        "prompt" => 0,
        "initial_items" => 1,
        "stateless_history" => 2,
        "followup" => 3,
        "followup_stateless_history" => 4,
        _ => 99,
    }
}
fn reason_code(k: &str) -> u64 {
    match k {
        "completed" => 0,
        "provider_error" => 1,
        "max_tool_calls_exceeded" => 2,
        "invalid_request" => 3,
        _ => 99,
    }
}

/// request body -> (prev, input) encoding of Model.ToolLoop.enc_request without the kind
fn enc_body(out: &mut Vec<u64>, body: &Value) -> Result<(), String> {
    enc_ostr(out, body.get("previous_response_id").and_then(|v| v.as_str()));
    match body.get("input") {
        Some(Value::String(s)) => {
            out.push(0);
            enc_str(out, s);
        }
        Some(Value::Array(items)) => {
            out.push(1);
            out.push(items.len() as u64);
            for it in items {
                let s = |k: &str| -> Result<&str, String> { it.get(k).and_then(|v| v.as_str()).ok_or_else(|| format!("input item without string {k}: {it}")) };
                match it.get("type").and_then(|v| v.as_str()) {
                    Some("message") => {
                        out.push(0);
                        enc_str(out, s("role")?);
                        enc_str(out, s("content")?);
                    }
                    Some("function_call") => {
                        out.push(1);
                        enc_ostr(out, it.get("id").and_then(|v| v.as_str()));
                        enc_str(out, s("call_id")?);
                        enc_str(out, s("name")?);
                        enc_str(out, s("arguments")?);
                    }
                    Some("function_call_output") => {
                        out.push(2);
                        enc_ostr(out, it.get("id").and_then(|v| v.as_str()));
                        enc_str(out, s("call_id")?);
                        enc_str(out, s("output")?);
                    }
                    _ => return Err(format!("unexpected input item {it}")),
                }
            }
        }
        other => return Err(format!("unexpected input {other:?}")),
    }
    Ok(())
}

fn args_text(v: &Value) -> String {
    match v {
        Value::String(s) => s.clone(),
        other => serde_json::to_string(other).unwrap(),
    }
}

/// what tool_events_to_function_call_output must produce, recomputed from the tool runner's own frames
fn output_from_frames(name: &str, frames: &[&Value]) -> String {
    let mut stdout = String::new();
    let mut stderr = String::new();
    let mut exit_code: i64 = 1;
    let mut artifacts: Option<Value> = None;
    let mut error: Option<String> = None;
    for f in frames {
        match f["type"].as_str().unwrap_or("") {
            "tool_stdout" => stdout.push_str(f["chunk"].as_str().unwrap_or("")),
            "tool_stderr" => stderr.push_str(f["chunk"].as_str().unwrap_or("")),
            "tool_ended" => {
                exit_code = f["exit_code"].as_i64().unwrap_or(1);
                artifacts = f.get("artifacts").filter(|a| !a.is_null()).cloned();
            }
            "tool_failed" => error = f["error"].as_str().map(String::from),
            _ => {}
        }
    }
    let mut o = Map::new();
    o.insert("tool".into(), json!(name));
    o.insert("ok".into(), json!(exit_code == 0 && error.is_none()));
    o.insert("exit_code".into(), json!(exit_code));
    o.insert("stdout".into(), json!(stdout));
    o.insert("stderr".into(), json!(stderr));
    if let Some(a) = artifacts {
        o.insert("artifacts".into(), a);
    }
    if let Some(e) = error {
        o.insert("error".into(), json!(e));
    }
    serde_json::to_string(&Value::Object(o)).unwrap()
}

struct LoopEnc {
    obs: Vec<u64>,
    outs: Vec<String>,
    valids: Vec<bool>,
    reason: String,
    /// per sent request: the processed calls (ran, call id if refused, name, args)
    done: Vec<Vec<(bool, String, String, String)>>,
    /// why the validator refused the last payload (when it did)
    refused_why: Vec<String>,
    /// the implementation's own validator on the same bodies (sent ones, then the refused one)
    real_valids: Vec<bool>,
    /// the refused payload, when there is one
    rejected: Option<Value>,
}

fn encode_loop(o: &LoopObs) -> Result<LoopEnc, String> {
    if !o.errors.is_empty() {
        return Err(o.errors.join("; "));
    }
    let reason = o.frames.iter().rev().find(|f| f["type"] == "session_ended").and_then(|f| f["reason"].as_str()).ok_or("no session_ended frame")?.to_string();
    // group frames by request
    let mut kinds: Vec<u64> = vec![];
    let mut groups: Vec<Vec<&Value>> = vec![];
    let mut rejected: Option<Value> = None;
    for f in &o.frames {
        match f["type"].as_str().unwrap_or("") {
            "openresponses_request_started" => {
                if f["request_index"].as_u64() != Some(kinds.len() as u64) {
                    return Err(format!("request_started out of order: {f}"));
                }
                kinds.push(kind_code(f["kind"].as_str().unwrap_or("")));
                groups.push(vec![]);
            }
            t if t.starts_with("tool_") => match groups.last_mut() {
                Some(g) => g.push(f),
                None => return Err(format!("tool frame before the first request: {f}")),
            },
            "provider_event" => {
                if f["data"].is_null() && f["raw"].is_string() && f["status"] == "event" && f["errors"].as_array().map(|a| !a.is_empty()).unwrap_or(false) {
                    rejected = serde_json::from_str::<Value>(f["raw"].as_str().unwrap()).ok();
                }
            }
            _ => {}
        }
    }
    if kinds.len() != o.bodies.len() {
        return Err(format!("{} request_started frames but the provider recorded {} requests", kinds.len(), o.bodies.len()));
    }
    if (reason == "invalid_request") != rejected.is_some() {
        return Err(format!("reason {reason} but refused payload frame present = {}", rejected.is_some()));
    }
    let mut obs = vec![reason_code(&reason), kinds.len() as u64];
    let mut outs = vec![];
    let mut done_all = vec![];
    for (k, body) in o.bodies.iter().enumerate() {
        obs.push(kinds[k]);
        enc_body(&mut obs, body)?;
        // processed calls of this iteration: tool_started frames in order
        let g = &groups[k];
        let started: Vec<&&Value> = g.iter().filter(|f| f["type"] == "tool_started").collect();
        obs.push(started.len() as u64);
        let mut done = vec![];
        for st in started {
            let tid = st["tool_id"].as_str().unwrap_or("");
            let name = st["name"].as_str().unwrap_or("");
            let args = args_text(&st["args"]);
            let mine: Vec<&Value> = g.iter().filter(|f| f["tool_id"].as_str() == Some(tid)).cloned().collect();
            if let Some(cid) = tid.strip_prefix("tool_denied_") {
                obs.push(0);
                enc_str(&mut obs, cid);
                done.push((false, cid.to_string(), name.to_string(), args.clone()));
            } else {
                obs.push(1);
                outs.push(output_from_frames(name, &mine));
                done.push((true, String::new(), name.to_string(), args.clone()));
            }
            enc_str(&mut obs, name);
            enc_str(&mut obs, &args);
        }
        done_all.push(done);
    }
    match &rejected {
        None => obs.push(0),
        Some(b) => {
            obs.push(1);
            enc_body(&mut obs, b)?;
        }
    }
    // payload validity handed to the model = the schema itself (independent interpreter), not the implementation's
    // validator: "every sent request passed `valid`" then means "satisfies the schema"
    let mut valids: Vec<bool> = o.bodies.iter().map(|b| schema_errors(b).is_empty()).collect();
    let mut real_valids: Vec<bool> = o.bodies.iter().map(|b| rip_openresponses::validate_create_response_body(b).is_ok()).collect();
    if let Some(b) = &rejected {
        valids.push(schema_errors(b).is_empty());
        real_valids.push(rip_openresponses::validate_create_response_body(b).is_ok());
    }
    let refused_why = rejected.as_ref().map(|b| schema_errors(b)).unwrap_or_default();
    Ok(LoopEnc { obs, outs, valids, reason, done: done_all, refused_why, real_valids, rejected })
}

fn coq_loop_case(c: &LoopCase, e: &LoopEnc) -> String {
    let rounds = coq_list(&c.rounds, |rd| format!("{{| r_fail := {}; r_events := {} |}}", coq_bool(rd.mode != 0 || rd.tail == 7), coq_list(&rd.events, coq_json)));
    format!(
        "CLoop {{| g_stateless := {}; g_choice := {}; g_followup := {}; g_fixed := true |}} {} {} {} {} {} {}",
        coq_bool(c.stateless),
        coq_json(&c.tool_choice),
        coq_opt(&c.followup, |s| coq_str(s)),
        coq_str(&c.prompt),
        // a fresh thread with one message compiles to that message
        if c.thread { format!("(Some [IMsg {} {}])", coq_str("user"), coq_str(&c.prompt)) } else { "None".to_string() },
        rounds,
        coq_list(&e.outs, |s| coq_str(s)),
        coq_list(&e.valids, |b| coq_bool(*b).to_string()),
        coq_list_n_chunked(&e.obs)
    )
}

/// the number tokens of a text outside JSON strings that serde_json does not keep as they are written (not a
/// plain u64 / i64 literal), with serde_json's own spelling: the `t_num` table of Model.SseJson (a_fmt_float)
fn num_table(texts: &[String]) -> Vec<(String, Option<String>)> {
    let mut out: BTreeMap<String, Option<String>> = BTreeMap::new();
    for t in texts {
        let cs: Vec<char> = t.chars().collect();
        let mut i = 0;
        while i < cs.len() {
            let c = cs[i];
            if c == '"' {
                i += 1;
                while i < cs.len() && cs[i] != '"' && cs[i] != '\n' {
                    if cs[i] == '\\' {
                        i += 1;
                    }
                    i += 1;
                }
                i += 1;
            } else if c == '-' || c.is_ascii_digit() {
                let st = i;
                while i < cs.len() && (cs[i].is_ascii_digit() || matches!(cs[i], '-' | '+' | '.' | 'e' | 'E')) {
                    i += 1;
                }
                let tok: String = cs[st..i].iter().collect();
                if !(tok.len() <= 15 && tok.chars().all(|c| c.is_ascii_digit())) {
                    let spelled = serde_json::from_str::<Value>(&tok).ok().map(|v| serde_json::to_string(&v).unwrap());
                    out.insert(tok, spelled);
                }
            } else {
                i += 1;
            }
        }
    }
    out.into_iter().collect()
}

fn coq_tables(compat: bool, texts: &[String]) -> String {
    format!(
        "{{| SseJson.t_compat := {}; SseJson.t_err := []; SseJson.t_num := {}; SseJson.t_vs := []; SseJson.t_vr := [] |}}",
        coq_bool(compat),
        coq_list(&num_table(texts), |(k, m)| format!("({}, {})", coq_str(k), coq_opt(m, |s| coq_str(s))))
    )
}

fn coq_chunks(chunks: &[Vec<u8>]) -> String {
    coq_list(chunks, |c| coq_list_n_chunked(&c.iter().map(|b| *b as u64).collect::<Vec<u64>>()))
}

/// the same run for Model.ToolLoopSse: the answers as the BYTES the scripted provider served (in its HTTP chunks);
/// the model decodes them with C15's stream model and feeds the loop from what the collector observes
fn coq_loop_case_b(c: &LoopCase, e: &LoopEnc) -> String {
    let texts: Vec<String> = c.rounds.iter().filter(|rd| rd.mode == 0).map(|rd| String::from_utf8_lossy(&render_body(rd).0).to_string()).collect();
    let bodies = coq_list(&c.rounds, |rd| {
        if rd.mode != 0 {
            "{| bb_fail := true; bb_chunks := [] |}".to_string()
        } else {
            format!("{{| bb_fail := false; bb_chunks := {} |}}", coq_chunks(&render_sse(rd)))
        }
    });
    format!(
        "CLoopB {} {{| g_stateless := {}; g_choice := {}; g_followup := {}; g_fixed := true |}} {} {} {} {} {} {}",
        coq_tables(c.stateless, &texts),
        coq_bool(c.stateless),
        coq_json(&c.tool_choice),
        coq_opt(&c.followup, |s| coq_str(s)),
        coq_str(&c.prompt),
        if c.thread { format!("(Some [IMsg {} {}])", coq_str("user"), coq_str(&c.prompt)) } else { "None".to_string() },
        bodies,
        coq_list(&e.outs, |s| coq_str(s)),
        coq_list(&e.valids, |b| coq_bool(*b).to_string()),
        coq_list_n_chunked(&e.obs)
    )
}
fn loop_body_bytes(c: &LoopCase) -> usize {
    c.rounds.iter().filter(|rd| rd.mode == 0).map(|rd| render_body(rd).0.len()).sum()
}

// ------------------------------------------------------------------ part D: the pipe in front of the collector
/// One answer through the real OpenResponsesSsePipe + ToolCallCollector (hook ripd::verif::run_sse_pipe: push_bytes
/// per chunk until [DONE], then finish()), every tail, any chunking.
struct PipeCase {
    spec: RoundSpec,
    compat: bool,
    chunks: Vec<Vec<u8>>,
}

fn gen_pipe(r: &mut Rng, i: usize) -> PipeCase {
    let mut mk = |r: &mut Rng, j: usize| -> (String, String) {
        let name = r.pick(&TOOLS).to_string();
        let args = match r.below(3) {
            0 => String::new(),
            _ => serde_json::to_string(&json!({"path": format!("m/t{j}"), "é": "ü\n", "n": 1.5})).unwrap(),
        };
        (name, args)
    };
    let (mut events, mut expected) = if i % 4 == 3 {
        let mut ev = dirty_events(r, "p", &mut mk);
        if r.chance(1, 2) {
            let at = r.below(ev.len() as u64 + 1) as usize;
            ev.insert(at, response_id_event(r, "resp_p"));
        }
        (ev, None)
    } else {
        let (ev, exp) = clean_round(r, "p", &mut mk, 4);
        (ev, Some(exp))
    };
    // three cases in four end in a special tail
    let (tail, lost) = loop {
        let t = gen_tail(r, &mut events, &mut expected, &format!("p{i}"));
        if t.0 != 0 || i % 4 == 0 {
            break t;
        }
    };
    let spec = RoundSpec { mode: 0, events, done: r.chance(1, 2), expected, render: r.next(), tail, lost };
    let (body, _) = render_body(&spec);
    // chunking: a few random cuts, or one byte at a time over the last bytes (where the tail is)
    let mut cuts: Vec<usize> = (0..r.below(4)).map(|_| r.below(body.len() as u64 + 1) as usize).collect();
    if r.chance(1, 3) {
        let from = body.len().saturating_sub(r.range(2, 12) as usize);
        cuts.extend(from..body.len());
    }
    cuts.sort();
    cuts.dedup();
    let mut chunks = vec![];
    let mut p = 0;
    for c in cuts.into_iter().chain(std::iter::once(body.len())) {
        if c > p || r.chance(1, 10) {
            chunks.push(body[p..c].to_vec());
        }
        p = c;
    }
    PipeCase { spec, compat: r.chance(1, 2), chunks }
}

/// (event frames with data in order, drained calls, response id)
fn run_pipe(rt: &tokio::runtime::Runtime, c: &PipeCase) -> Option<(Vec<Value>, Vec<ripd::verif::VerifCall>, Option<String>)> {
    let chunks = c.chunks.clone();
    let compat = c.compat;
    let got = std::panic::catch_unwind(std::panic::AssertUnwindSafe(|| rt.block_on(ripd::verif::run_sse_pipe(std::path::PathBuf::from("/dev/null"), chunks, 0, compat, None))));
    let (frames, _seq, calls, rid) = got.ok()?;
    let mut data = vec![];
    for f in &frames {
        if let rip_kernel::EventKind::ProviderEvent { status, data: Some(d), .. } = &f.kind {
            if *status == rip_kernel::ProviderEventStatus::Event {
                data.push(d.clone());
            }
        }
    }
    Some((data, calls, rid))
}

/// the property on one answer, judged by the frames: every function call in an output_item.done frame (non-empty
/// call id, the done item names the function — or any done frame of a clean script) is drained, i.e. will be executed
/// and answered; plus the collector checks with "the events" = the payloads of the frames
fn pipe_oracle(c: &PipeCase, frames: &[Value], calls: &[ripd::verif::VerifCall]) -> Vec<(String, String)> {
    let mut bad = collect_oracle(frames, calls, c.spec.expected.as_ref());
    let clean = c.spec.expected.is_some();
    for d in frames {
        if is_fc_done(d) {
            if let Some(cid) = d["item"]["call_id"].as_str().filter(|x| !x.is_empty()) {
                if (clean || d["item"]["name"].is_string()) && !calls.iter().any(|k| k.1 == cid) {
                    bad.push((format!("the frames show the provider's call {cid:?} (output_item.done) but the collector drains {:?}: it would never be executed or answered", calls.iter().map(|k| k.1.clone()).collect::<Vec<_>>()), "call_in_frames_not_drained".to_string()));
                }
            }
        }
    }
    if let Some(l) = &c.spec.lost {
        let cid = l["item"]["call_id"].as_str().unwrap_or("");
        if calls.iter().any(|k| k.1 == cid) || frames.iter().any(|d| d["item"]["call_id"].as_str() == Some(cid)) {
            bad.push((format!("the call {cid:?} sits in a tail that is never dispatched, yet it shows up (frames or drained calls)"), "undispatched_call_executed".to_string()));
        }
    }
    bad
}

/// The property itself on the recorded bodies, the frames and the marker files.  Returns (what, class).
fn loop_oracle(c: &LoopCase, o: &LoopObs, e: &LoopEnc) -> Vec<(String, String)> {
    let mut bad = vec![];
    let inputs: Vec<Vec<Value>> = o.bodies.iter().map(|b| b["input"].as_array().cloned().unwrap_or_default()).collect();
    let outputs_of = |items: &[Value]| -> Vec<Value> { items.iter().filter(|i| i["type"] == "function_call_output").cloned().collect() };
    // O4: a schema-invalid request is never sent
    for (k, b) in o.bodies.iter().enumerate() {
        // judged by the schema documents through the harness's own interpreter, on the whole body
        let errs = schema_errors(b);
        if !errs.is_empty() {
            let own = if e.real_valids.get(k).copied().unwrap_or(false) { "the implementation's validator accepted it" } else { "the implementation's validator reported errors too" };
            bad.push((format!("request {k} was sent although it violates the CreateResponseBody schema ({own}): {}", errs.iter().take(3).cloned().collect::<Vec<_>>().join(" | ")), "invalid_request_sent".to_string()));
        } else if let Err(errs) = rip_openresponses::validate_create_response_body(b) {
            bad.push((format!("request {k} was sent although the implementation's own validator reports errors: {}", errs.first().cloned().unwrap_or_default()), "invalid_request_sent".to_string()));
        }
        if b["tool_choice"] != c.tool_choice {
            bad.push((format!("request {k} carries tool_choice {} instead of the configured one", b["tool_choice"]), "tool_choice_not_forwarded".to_string()));
        }
    }
    // O3: bounded
    let processed: usize = e.done.iter().map(|d| d.len()).sum();
    if processed > 32 || o.bodies.len() > 33 {
        bad.push((format!("{processed} tool calls in one run, {} requests", o.bodies.len()), "bound_exceeded".to_string()));
    }
    // O5: stateless inputs extend each other
    if c.stateless {
        for k in 1..inputs.len() {
            let (a, b) = (&inputs[k - 1], &inputs[k]);
            if !(a.len() <= b.len() && a[..] == b[..a.len()]) {
                let class = if c.followup.is_some() && a.last().map(|m| m["type"] == "message").unwrap_or(false) && a.len() >= 1 && a[..a.len() - 1] == b[..(a.len() - 1).min(b.len())] {
                    "stateless_followup_message_not_in_history"
                } else {
                    "stateless_input_not_prefix"
                };
                bad.push((format!("stateless: input of request {k} does not extend the input of request {}", k - 1), class.to_string()));
            }
        }
    }
    // O1: answered exactly once, by call id, in output order, in the very next request — and nowhere else
    for k in 0..o.bodies.len() {
        let new_out: Vec<Value> = if k + 1 < o.bodies.len() {
            let nxt = outputs_of(&inputs[k + 1]);
            if c.stateless {
                let prev = outputs_of(&inputs[k]);
                if nxt.len() < prev.len() || nxt[..prev.len()] != prev[..] {
                    bad.push((format!("stateless: outputs of request {} are not kept in request {}", k, k + 1), "outputs_rewritten".to_string()));
                    continue;
                }
                nxt[prev.len()..].to_vec()
            } else {
                nxt
            }
        } else {
            vec![]
        };
        let ids: Vec<String> = new_out.iter().map(|i| i["call_id"].as_str().unwrap_or("").to_string()).collect();
        let round = c.rounds.get(k);
        if k + 1 < o.bodies.len() {
            // a next request exists: round k was answered
            if let Some(exp) = round.and_then(|r| r.expected.as_ref()) {
                let want: Vec<String> = exp.iter().map(|c| c.call_id.clone()).collect();
                if ids != want {
                    bad.push((format!("round {k} announced calls {want:?} but request {} answers {ids:?}", k + 1), "not_answered_exactly_once_in_order".to_string()));
                }
            }
            // O8: each output belongs to the call it is filed under (clean rounds): it names the call's tool; a refused
            // call's output carries the refusal for THIS call id; a bash marker call's stdout carries its own token
            if let Some(exp) = round.and_then(|r| r.expected.as_ref()) {
                if exp.len() == new_out.len() && exp.iter().zip(&ids).all(|(c, i)| &c.call_id == i) {
                    for (call, item) in exp.iter().zip(&new_out) {
                        let parsed: Value = item["output"].as_str().and_then(|t| serde_json::from_str(t).ok()).unwrap_or(Value::Null);
                        let mut wrong: Option<String> = None;
                        if parsed["tool"].as_str() != Some(call.name.as_str()) {
                            wrong = Some(format!("names tool {} instead of {:?}", parsed["tool"], call.name));
                        } else if let Some(spec) = &c.choice_spec {
                            let allowed = spec.as_ref().map(|s| s.contains(&call.name)).unwrap_or(true);
                            if !allowed {
                                if parsed["ok"] != json!(false) || !parsed["error"].as_str().map(|m| m.contains(&format!("call_id={}", call.call_id))).unwrap_or(false) {
                                    wrong = Some("is not the refusal of this call".to_string());
                                }
                            } else if call.name == "bash" {
                                if let Some(tok) = marker_of(&call.args) {
                                    if !parsed["stdout"].as_str().map(|t| t.contains(&tok)).unwrap_or(false) {
                                        wrong = Some(format!("does not carry the call's own token {tok}"));
                                    }
                                }
                            }
                        }
                        if let Some(w) = wrong {
                            bad.push((format!("request {}: the output filed under call id {:?} {w}: {}", k + 1, call.call_id, item["output"].as_str().unwrap_or("").chars().take(200).collect::<String>()), "output_of_another_call".to_string()));
                        }
                    }
                }
            }
            // generic: never two outputs for one call id; only call ids the provider used in this round
            let mut seen = BTreeSet::new();
            for id in &ids {
                if !seen.insert(id.clone()) {
                    bad.push((format!("request {} answers call id {id:?} more than once", k + 1), "call_id_answered_twice".to_string()));
                }
                let known = round.map(|r| r.events.iter().any(|ev| ev["item"]["call_id"].as_str() == Some(id.as_str()))).unwrap_or(false);
                if !known {
                    bad.push((format!("request {} answers call id {id:?} which round {k} never announced", k + 1), "answer_without_call".to_string()));
                }
            }
            // the outputs belong to the calls processed in this round, in the same order
            if ids.len() != e.done[k].len() {
                bad.push((format!("round {k}: {} calls processed but {} outputs in request {}", e.done[k].len(), ids.len(), k + 1), "outputs_differ_from_processed".to_string()));
            }
        }
        if !c.stateless && k + 1 < o.bodies.len() {
            // the outputs must be attached to the response that made the calls: the last response id round k announced
            // (or, when it announced none, the one the previous follow-up was chained to)
            let announced = round.and_then(|r| r.events.iter().filter_map(|ev| ev.get("response").and_then(|x| x.get("id")).and_then(|x| x.as_str()).filter(|x| !x.is_empty())).last());
            let want = announced.or_else(|| o.bodies[k]["previous_response_id"].as_str());
            let got = o.bodies[k + 1]["previous_response_id"].as_str();
            if got.map(|s| s.is_empty()).unwrap_or(true) {
                bad.push((format!("follow-up request {} has no previous_response_id", k + 1), "followup_without_previous".to_string()));
            } else if got != want {
                bad.push((format!("follow-up request {} is chained to response {got:?}, the calls it answers were made by {want:?}", k + 1), "followup_chained_to_wrong_response".to_string()));
            }
        }
    }
    // O7: calls that get no next request — only the last round's, and only for a named reason (no response id to
    // chain to in stateful mode and then nothing executed; the 32-call bound; the follow-up refused by the schema
    // gate, and then the refused payload is exactly the answer to these calls).  Clean rounds only.
    if let Some(k) = o.bodies.len().checked_sub(1) {
        if let Some((rd, exp)) = c.rounds.get(k).and_then(|rd| rd.expected.as_ref().map(|x| (rd, x))) {
            if rd.mode == 0 && !exp.is_empty() {
                let want: Vec<String> = exp.iter().map(|c| c.call_id.clone()).collect();
                match e.reason.as_str() {
                    "invalid_request" => {
                        let items: Vec<Value> = e.rejected.as_ref().and_then(|b| b["input"].as_array().cloned()).unwrap_or_default();
                        let outs = outputs_of(&items);
                        let skip = if c.stateless { outputs_of(&inputs[k]).len().min(outs.len()) } else { 0 };
                        let ids: Vec<String> = outs[skip..].iter().map(|i| i["call_id"].as_str().unwrap_or("").to_string()).collect();
                        if ids != want {
                            bad.push((format!("round {k} announced calls {want:?}; the follow-up the gate refused answers {ids:?}"), "refused_followup_is_not_the_answer".to_string()));
                        }
                        if e.refused_why.is_empty() {
                            bad.push((format!("round {k}: the follow-up answering {want:?} was refused although it satisfies the schema"), "valid_followup_refused".to_string()));
                        }
                    }
                    "max_tool_calls_exceeded" => {
                        if processed != 32 {
                            bad.push((format!("round {k}: calls {want:?} left unanswered for the tool-call bound after {processed} calls"), "unanswered_without_reason".to_string()));
                        }
                    }
                    "provider_error" => {
                        let announced = rd.events.iter().any(|ev| ev.get("response").and_then(|x| x.get("id")).and_then(|x| x.as_str()).map(|x| !x.is_empty()).unwrap_or(false));
                        let chained = o.bodies[k]["previous_response_id"].as_str().map(|x| !x.is_empty()).unwrap_or(false);
                        if c.stateless || announced || chained || !e.done[k].is_empty() {
                            bad.push((format!("round {k}: calls {want:?} got no next request (provider_error) although the outputs could be sent"), "unanswered_without_reason".to_string()));
                        }
                    }
                    other => bad.push((format!("round {k}: calls {want:?} were never answered and the run ended {other:?}"), "unanswered_without_reason".to_string())),
                }
            }
        }
    }
    // O9: "the calls the provider emitted" judged by the provider-event FRAMES of the session stream — not by the
    // collector, not by the generator: an output_item.done frame (status event) of a function_call item with a non-empty
    // call id.  Every such call of answer k is answered in request k+1 (clean rounds: exactly these, in output_index
    // order, ties by frame order); a run must not end `completed` with such a call in the frames of its last answer.
    {
        let mut frame_calls: Vec<Vec<(u64, String, bool)>> = vec![];
        // call ids carried by any function_call item (added or done) in the frames of an answer
        let mut announced: Vec<BTreeSet<String>> = vec![];
        for f in &o.frames {
            match f["type"].as_str().unwrap_or("") {
                "openresponses_request_started" => {
                    frame_calls.push(vec![]);
                    announced.push(BTreeSet::new());
                }
                "provider_event" if f["status"] == "event" => {
                    let d = &f["data"];
                    if d["item"]["type"] == "function_call" && (d["type"] == "response.output_item.done" || d["type"] == "response.output_item.added") {
                        if let (Some(cid), Some(a)) = (d["item"]["call_id"].as_str(), announced.last_mut()) {
                            a.insert(cid.to_string());
                        }
                    }
                    if d["type"] == "response.output_item.done" && d["item"]["type"] == "function_call" {
                        if let Some(cid) = d["item"]["call_id"].as_str().filter(|x| !x.is_empty()) {
                            if let Some(g) = frame_calls.last_mut() {
                                g.push((d["output_index"].as_u64().unwrap_or(0), cid.to_string(), d["item"]["name"].is_string()));
                            }
                        }
                    }
                }
                _ => {}
            }
        }
        for (k, fc) in frame_calls.iter().enumerate() {
            let clean = c.rounds.get(k).map(|rd| rd.expected.is_some()).unwrap_or(false);
            // well-formed on its own (the done item names the function); in a clean round every done frame counts
            let must: Vec<&(u64, String, bool)> = fc.iter().filter(|x| clean || x.2).collect();
            if k + 1 < o.bodies.len() {
                let nxt = outputs_of(&inputs[k + 1]);
                let skip = if c.stateless { outputs_of(&inputs[k]).len().min(nxt.len()) } else { 0 };
                let ids: Vec<String> = nxt[skip..].iter().map(|i| i["call_id"].as_str().unwrap_or("").to_string()).collect();
                for id in &ids {
                    if !announced[k].contains(id) {
                        bad.push((format!("request {} answers call id {id:?}, which no function_call item in the frames of answer {k} carries", k + 1), "answer_without_call".to_string()));
                    }
                }
                for (_, cid, _) in &must {
                    if !ids.contains(cid) {
                        bad.push((format!("answer {k}: the session stream shows the provider's call {cid:?} (output_item.done frame) but request {} answers {ids:?}", k + 1), "call_in_frames_not_answered".to_string()));
                    }
                }
                if clean {
                    let mut want: Vec<(u64, String)> = vec![];
                    for (oi, cid, _) in fc {
                        if !want.iter().any(|w| &w.1 == cid) {
                            want.push((*oi, cid.clone()));
                        }
                    }
                    want.sort_by_key(|w| w.0); // stable
                    let want: Vec<String> = want.into_iter().map(|w| w.1).collect();
                    if want != ids {
                        bad.push((format!("answer {k}: the frames show calls {want:?} (output order) but request {} answers {ids:?}", k + 1), "not_answered_exactly_once_in_order".to_string()));
                    }
                }
            } else if e.reason == "completed" && !must.is_empty() {
                let ids: Vec<&String> = must.iter().map(|x| &x.1).collect();
                bad.push((format!("the run ended `completed` after request {k} although the session stream shows the provider's calls {ids:?} in its answer: never executed, never answered"), "call_in_frames_not_answered".to_string()));
            }
        }
        // an undispatched tail is not a call: its marker must not exist
        for rd in &c.rounds {
            if let Some(tok) = rd.lost.as_ref().and_then(|l| l["item"]["arguments"].as_str()).and_then(marker_of) {
                if o.markers.get(&tok).copied().unwrap_or(0) > 0 {
                    bad.push((format!("marker {tok} written: a call in a tail the decoder never dispatches was executed"), "undispatched_call_executed".to_string()));
                }
            }
        }
    }
    // O2: a tool excluded by the configured tool choice is never executed
    if let Some(spec) = &c.choice_spec {
        for (k, d) in e.done.iter().enumerate() {
            for (ran, _, name, _) in d {
                let allowed = spec.as_ref().map(|s| s.contains(name)).unwrap_or(true);
                if *ran && !allowed {
                    bad.push((format!("round {k}: tool {name:?} ran although tool_choice {} excludes it", c.tool_choice), "barred_tool_executed".to_string()));
                }
            }
        }
        // markers: a barred write/bash call must not have touched its file
        for rd in &c.rounds {
            for ev in &rd.events {
                if let (Some(name), Some(args)) = (ev["item"]["name"].as_str(), ev["item"]["arguments"].as_str()) {
                    let allowed = spec.as_ref().map(|s| s.contains(name)).unwrap_or(true);
                    if !allowed {
                        if let Some(tok) = marker_of(args) {
                            if o.markers.get(&tok).copied().unwrap_or(0) > 0 {
                                bad.push((format!("marker {tok} written by barred tool {name}"), "barred_tool_executed".to_string()));
                            }
                        }
                    }
                }
            }
        }
    }
    // O6: executed at most once (a marker file gets one line per execution)
    for (tok, n) in &o.markers {
        if *n > 1 {
            bad.push((format!("marker {tok} written {n} times: the call ran more than once"), "call_executed_twice".to_string()));
        }
    }
    bad
}

/// a schema error without the instance: `/input/3/call_id: string of 70 characters, maxLength is 64` ->
/// `/input/#/call_id: maxLength`
fn refusal_kind(w: &str) -> String {
    let (path, msg) = w.split_once(": ").unwrap_or(("", w));
    let path: String = path.split('/').map(|p| if !p.is_empty() && p.chars().all(|c| c.is_ascii_digit()) { "#" } else { p }).collect::<Vec<_>>().join("/");
    let kw = ["maxLength", "minLength", "does not match", "is not one of", "is not of type", "required property", "anyOf", "oneOf", "maxItems", "minItems", "minimum", "maximum"].iter().find(|k| msg.contains(**k)).copied().unwrap_or("other");
    format!("{path}: {kw}")
}

fn marker_of(args: &str) -> Option<String> {
    let p = args.find("m/t")?;
    let rest = &args[p + 2..];
    let end = rest.find(|c: char| !(c.is_ascii_alphanumeric())).unwrap_or(rest.len());
    Some(rest[..end].to_string())
}

fn has_class(rt: &tokio::runtime::Runtime, c: &LoopCase, class: &str) -> bool {
    let sc = Scratch::new("c16s");
    let o = rt.block_on(drive_loop(c, sc.path()));
    match encode_loop(&o) {
        Ok(e) => loop_oracle(c, &o, &e).iter().any(|(_, k)| k == class),
        Err(_) => false,
    }
}

/// delta debugging on the rounds, then on the events of each round, while the same oracle class keeps failing
fn shrink_loop(rt: &tokio::runtime::Runtime, c: &LoopCase, class: &str) -> LoopCase {
    let mut best = c.clone();
    let base = best.clone();
    best.rounds = shrink_vec(base.rounds.clone(), |rs| {
        let mut cc = base.clone();
        cc.rounds = rs.to_vec();
        has_class(rt, &cc, class)
    });
    if class != "not_answered_exactly_once_in_order" {
        for k in 0..best.rounds.len() {
            let base = best.clone();
            let evs = shrink_vec(base.rounds[k].events.clone(), |es| {
                let mut cc = base.clone();
                cc.rounds[k].events = es.to_vec();
                cc.rounds[k].expected = None; // the announced-call list no longer describes the round
                has_class(rt, &cc, class)
            });
            if evs.len() < best.rounds[k].events.len() {
                best.rounds[k].events = evs;
                best.rounds[k].expected = None;
            }
        }
    }
    // the smallest payload (of a few candidate sizes) with which the class still shows
    for j in 0..best.payloads.len() {
        let cur = best.payloads[j].size;
        for cand in [cur / 8, cur / 4, cur / 2, cur * 3 / 4, cur - cur / 8] {
            let mut cc = best.clone();
            cc.payloads[j].size = cand;
            if cand < cur && has_class(rt, &cc, class) {
                best = cc;
                break;
            }
        }
    }
    best
}

fn loop_nontrivial(c: &LoopCase, e: &LoopEnc) -> bool {
    e.done.iter().map(|d| d.len()).sum::<usize>() > 0 || c.rounds.iter().any(|r| !r.events.is_empty())
}

fn corpus_loops() -> Vec<LoopCase> {
    let call = |oi: u64, id: &str, cid: &str, name: &str, args: &str| json!({"type":"response.output_item.done","output_index":oi,"item":{"type":"function_call","id":id,"call_id":cid,"name":name,"arguments":args}});
    let w = |t: &str| serde_json::to_string(&json!({"append": true, "content": "x\n", "path": format!("m/{t}")})).unwrap();
    let end = RoundSpec { mode: 0, events: vec![json!({"type":"response.completed","response":{"id":"resp_end"}})], done: true, expected: Some(vec![]), render: 3, tail: 0, lost: None };
    let mut v = vec![];
    // S16: stateless history + follow-up user message, two tool rounds
    for stateless in [true, false] {
        v.push(LoopCase {
            payloads: vec![],
            stateless,
            tool_choice: json!("auto"),
            choice_spec: Some(None),
            followup: Some("continue".into()),
            prompt: if stateless { "s16".into() } else { "s16_stateful".into() },
            thread: stateless,
            rounds: vec![
                RoundSpec { mode: 0, events: vec![json!({"type":"response.created","response":{"id":"resp_1"}}), call(0, "fc_1", "call_1", "write", &w("t1"))], done: true, expected: Some(vec![ExpCall { oi: 0, call_id: "call_1".into(), name: "write".into(), args: w("t1") }]), render: 1, tail: 0, lost: None },
                RoundSpec { mode: 0, events: vec![json!({"type":"response.created","response":{"id":"resp_2"}}), call(0, "fc_2", "call_2", "write", &w("t2"))], done: true, expected: Some(vec![ExpCall { oi: 0, call_id: "call_2".into(), name: "write".into(), args: w("t2") }]), render: 2, tail: 0, lost: None },
                end.clone(),
            ],
        });
    }
    // S19: the same completed call announced twice in one response
    v.push(LoopCase {
        payloads: vec![],
        stateless: false,
        tool_choice: json!("auto"),
        choice_spec: Some(None),
        followup: None,
        prompt: "s19".into(),
        thread: false,
        rounds: vec![
            RoundSpec { mode: 0, events: vec![json!({"type":"response.created","response":{"id":"resp_1"}}), call(0, "fc_1", "call_1", "write", &w("t1")), call(0, "fc_1", "call_1", "write", &w("t1"))], done: true, expected: Some(vec![ExpCall { oi: 0, call_id: "call_1".into(), name: "write".into(), args: w("t1") }]), render: 1, tail: 0, lost: None },
            end.clone(),
        ],
    });
    // two different items sharing a call id
    v.push(LoopCase {
        payloads: vec![],
        stateless: true,
        tool_choice: json!("auto"),
        choice_spec: Some(None),
        followup: None,
        prompt: "s19b".into(),
        thread: false,
        rounds: vec![
            RoundSpec { mode: 0, events: vec![call(1, "fc_1", "call_1", "write", &w("t1")), call(0, "fc_2", "call_1", "write", &w("t2"))], done: false, expected: None, render: 1, tail: 0, lost: None },
            end.clone(),
        ],
    });
    // barred tool, malformed choice, bound
    v.push(LoopCase {
        payloads: vec![],
        stateless: false,
        tool_choice: json!("none"),
        choice_spec: Some(Some(BTreeSet::new())),
        followup: None,
        prompt: "barred".into(),
        thread: false,
        rounds: vec![RoundSpec { mode: 0, events: vec![json!({"type":"response.created","response":{"id":"resp_1"}}), call(0, "fc_1", "call_1", "write", &w("t1"))], done: true, expected: Some(vec![ExpCall { oi: 0, call_id: "call_1".into(), name: "write".into(), args: w("t1") }]), render: 1, tail: 0, lost: None }, end.clone()],
    });
    v.push(LoopCase { payloads: vec![], stateless: false, tool_choice: json!({"type":"function"}), choice_spec: None, followup: None, prompt: "malformed".into(), rounds: vec![end.clone()], thread: false });
    // seeded change C16-3 (the body validator stops applying the schema to `input` items): provider data that is
    // structurally fine but violates a value constraint of the follow-up items — a 70-character call id (both
    // history modes), a function name with a dot (the stateless follow-up echoes the call); the follow-up must
    // not be sent.  And the boundary: a 64-character call id is answered normally.
    let long_id = format!("call_{}", "x".repeat(65));
    let id64 = format!("call_{}", "b".repeat(59));
    for (prompt, stateless, cid, name) in [("longid_stateful", false, long_id.as_str(), "write"), ("longid_stateless", true, long_id.as_str(), "write"), ("dotname_stateless", true, "call_1", "functions.read"), ("id64_stateful", false, id64.as_str(), "write")] {
        v.push(LoopCase {
            payloads: vec![],
            stateless,
            tool_choice: json!("auto"),
            choice_spec: Some(None),
            followup: None,
            prompt: prompt.into(),
            thread: false,
            rounds: vec![RoundSpec { mode: 0, events: vec![json!({"type":"response.created","response":{"id":"resp_1"}}), call(0, "fc_1", cid, name, &w("t1"))], done: true, expected: Some(vec![ExpCall { oi: 0, call_id: cid.into(), name: name.into(), args: w("t1") }]), render: 1, tail: 0, lost: None }, end.clone()],
        });
    }
    // the same call id (and item id) completed by two consecutive responses: two calls, two executions, each answered
    // in its own next request (stateless: the third request carries two outputs for the id)
    for stateless in [false, true] {
        v.push(LoopCase {
            payloads: vec![],
            stateless,
            tool_choice: json!("auto"),
            choice_spec: Some(None),
            followup: None,
            prompt: if stateless { "sameid_stateless".into() } else { "sameid_stateful".into() },
            thread: false,
            rounds: vec![
                RoundSpec { mode: 0, events: vec![json!({"type":"response.created","response":{"id":"resp_1"}}), call(0, "fc_1", "call_1", "write", &w("t1"))], done: true, expected: Some(vec![ExpCall { oi: 0, call_id: "call_1".into(), name: "write".into(), args: w("t1") }]), render: 1, tail: 0, lost: None },
                RoundSpec { mode: 0, events: vec![json!({"type":"response.created","response":{"id":"resp_2"}}), call(0, "fc_1", "call_1", "write", &w("t2"))], done: true, expected: Some(vec![ExpCall { oi: 0, call_id: "call_1".into(), name: "write".into(), args: w("t2") }]), render: 2, tail: 0, lost: None },
                end.clone(),
            ],
        });
    }
    // seeded change C16-4 (pipe.finish() logs the events it flushes but does not show them to the collector): a
    // CRLF-framed answer without [DONE] that is cut between the CR and the LF of its final blank line, the last
    // output_item.done in the unterminated tail — two calls (the second one in the tail) and a single call, both
    // history modes; the same with an LF line end followed by a lone CR; and the tails that are NOT dispatched
    // (LF body without its final blank line, last line without line end, a call after [DONE]): nothing to answer
    let exp = |cid: &str, t: &str| ExpCall { oi: if cid == "call_2" { 1 } else { 0 }, call_id: cid.into(), name: "write".into(), args: w(t) };
    for stateless in [false, true] {
        let m = if stateless { "stateless" } else { "stateful" };
        v.push(LoopCase {
            payloads: vec![],
            stateless,
            tool_choice: json!("auto"),
            choice_spec: Some(None),
            followup: None,
            prompt: format!("tail_crlf_cut_two_{m}"),
            thread: false,
            rounds: vec![
                RoundSpec { mode: 0, events: vec![json!({"type":"response.created","response":{"id":"resp_1"}}), call(0, "fc_1", "call_1", "write", &w("t1")), call(1, "fc_2", "call_2", "write", &w("t2"))], done: false, expected: Some(vec![exp("call_1", "t1"), exp("call_2", "t2")]), render: 8, tail: 1, lost: None },
                end.clone(),
            ],
        });
        v.push(LoopCase {
            payloads: vec![],
            stateless,
            tool_choice: json!("auto"),
            choice_spec: Some(None),
            followup: None,
            prompt: format!("tail_crlf_cut_single_{m}"),
            thread: false,
            rounds: vec![
                RoundSpec { mode: 0, events: vec![json!({"type":"response.created","response":{"id":"resp_1"}}), call(0, "fc_1", "call_1", "write", &w("t1"))], done: false, expected: Some(vec![exp("call_1", "t1")]), render: 9, tail: 1, lost: None },
                end.clone(),
            ],
        });
    }
    v.push(LoopCase {
        payloads: vec![],
        stateless: false,
        tool_choice: json!("auto"),
        choice_spec: Some(None),
        followup: None,
        prompt: "tail_lf_cr".into(),
        thread: false,
        rounds: vec![RoundSpec { mode: 0, events: vec![json!({"type":"response.created","response":{"id":"resp_1"}}), call(0, "fc_1", "call_1", "write", &w("t1"))], done: false, expected: Some(vec![exp("call_1", "t1")]), render: 10, tail: 4, lost: None }, end.clone()],
    });
    for (prompt, tail) in [("tail_lf_noblank", 2u8), ("tail_lf_noeol", 3), ("tail_call_after_done", 6), ("tail_event_after_done", 8)] {
        v.push(LoopCase {
            payloads: vec![],
            stateless: tail == 3,
            tool_choice: json!("auto"),
            choice_spec: Some(None),
            followup: None,
            prompt: prompt.into(),
            thread: false,
            rounds: vec![
                RoundSpec { mode: 0, events: vec![json!({"type":"response.created","response":{"id":"resp_1"}}), call(0, "fc_1", "call_1", "write", &w("t1"))], done: false, expected: Some(vec![exp("call_1", "t1")]), render: 11, tail, lost: Some(lost_call(prompt)) },
                end.clone(),
            ],
        });
    }
    // [DONE] itself in the unterminated tail; an answer without a single byte (provider_error)
    v.push(LoopCase {
        payloads: vec![],
        stateless: false,
        tool_choice: json!("auto"),
        choice_spec: Some(None),
        followup: None,
        prompt: "tail_done_in_tail".into(),
        thread: false,
        rounds: vec![RoundSpec { mode: 0, events: vec![json!({"type":"response.created","response":{"id":"resp_1"}}), call(0, "fc_1", "call_1", "write", &w("t1"))], done: true, expected: Some(vec![exp("call_1", "t1")]), render: 12, tail: 5, lost: None }, end.clone()],
    });
    v.push(LoopCase {
        payloads: vec![],
        stateless: false,
        tool_choice: json!("auto"),
        choice_spec: Some(None),
        followup: None,
        prompt: "empty_body".into(),
        thread: false,
        rounds: vec![RoundSpec { mode: 0, events: vec![], done: false, expected: Some(vec![]), render: 13, tail: 7, lost: None }, end.clone()],
    });
    // seeded change C16-8 (validation messages longer than 2048 bytes are cut with `str::get(..2048)?` under filter_map: a
    // cut inside a character drops the message, the only one, and the gate opens): the follow-up is invalid (66-character
    // call id) AND quotes ~3 KiB of two-byte text a `read` call printed; with 0 and with 1 leading ASCII byte — a
    // character lies across any given byte of the quoted text in one of the two — both history modes.  And the control: the
    // same payload under a 64-character id is sent and answered normally.
    let id66 = format!("call_{}", "c".repeat(61));
    let rd = serde_json::to_string(&json!({"path": "big/p0.txt"})).unwrap();
    for (prompt, stateless, lead, cid) in [("sized_longid_cyrillic_lead0_stateful", false, 0u8, id66.as_str()), ("sized_longid_cyrillic_lead1_stateful", false, 1, id66.as_str()), ("sized_longid_cyrillic_lead0_stateless", true, 0, id66.as_str()), ("sized_longid_cyrillic_lead1_stateless", true, 1, id66.as_str()), ("sized_id64_cyrillic_stateful", false, 1, id64.as_str())] {
        v.push(LoopCase {
            payloads: vec![sized::PaySpec { size: 3072, width: 2, lead }],
            stateless,
            tool_choice: json!("auto"),
            choice_spec: Some(None),
            followup: None,
            prompt: prompt.into(),
            thread: false,
            rounds: vec![RoundSpec { mode: 0, events: vec![json!({"type":"response.created","response":{"id":"resp_1"}}), call(0, "fc_1", cid, "read", &rd)], done: true, expected: Some(vec![ExpCall { oi: 0, call_id: cid.into(), name: "read".into(), args: rd.clone() }]), render: 1, tail: 0, lost: None }, end.clone()],
        });
    }
    let many: Vec<Value> = std::iter::once(json!({"type":"response.created","response":{"id":"resp_1"}})).chain((0..20).map(|j| call(j, &format!("fc_{j}"), &format!("call_{j}"), "write", &w(&format!("t{j}"))))).collect();
    let many2: Vec<Value> = std::iter::once(json!({"type":"response.created","response":{"id":"resp_2"}})).chain((20..40).map(|j| call(j, &format!("fc_{j}"), &format!("call_{j}"), "write", &w(&format!("t{j}"))))).collect();
    // the bound counts refused calls too: 40 calls, every one barred by tool_choice "none" — 32 are processed
    v.push(LoopCase {
        payloads: vec![],
        stateless: false,
        tool_choice: json!("none"),
        choice_spec: Some(Some(BTreeSet::new())),
        followup: None,
        prompt: "bound_barred".into(),
        thread: false,
        rounds: vec![RoundSpec { mode: 0, events: many.clone(), done: true, expected: None, render: 5, tail: 0, lost: None }, RoundSpec { mode: 0, events: many2.clone(), done: true, expected: None, render: 6, tail: 0, lost: None }, end.clone()],
    });
    v.push(LoopCase {
        payloads: vec![],
        stateless: true,
        tool_choice: json!("auto"),
        choice_spec: Some(None),
        followup: None,
        prompt: "bound".into(),
        thread: false,
        rounds: vec![RoundSpec { mode: 0, events: many, done: true, expected: None, render: 5, tail: 0, lost: None }, RoundSpec { mode: 0, events: many2, done: true, expected: None, render: 6, tail: 0, lost: None }, end.clone()],
    });
    v
}

fn main() {
    let a = parse_args();
    let mut res = RunResult::new("C16", &a);
    res.rule = "cases = (a) provider event lists for the collector from a clean grammar (unique ids, per-item order added/deltas/done, 5 argument deliveries) and a dirty one (missing/empty/shared/non-string ids, non-u64 output_index, any order, repeated events); (b) tool_choice values of every shape incl. malformed ones with probe names; (c) whole runs: config (history mode, tool_choice, follow-up message) x scripted provider rounds (clean/dirty events, [DONE] or not, HTTP error, dropped connection, random HTTP chunking, runs into the 32-call bound) with marker tools; non-trivial = at least one provider event; distinct by hash of the canonical case; answers end properly or (two in five) in a tail that only pipe.finish() delivers (CRLF body cut between CR and LF of the final blank line, LF + lone CR, [DONE] in the tail) or that is never dispatched (no final blank line, no line end, events after [DONE], empty body); (d) single answers of the same grammars and tails, any chunking, through the real pipe + collector; whole runs with such a tail (and a third of the others) are also compared from the bytes served; (e) whole runs whose follow-up (or initial request) is schema-invalid in each of the known ways (call id of 65 / 70 / 300 characters or 65 two-byte characters, function name empty / dotted / with a space / non-ASCII / 65 characters, malformed tool_choice) or valid, and quotes a payload of 0 bytes .. 8 KiB (sizes p-1, p, p+1 for powers of two and for the integer constants read from the validation path of the tree under test) printed by read / bash cat or passed as write arguments, in characters of 1, 2, 3, 4 bytes, mixes and JSON-escaped characters, shifted by 0..width-1 bytes (a character across every byte offset), the invalid item in the same response or turns later".into();
    let mut st = schema::self_test();
    let mut known_vs_implementation = 0usize;
    for (b, want) in schema::known_bodies() {
        if schema_errors(&b).is_empty() != want {
            st.push(format!("known body judged wrongly (expected valid={want}): {b} -> {:?}", schema_errors(&b)));
        }
        if rip_openresponses::validate_create_response_body(&b).is_ok() != want {
            known_vs_implementation += 1;
        }
    }
    res.bump_by("known-bodies-where-the-implementation-differs-from-the-schema", known_vs_implementation as u64);
    st.extend(sized::self_test());
    if !st.is_empty() || !schemas().has("CreateResponseBody.json") || !schemas().has("ItemParam.json") {
        eprintln!("c16: the schema judge failed its self-test: {st:?}");
        std::process::exit(2);
    }
    let home = Scratch::new("c16-home");
    std::env::set_var("HOME", home.path());
    std::env::set_var("NO_PROXY", "127.0.0.1,localhost");
    std::env::remove_var("RIP_CONFIG");
    std::env::remove_var("RIP_CONFIG_HOME");
    let (n_collect, n_enforce, n_loop, n_pipe) = match a.tier.as_str() {
        "thorough" => (6000, 3000, 2500, 2000),
        _ => (500, 250, 200, 240),
    };
    let mut r = Rng::new(a.seed);
    let mut w = CaseWriter::new(&a.out, "Model.ToolLoop", "check_case", "model_obs", 60);
    // cases of Model.ToolLoopSse (the answers as bytes, decoded by C15's stream model inside the case)
    let mut wb = CaseWriter::new(&a.out.join("body"), "Model.ToolLoopSse", "check_case_b", "model_obs_b", 20).with_base(1_000_000);
    // sized runs (several KiB of text per case): small files, a coqc process holds a whole file in memory
    let mut wz = CaseWriter::new(&a.out.join("sized"), "Model.ToolLoop", "check_case", "model_obs", 10).with_base(2_000_000);
    let mut distinct = Distinct::default();
    let rt = tokio::runtime::Builder::new_multi_thread().worker_threads(4).enable_all().build().unwrap();

    if let Some(dir) = a.extra.get("dump-corpus") {
        std::fs::create_dir_all(dir).unwrap();
        for c in corpus_loops() {
            std::fs::write(Path::new(dir).join(format!("{}.json", c.prompt)), serde_json::to_string_pretty(&json!({"loop": c})).unwrap()).unwrap();
        }
        return;
    }
    // ---- replay of one loop case
    if let Some(p) = &a.replay {
        let txt = std::fs::read_to_string(p).expect("replay file");
        let v: Value = serde_json::from_str(&txt).expect("replay json");
        let v = v.get("replay").or_else(|| v.get("case")).cloned().unwrap_or(v);
        if let Ok(c) = serde_json::from_value::<LoopCase>(v.get("loop").cloned().unwrap_or(v.clone())) {
            let sc = Scratch::new("c16");
            let o = rt.block_on(drive_loop(&c, sc.path()));
            println!("bodies: {}", serde_json::to_string_pretty(&o.bodies.iter().map(|b| json!({"previous_response_id": b["previous_response_id"], "input": b["input"]})).collect::<Vec<_>>()).unwrap());
            println!("markers: {:?}", o.markers);
            match encode_loop(&o) {
                Ok(e) => {
                    println!("reason: {}", e.reason);
                    for (what, class) in loop_oracle(&c, &o, &e) {
                        println!("ORACLE [{class}] {what}");
                        res.oracle_violations.push(OracleViolation { case_id: 0, what, class, replay: json!({"loop": c}) });
                    }
                    w.push(coq_loop_case(&c, &e));
                    wb.push(coq_loop_case_b(&c, &e));
                }
                Err(e) => println!("encode error: {e}"),
            }
            w.flush();
            wb.flush();
            res.case_files = w.files.iter().chain(wb.files.iter()).map(|p| p.display().to_string()).collect();
            res.evaluations = 1;
            res.write(&a.out);
            return;
        }
        if let Some(evs) = v.get("collect").and_then(|e| e.as_array()) {
            match run_collect(evs) {
                Some((calls, resp)) => {
                    println!("drained: {calls:?}\nresponse id: {resp:?}");
                    for (what, class) in collect_oracle(evs, &calls, None) {
                        println!("ORACLE [{class}] {what}");
                        res.oracle_violations.push(OracleViolation { case_id: 0, what, class, replay: json!({"collect": evs}) });
                    }
                    let mut obs = vec![];
                    enc_calls(&mut obs, &calls, resp.as_deref());
                    w.push(format!("CCollect {} {}", coq_list(evs, coq_json), coq_list_n(&obs)));
                }
                None => println!("the collector panicked"),
            }
            w.flush();
            res.case_files = w.files.iter().map(|p| p.display().to_string()).collect();
            res.evaluations = 1;
            res.write(&a.out);
            return;
        }
        if let Some(pc) = v.get("pipe") {
            let chunks: Vec<Vec<u8>> = serde_json::from_value(pc["chunks"].clone()).expect("pipe.chunks");
            let spec: RoundSpec = serde_json::from_value(pc["spec"].clone()).expect("pipe.spec");
            let c = PipeCase { spec, compat: pc["compat"].as_bool().unwrap_or(false), chunks };
            match run_pipe(&rt, &c) {
                Some((frames, calls, rid)) => {
                    println!("body: {:?}\nevent frames: {}\ndrained: {calls:?}\nresponse id: {rid:?}", String::from_utf8_lossy(&c.chunks.concat()), serde_json::to_string(&frames).unwrap());
                    for (what, class) in pipe_oracle(&c, &frames, &calls) {
                        println!("ORACLE [{class}] {what}");
                        res.oracle_violations.push(OracleViolation { case_id: 0, what, class, replay: json!({"pipe": pc}) });
                    }
                    let mut obs = vec![frames.len() as u64];
                    enc_calls(&mut obs, &calls, rid.as_deref());
                    wb.push(format!("CPipeC {} {} {}", coq_tables(c.compat, &[String::from_utf8_lossy(&c.chunks.concat()).to_string()]), coq_chunks(&c.chunks), coq_list_n(&obs)));
                }
                None => println!("the pipe panicked"),
            }
            wb.flush();
            res.case_files = wb.files.iter().map(|p| p.display().to_string()).collect();
            res.evaluations = 1;
            res.write(&a.out);
            return;
        }
        eprintln!("replay file is neither a loop case nor a collector case nor a pipe case");
        std::process::exit(2);
    }

    // ---- (a) collector
    let mut shrunk_collect: BTreeSet<String> = BTreeSet::new();
    for i in 0..n_collect {
        let c = gen_collect(&mut r, i);
        let mut evs: Vec<ParsedEvent> = c.events.iter().map(|v| parsed(ParsedEventKind::Event, Some(v.clone()))).collect();
        // events the collector must ignore: not of kind Event, or without data
        if i % 5 == 0 {
            let decoy = json!({"type":"response.output_item.done","output_index":0,"item":{"type":"function_call","id":"decoy","call_id":"decoy","name":"bash","arguments":"{}"}});
            evs.insert(0, parsed(ParsedEventKind::Done, Some(decoy.clone())));
            evs.push(parsed(ParsedEventKind::InvalidJson, Some(decoy)));
            evs.push(parsed(ParsedEventKind::Event, None));
        }
        let evs2 = evs.clone();
        let got = std::panic::catch_unwind(move || ripd::verif::collect_calls(&evs2));
        res.evaluations += 1;
        res.bump(if c.expected.is_some() { "collect-clean" } else { "collect-dirty" });
        let cj = json!({"collect": c.events});
        let (calls, resp) = match got {
            Ok(x) => x,
            Err(_) => {
                res.impl_panics += 1;
                res.oracle_violations.push(OracleViolation { case_id: i as i64, what: "ToolCallCollector panicked".into(), class: "panic".into(), replay: cj });
                continue;
            }
        };
        res.bump(&format!("collect-calls={}", match calls.len() { 0 => "0", 1 => "1", 2..=3 => "2-3", _ => "4+" }));
        // oracle: sorted by output index; no more calls than done events; distinct ids; clean scripts: exactly the announced calls
        res.oracle_checks += 1;
        for (what, class) in collect_oracle(&c.events, &calls, c.expected.as_ref()) {
            // classes that do not depend on the generator's own call list are reported shrunk
            let replay = if class != "collector_lost_or_reordered_call" && shrunk_collect.insert(class.clone()) {
                let cls = class.clone();
                let evs = shrink_vec(c.events.clone(), |es| run_collect(es).map(|(calls, _)| collect_oracle(es, &calls, None).iter().any(|(_, k)| *k == cls)).unwrap_or(false));
                json!({"collect": evs, "shrunk_from_case": i})
            } else {
                cj.clone()
            };
            res.oracle_violations.push(OracleViolation { case_id: i as i64, what, class, replay });
        }
        if !a.oracle_only() {
            let mut obs = vec![];
            enc_calls(&mut obs, &calls, resp.as_deref());
            let id = w.push(format!("CCollect {} {}", coq_list(&c.events, coq_json), coq_list_n(&obs)));
            if res.case_index.len() < 3000 {
                res.case_index.insert(id.to_string(), cj.clone());
            }
        }
        if !c.events.is_empty() {
            distinct.add(&format!("{:?}", c.events));
        }
        if res.samples.is_empty() && calls.len() >= 2 {
            res.samples.push(cj);
        }
    }

    // ---- (b) enforcement
    let probe_pool = ["read", "write", "bash", "ls", "frobnicate", "", "Read", "none"];
    for i in 0..n_enforce {
        let c = gen_choice(&mut r, &probe_pool);
        let probes: Vec<String> = probe_pool.iter().map(|s| s.to_string()).collect();
        let v2 = c.value.clone();
        let p2 = probes.clone();
        let got = std::panic::catch_unwind(move || (ripd::verif::tool_choice_enforcement(&v2), p2.iter().map(|p| ripd::verif::tool_choice_allows(&v2, p)).collect::<Vec<bool>>()));
        res.evaluations += 1;
        let cj = json!({"enforce": c.value});
        let ((kind, names), allows) = match got {
            Ok(x) => x,
            Err(_) => {
                res.impl_panics += 1;
                res.oracle_violations.push(OracleViolation { case_id: (10_000 + i) as i64, what: "ToolChoiceEnforcement panicked".into(), class: "panic".into(), replay: cj });
                continue;
            }
        };
        res.bump(&format!("enforce-kind={kind}"));
        res.oracle_checks += 1;
        if let Some(spec) = &c.spec {
            for (p, al) in probes.iter().zip(&allows) {
                let want = spec.as_ref().map(|s| s.contains(p) && !p.is_empty()).unwrap_or(true);
                if *al != want {
                    res.oracle_violations.push(OracleViolation { case_id: (10_000 + i) as i64, what: format!("tool_choice {} : allows_function({p:?}) = {al}, the shape means {want}", c.value), class: "enforcement_differs_from_tool_choice".into(), replay: cj.clone() });
                }
            }
        }
        if !a.oracle_only() {
            let mut obs = vec![kind as u64];
            if kind == 2 {
                obs.push(names.len() as u64);
                for n in &names {
                    enc_str(&mut obs, n);
                }
            } else {
                obs.push(0);
            }
            for al in &allows {
                enc_bool(&mut obs, *al);
            }
            let id = w.push(format!("CEnforce {} {} {}", coq_json(&c.value), coq_list(&probes, |s| coq_str(s)), coq_list_n(&obs)));
            if res.case_index.len() < 3000 {
                res.case_index.insert(id.to_string(), cj.clone());
            }
        }
        distinct.add(&format!("{}", c.value));
    }

    // ---- (d) one answer through the real pipe + collector: every tail, any chunking
    let mut shrunk_pipe: BTreeSet<String> = BTreeSet::new();
    for i in 0..n_pipe {
        let c = gen_pipe(&mut r, i);
        let case_id = (30_000 + i) as i64;
        let cj = json!({"pipe": {"spec": c.spec, "compat": c.compat, "chunks": c.chunks}});
        res.evaluations += 1;
        res.bump(&format!("pipe-tail={}", c.spec.tail));
        let Some((frames, calls, rid)) = run_pipe(&rt, &c) else {
            res.impl_panics += 1;
            res.oracle_violations.push(OracleViolation { case_id, what: "OpenResponsesSsePipe / ToolCallCollector panicked".into(), class: "panic".into(), replay: cj });
            continue;
        };
        if matches!(c.spec.tail, 1 | 4) && c.spec.events.last().map(is_fc_done).unwrap_or(false) {
            res.bump("pipe-call-delivered-by-finish");
        }
        res.oracle_checks += 1;
        for (what, class) in pipe_oracle(&c, &frames, &calls) {
            // the first failing case of a class is reported with the smallest event list that still fails
            let replay = if shrunk_pipe.insert(class.clone()) {
                let cls = class.clone();
                let evs = shrink_vec(c.spec.events.clone(), |es| {
                    let mut spec = c.spec.clone();
                    spec.events = es.to_vec();
                    spec.expected = None;
                    let cc = PipeCase { chunks: vec![render_body(&spec).0], spec, compat: c.compat };
                    run_pipe(&rt, &cc).map(|(f, k, _)| pipe_oracle(&cc, &f, &k).iter().any(|(_, kk)| *kk == cls)).unwrap_or(false)
                });
                let mut spec = c.spec.clone();
                spec.events = evs;
                spec.expected = None;
                let chunks = vec![render_body(&spec).0];
                json!({"pipe": {"spec": spec, "compat": c.compat, "chunks": chunks}, "shrunk_from_case": case_id})
            } else {
                cj.clone()
            };
            res.oracle_violations.push(OracleViolation { case_id, what, class, replay });
        }
        if !a.oracle_only() {
            let mut obs = vec![frames.len() as u64];
            enc_calls(&mut obs, &calls, rid.as_deref());
            let id = wb.push(format!("CPipeC {} {} {}", coq_tables(c.compat, &[String::from_utf8_lossy(&c.chunks.concat()).to_string()]), coq_chunks(&c.chunks), coq_list_n(&obs)));
            if res.case_index.len() < 6000 {
                res.case_index.insert(id.to_string(), cj.clone());
            }
        }
        if !c.spec.events.is_empty() {
            distinct.add(&format!("{:?}", c.chunks));
        }
    }

    // ---- (c) whole runs
    let skip_loop = a.extra.get("no-loop").map(|v| v == "1").unwrap_or(false);
    let mut loops: Vec<LoopCase> = if skip_loop { vec![] } else { corpus_loops() };
    let n_corpus = loops.len();
    if !skip_loop {
        for i in 0..n_loop {
            loops.push(gen_loop(&mut r, i));
        }
    }
    // ---- (e) schema-invalid (and valid) follow-ups of every size: each kind of invalidity x quoted payload sizes around
    // every power of two and every constant of the code between verdict and gate x character widths and alignments
    let consts = sized::source_constants();
    let pivots = sized::pivots(&consts, a.tier == "thorough");
    res.notes.push(format!("sized runs: integer constants read from create_response.rs / rip-openresponses lib.rs / the gate of stream_openresponses_request = {consts:?}; a character of every width is put across bytes {pivots:?} of the quoted payload; payload sizes {:?}", sized::size_ladder(&consts)));
    if !sized::unreached(&consts).is_empty() {
        res.notes.push(format!("sized runs: constants {:?} are beyond the payload sizes of this generator (16 KiB)", sized::unreached(&consts)));
    }
    let n_before_sized = loops.len();
    if !skip_loop {
        let mut plans = sized::plans(&mut r, &consts, a.tier == "thorough");
        plans.truncate(1000);
        for (i, p) in plans.iter().enumerate() {
            loops.push(gen_sized(&mut r, p, i));
        }
    }
    // runs are independent: drive them 8 at a time
    let mut results: Vec<(LoopCase, LoopObs)> = vec![];
    for batch in loops.chunks(8) {
        let outs: Vec<(LoopCase, LoopObs)> = rt.block_on(async {
            let mut hs = vec![];
            for c in batch {
                let c = c.clone();
                hs.push(tokio::spawn(async move {
                    let sc = Scratch::new("c16");
                    let o = drive_loop(&c, sc.path()).await;
                    (c, o)
                }));
            }
            let mut v = vec![];
            for (h, c) in hs.into_iter().zip(batch) {
                match h.await {
                    Ok(x) => v.push(x),
                    Err(e) => v.push((c.clone(), LoopObs { errors: vec![format!("PANIC {e}")], ..Default::default() })),
                }
            }
            v
        });
        results.extend(outs);
    }
    let mut shrunk_classes: BTreeSet<String> = BTreeSet::new();
    let mut n_from_bytes = 0usize;
    for (i, (c, o)) in results.iter().enumerate() {
        let case_id = (20_000 + i) as i64;
        let cj = json!({"loop": c});
        res.evaluations += 1;
        if o.errors.iter().any(|e| e.starts_with("PANIC")) {
            res.impl_panics += 1;
            res.oracle_violations.push(OracleViolation { case_id, what: format!("the run panicked: {:?}", o.errors), class: "panic".into(), replay: cj });
            continue;
        }
        let e = match encode_loop(o) {
            Ok(e) => e,
            Err(err) => {
                res.oracle_violations.push(OracleViolation { case_id, what: format!("run not observable: {err}"), class: "run_not_observable".into(), replay: cj });
                continue;
            }
        };
        res.bump(&format!("loop-reason={}", e.reason));
        if e.reason == "invalid_request" {
            res.bump(&format!("loop-refused-at-request={}", o.bodies.len().min(3)));
            if !o.bodies.is_empty() && res.notes.len() < 4 {
                res.notes.push(format!("follow-up payload refused by the validator (case {case_id}): {}", e.refused_why.first().cloned().unwrap_or_default().chars().take(300).collect::<String>()));
            }
        }
        if c.thread {
            res.bump("loop-thread-run");
        }
        {
            // runs in which one call id is completed by two responses that both got a next request
            let mut seen: BTreeSet<String> = BTreeSet::new();
            let mut reused = false;
            for rd in c.rounds.iter().take(o.bodies.len().saturating_sub(1)) {
                let ids: BTreeSet<String> = rd.expected.iter().flatten().map(|x| x.call_id.clone()).collect();
                reused |= ids.iter().any(|i| seen.contains(i));
                seen.extend(ids);
            }
            if reused {
                res.bump("loop-call-id-reused-across-responses");
            }
        }
        if let Some(k) = o.bodies.len().checked_sub(1) {
            if c.rounds.get(k).map(|rd| rd.mode == 0 && rd.expected.as_ref().map(|x| !x.is_empty()).unwrap_or(false)).unwrap_or(false) {
                res.bump(&format!("last-round-calls-unanswered-because={}", e.reason));
            }
        }
        for (k, (mine, real)) in e.valids.iter().zip(&e.real_valids).enumerate() {
            res.bump(match (mine, real) {
                (true, true) => "body-valid-for-schema-and-implementation",
                (false, false) => "body-invalid-for-schema-and-implementation",
                (false, true) => "body-violates-schema-but-implementation-accepts",
                (true, false) => "body-satisfies-schema-but-implementation-refuses",
            });
            if mine != real && res.notes.len() < 8 {
                res.notes.push(format!("case {case_id} body {k}: schema judge says valid={mine}, rip_openresponses::validate_create_response_body says valid={real}"));
            }
        }
        if let Some(b) = &e.rejected {
            // the refusal frame reports the validator's messages for the refused body (model: payload_errors POST_KEEP)
            let frame_errors: Vec<String> = o.frames.iter().rev().find(|f| f["type"] == "provider_event" && f["data"].is_null() && f["raw"].is_string() && f["errors"].as_array().map(|a| !a.is_empty()).unwrap_or(false)).and_then(|f| f["errors"].as_array().map(|a| a.iter().filter_map(|x| x.as_str().map(String::from)).collect())).unwrap_or_default();
            let msgs = rip_openresponses::validate_create_response_body(b).err().unwrap_or_default();
            res.bump(if frame_errors == msgs { "refusal-frame-errors=the-validator-messages" } else if frame_errors.len() == msgs.len() { "refusal-frame-errors=as-many-as-the-validator-messages-but-rewritten" } else { "refusal-frame-errors=another-number-than-the-validator-messages" });
        }
        if e.rejected.is_some() {
            // what made the refused payload invalid (first error of the schema judge, without the instance)
            let why = e.refused_why.first().map(|w| refusal_kind(w)).unwrap_or_else(|| "nothing (valid for the schema)".into());
            res.bump(&format!("refused-because={why}"));
        }
        // how long the validator's messages get, and whether a character lies across one of the pivot bytes in them
        // (information: the messages are the implementation's; the verdicts above are the judge's)
        for (b, valid) in o.bodies.iter().chain(e.rejected.iter()).zip(&e.valids) {
            if *valid {
                continue;
            }
            let msgs = rip_openresponses::validate_create_response_body(b).err().unwrap_or_default();
            let longest = msgs.iter().map(|m| m.len()).max().unwrap_or(0);
            res.bump(&format!("invalid-body-longest-validator-message={}", match longest { 0 => "none", 1..=256 => "<=256", 257..=1024 => "<=1Ki", 1025..=2048 => "<=2Ki", 2049..=4096 => "<=4Ki", 4097..=8192 => "<=8Ki", _ => ">8Ki" }));
            for p in &pivots {
                if msgs.iter().any(|m| sized::straddles(m, *p)) {
                    res.bump(&format!("invalid-body-validator-message-with-a-character-across-byte-{p}"));
                }
            }
        }
        if i >= n_before_sized && !c.payloads.is_empty() {
            let pay = &c.payloads[0];
            res.bump("sized-run");
            res.bump(&format!("sized-kind={}", c.prompt.split(' ').nth(2).unwrap_or("?")));
            res.bump(&format!("sized-block={}", c.prompt.split(' ').nth(3).unwrap_or("?")));
            res.bump(&format!("sized-char-width={}", match pay.width { 0 => "mixed".to_string(), 5 => "json-escapes".to_string(), w => w.to_string() }));
            res.bump(&format!("sized-payload-bytes={}", match pay.size { 0..=64 => "<=64", 65..=1024 => "<=1Ki", 1025..=2048 => "<=2Ki", 2049..=4096 => "<=4Ki", 4097..=8192 => "<=8Ki", _ => ">8Ki" }));
            res.bump(&format!("sized-reason={}", e.reason));
            let carrier = c.rounds.first().and_then(|rd| rd.expected.as_ref()).and_then(|x| x.iter().find(|k| k.args.contains("big/p0") || k.args.contains("m/tZ")).map(|k| k.name.clone())).unwrap_or_default();
            res.bump(&format!("sized-carrier={carrier}"));
        }
        res.bump(&format!("loop-mode={}", if c.stateless { "stateless" } else { "stateful" }));
        res.bump(&format!("loop-requests={}", match o.bodies.len() { 0 => "0", 1 => "1", 2 => "2", 3..=4 => "3-4", _ => "5+" }));
        res.bump_by("loop-tool-calls", e.done.iter().map(|d| d.len() as u64).sum());
        res.bump_by("loop-tool-refused", e.done.iter().map(|d| d.iter().filter(|x| !x.0).count() as u64).sum());
        res.oracle_checks += 1;
        for (what, class) in loop_oracle(c, o, &e) {
            // the first failing case of a class is reported shrunk
            let replay = if shrunk_classes.insert(class.clone()) && shrunk_classes.len() <= 4 {
                json!({"loop": shrink_loop(&rt, c, &class), "shrunk_from_case": case_id})
            } else {
                cj.clone()
            };
            res.oracle_violations.push(OracleViolation { case_id, what, class, replay });
        }
        for rd in c.rounds.iter().take(o.bodies.len()) {
            if rd.mode == 0 {
                res.bump(&format!("loop-answer-tail={}", rd.tail));
                if matches!(rd.tail, 1 | 4) && rd.events.last().map(is_fc_done).unwrap_or(false) {
                    res.bump("loop-call-delivered-by-finish");
                }
            }
        }
        if !a.oracle_only() {
            let id = if c.payloads.is_empty() { w.push(coq_loop_case(c, &e)) } else { wz.push(coq_loop_case(c, &e)) };
            if res.case_index.len() < 6000 {
                res.case_index.insert(id.to_string(), cj.clone());
            }
            // the same run from the bytes: every run with a special tail, every corpus run, one in three of the others
            // (answers of more than 48 KB in total stay event-level: parsing them inside Coq costs seconds)
            let special = c.rounds.iter().any(|rd| rd.tail != 0);
            // (thorough: at most 1200 runs, a case costs about half a second of vm_compute)
            if (special || i % 3 == 0 || i < n_corpus) && loop_body_bytes(c) <= 48_000 && n_from_bytes < 1200 {
                n_from_bytes += 1;
                let id = wb.push(coq_loop_case_b(c, &e));
                res.bump("loop-compared-from-the-bytes");
                if res.case_index.len() < 6000 {
                    res.case_index.insert(id.to_string(), cj.clone());
                }
            }
        }
        if loop_nontrivial(c, &e) {
            distinct.add(&serde_json::to_string(c).unwrap());
        }
        if res.samples.len() < 3 && e.done.iter().map(|d| d.len()).sum::<usize>() >= 2 {
            res.samples.push(json!({"loop": c, "reason": e.reason, "requests": o.bodies.len()}));
        }
    }
    w.flush();
    wb.flush();
    wz.flush();
    res.distinct_nontrivial = distinct.count();
    res.case_files = w.files.iter().chain(wb.files.iter()).chain(wz.files.iter()).map(|p| p.display().to_string()).collect();
    // keep the evidence small: one violation per class is enough, the rest is counted
    let mut per_class: BTreeMap<String, usize> = BTreeMap::new();
    res.oracle_violations.retain(|v| {
        let n = per_class.entry(v.class.clone()).or_insert(0);
        *n += 1;
        *n <= 3
    });
    for (k, n) in &per_class {
        res.notes.push(format!("oracle class {k}: {n} violations"));
    }
    for u in schemas().unknown.lock().unwrap().iter() {
        res.notes.push(format!("schema judge: construct not understood (counted as satisfied): {u}"));
    }
    res.write(&a.out);
    println!("c16: {} cases, {} distinct non-trivial, {} oracle violations, {} panics", res.evaluations, res.distinct_nontrivial, res.oracle_violations.len(), res.impl_panics);
}
