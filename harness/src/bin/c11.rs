//! C11 — workspace mutations never overlap and are logged in the order they happened.
//!
//! Real `SessionEngine` (+ its `TaskEngine`) on a scratch workspace.  Every actor of a scenario (a
//! session with a tool-envelope input, a checkpoint envelope, a provider-driven session with several
//! tool calls, a background shell task) is driven in lock step: actors park at the `ws.*` hook
//! points placed around the lock spans (identified by their tokio task id), `bash`/task commands
//! append `enter/exit <actor>` markers to a file and block on a FIFO the harness controls.  The
//! harness ATTEMPTS overlaps: it lets an actor go for the lock while another one is inside its
//! mutating section / between tool end and side-effects append, and watches that nothing happens
//! (settle time) — then the marker file, the workspace files, the thread's frames say what really
//! happened.
//!
//! Oracle (property on the implementation, no model): marker sections of mutating actors never
//! overlap; no workspace file of a mutating tool changes while another mutating section is open;
//! read-only tools complete while a mutating section is open; a thread-attached mutating tool call
//! has exactly one side-effects frame, absent while the tool runs, before the run's run_ended
//! frame, naming the changed files; frame order = order in which the mutations ended.
//! Correspondence: the observed micro-steps (+ blocked attempts) are replayed in the Coq LTS
//! compiled from the regenerated spans (Model.WsLockCase.check_case).
#[path = "c11/bg.rs"]
mod bg;
#[path = "c11/fx.rs"]
mod fx;
#[path = "../ws_common.rs"]
mod ws_common;
use rv::*;
use serde_json::{json, Value};
use std::collections::{BTreeMap, HashMap};
use std::io::Write as _;
use std::path::{Path, PathBuf};
use std::sync::{Arc, Condvar, Mutex};
use std::time::{Duration, Instant};

use rip_kernel::{Event, EventKind};
use ripd::{ContinuityRunLink, SessionEngine};

// ------------------------------------------------------------------------------------ scenario
#[derive(Clone, Copy, Debug, PartialEq, Eq, serde::Serialize, serde::Deserialize)]
enum Kind {
    Bash,       // blocking bash (FIFO), markers
    Shell,      // the alias `shell`, blocking, markers
    BashQuick,  // bash that only writes its markers
    BashTimeout, // blocking bash with `timeout_ms`: the call ends by timeout while the command sits in its FIFO
    Write,
    Patch,
    Unknown,    // a tool name nobody registered
    Read,
    Ls,
    Grep,
    Fetch,
    CkptCreate,
    CkptRewind,
    Task,       // background shell task (pipes), blocking, markers
    TaskPty,
    Loop,       // provider-driven session: several tool calls (see `LOOP_CALLS`)
    /// a write / apply_patch / bash call whose FILE EFFECTS are the point (shape `fx::shape(n, ..)`): the frame's
    /// affected_paths against the workspace diff of the call
    Fx(u32),
    /// a shell command (pipes task / pty task / bash tool, `bg::site`) whose shell returns at once and leaves a
    /// child behind that writes the workspace later (`bg::shape`: still attached to the execution's pipes or not)
    Bg(u32),
}
use Kind::*;

impl Kind {
    fn is_task(self) -> bool {
        matches!(self, Task | TaskPty) || matches!(self, Bg(n) if bg::is_task(n))
    }
    fn bg_attached(self) -> bool {
        matches!(self, Bg(n) if bg::attached(n))
    }
    fn is_bg(self) -> bool {
        matches!(self, Bg(_))
    }
    fn is_ckpt(self) -> bool {
        matches!(self, CkptCreate | CkptRewind)
    }
    fn tool_name(self) -> &'static str {
        match self {
            Bash | BashQuick | BashTimeout => "bash",
            Shell => "shell",
            Write => "write",
            Patch => "apply_patch",
            Unknown => "frobnicate",
            Read => "read",
            Ls => "ls",
            Grep => "grep",
            Fetch => "artifact_fetch",
            Fx(n) => fx::tool_name(n),
            Bg(n) if !bg::is_task(n) => "bash",
            _ => "",
        }
    }
    /// the property text's classification (independent of the code's `matches!` list)
    fn spec_readonly(self) -> bool {
        matches!(self, Read | Ls | Grep | Fetch)
    }
    fn spec_mutating_tool(self) -> bool {
        matches!(self, Bash | Shell | BashQuick | BashTimeout | Write | Patch | Fx(_)) || matches!(self, Bg(n) if !bg::is_task(n))
    }
    fn blocking(self) -> bool {
        // an attached child keeps the section of its execution open until the harness lets it write
        matches!(self, Bash | Shell | BashTimeout | Task | TaskPty) || self.bg_attached()
    }
    fn needs_fifo(self) -> bool {
        self.blocking() || self.is_bg()
    }
    fn marks(self) -> bool {
        matches!(self, Bash | Shell | BashQuick | BashTimeout | Task | TaskPty | Bg(_)) || matches!(self, Fx(n) if fx::class(n) == fx::CLASS_BASH)
    }
    /// the tool of the call as the property classifies it: a shell command (its frame carries no file list)
    fn is_shell_tool(self) -> bool {
        matches!(self, Bash | Shell | BashQuick | BashTimeout) || matches!(self, Fx(n) if fx::class(n) == fx::CLASS_BASH) || matches!(self, Bg(n) if !bg::is_task(n))
    }
}

fn fx_dir(i: usize, c: usize) -> String {
    format!("fx{i}_{c}")
}

/// the workspace without `.rip`
fn ws_listing(ws: &Path) -> ws_common::Listing {
    let mut l = ws_common::list_tree(ws);
    // `late_<actor>.txt`: written by the children `Bg` commands leave behind, at moments the harness chooses (a
    // DETACHED child writes while somebody else's call is in its span: not part of that call's diff)
    l.retain(|c, _| c.first().map(|x| x.as_slice() != b".rip" && !x.starts_with(b"late_")).unwrap_or(true));
    l
}
fn listing_files(l: &ws_common::Listing) -> BTreeMap<String, Vec<u8>> {
    ws_common::files_only(l).into_iter().map(|(c, b)| (ws_common::show_comps(&c), b)).collect()
}

#[derive(Clone, Debug, serde::Serialize, serde::Deserialize)]
struct ActorSpec {
    kind: Kind,
    linked: bool,
    /// Loop only: the tool calls the scripted provider asks for, one per response
    #[serde(default)]
    calls: Vec<Kind>,
    /// Loop only: all calls arrive in ONE provider response (the `for call in tool_calls` loop)
    #[serde(default)]
    batch: bool,
}

#[derive(Clone, Debug, serde::Serialize, serde::Deserialize)]
struct Scenario {
    actors: Vec<ActorSpec>,
    /// Go(actor) sequence; empty = generate on line from `seed`
    gos: Vec<usize>,
    seed: u64,
}

// ------------------------------------------------------------------------------------ hook control
#[derive(Default)]
struct CtlInner {
    active: bool,
    by_task: HashMap<tokio::task::Id, usize>,
    starting: Option<usize>,
    parked: BTreeMap<usize, &'static str>,
    last_point: BTreeMap<usize, &'static str>,
    linked: BTreeMap<usize, bool>,
    grants: BTreeMap<usize, u64>,
    seen: BTreeMap<usize, u64>,
    free_run: bool,
}
struct Ctl {
    mu: Mutex<CtlInner>,
    cv: Condvar,
}
impl Ctl {
    fn hook(&self, name: &'static str) {
        let is_ws = name.starts_with("ws.");
        if !is_ws && name != "cont.before_lock" {
            return;
        }
        let Some(tid) = tokio::task::try_id() else { return };
        let mut g = self.mu.lock().unwrap();
        if !g.active || g.free_run {
            return;
        }
        let actor = match g.by_task.get(&tid) {
            Some(a) => *a,
            None => {
                if !is_ws {
                    return;
                }
                match g.starting.take() {
                    Some(a) => {
                        g.by_task.insert(tid, a);
                        a
                    }
                    None => return,
                }
            }
        };
        if !is_ws {
            // the append of the side-effects frame: the first continuity append after `emitted`
            let after_emitted = g.last_point.get(&actor).map(|p| *p == "ws.tool.emitted" || *p == "ws.loop.emitted").unwrap_or(false);
            if !after_emitted || !g.linked.get(&actor).copied().unwrap_or(false) {
                return;
            }
        }
        g.parked.insert(actor, name);
        g.last_point.insert(actor, name);
        self.cv.notify_all();
        drop(g);
        // the worker thread is about to block: hand its run queue (and LIFO slot) to another thread
        tokio::task::block_in_place(|| {
            let mut g = self.mu.lock().unwrap();
            loop {
                let granted = *g.grants.get(&actor).unwrap_or(&0);
                let seen = *g.seen.get(&actor).unwrap_or(&0);
                if granted > seen || g.free_run {
                    g.seen.insert(actor, seen + 1);
                    g.parked.remove(&actor);
                    return;
                }
                g = self.cv.wait(g).unwrap();
            }
        })
    }
    fn reset(&self, linked: &[bool]) {
        let mut g = self.mu.lock().unwrap();
        *g = CtlInner::default();
        g.active = true;
        for (i, l) in linked.iter().enumerate() {
            g.linked.insert(i, *l);
        }
    }
    fn free_all(&self) {
        let mut g = self.mu.lock().unwrap();
        g.free_run = true;
        self.cv.notify_all();
    }
    fn set_starting(&self, a: usize) {
        self.mu.lock().unwrap().starting = Some(a);
    }
    fn parked_at(&self, a: usize) -> Option<&'static str> {
        self.mu.lock().unwrap().parked.get(&a).copied()
    }
    fn grant(&self, a: usize) {
        let mut g = self.mu.lock().unwrap();
        g.parked.remove(&a);
        *g.grants.entry(a).or_insert(0) += 1;
        self.cv.notify_all();
    }
}

// ------------------------------------------------------------------------------------ one run
#[derive(Clone, Copy, Debug, PartialEq, Eq)]
enum Status {
    NotStarted,
    Parked(&'static str),
    Inside,  // in its FIFO-blocked command
    Blocked, // went for the lock, did not come back
    Done,
}

const LONG: Duration = Duration::from_secs(90);
/// watchdog for a read-only tool call of an envelope session reaching its first hook point (the tool has run):
/// it takes no lock and touches a workspace of a handful of files, so 40 s is three orders of magnitude more than
/// it needs; a call that is still not through while a mutating call is in progress was made to wait for it
const RO_LONG: Duration = Duration::from_secs(40);

#[derive(Default)]
struct Obs {
    /// `Bg`: attached children whose write came before their execution ended / detached children that wrote
    /// after their execution had handed the lock on (while somebody else was inside its span / afterwards)
    bg_held: u64,
    bg_detached_in_span: u64,
    bg_detached_late: u64,
    /// lock and process-tree events in the order the harness saw them: (code, actor) with 1 acquired,
    /// 2 the shell of a `Bg` command has exited, 3 its child wrote the workspace, 4 the execution ended
    /// (`.ran` / `ws.task.done` reached), 5 released
    tev: Vec<(u64, u64)>,
    steps: Vec<(u64, u64, u64)>,
    /// order in which the harness saw mutating tool calls of linked actors end: (actor, call)
    ends_linked: Vec<(usize, u64)>,
    violations: Vec<(String, String)>, // (class, what)
    blocked_attempts: u64,
    ro_overlaps: u64,
    intrusions: u64,
    /// calls that ended while their command was still running
    outlived: u64,
}

struct Run<'a> {
    sc: &'a Scenario,
    ctl: Arc<Ctl>,
    engine: SessionEngine,
    store: Arc<ripd::ContinuityStore>,
    thread: String,
    data: PathBuf,
    ws: PathBuf,
    side: PathBuf, // markers + fifos (outside the workspace)
    status: Vec<Status>,
    ids: Vec<String>, // session id / task id
    fifos: Vec<Option<std::fs::File>>,
    call: Vec<u64>, // current call index (Loop)
    rewind_id: Option<String>,
    settle: Duration,
    /// how long an execution whose shell has exited is watched for ending while its attached child is pending
    drain_wait: Duration,
    /// `Bg` actors whose detached child has not been let go yet
    detached_pending: Vec<usize>,
    obs: Obs,
    files_seen: BTreeMap<String, Vec<u8>>,
    providers: Vec<rv::provider::ScriptedProvider>,
    /// an actor that got the lock although the hook points say somebody else is still inside its span:
    /// it is driven on alone so that the consequence shows (its frame lands before the owner's)
    task_handles: Vec<Option<ripd::verif::VerifTask>>,
    cancelled: Vec<bool>,
    ws_before: BTreeMap<String, Vec<u8>>,
    ws_before_listing: ws_common::Listing,
    /// workspace listing when the call got the lock / when its tool had returned
    call_fs: BTreeMap<(usize, u64), (ws_common::Listing, ws_common::Listing)>,
    changed_by: BTreeMap<(usize, u64), Vec<String>>,
    priority: Option<usize>,
    attempted: std::collections::BTreeSet<String>,
    span_owner: Option<usize>, // actor between `acquired` and its release, by the hook points
    tool_running: bool,        // ... and its tool has not come back yet
}

fn marker_path(side: &Path) -> PathBuf {
    side.join("markers")
}

fn read_markers_pid(side: &Path) -> Vec<(usize, u64, Option<i32>)> {
    let s = std::fs::read_to_string(marker_path(side)).unwrap_or_default();
    let mut v = vec![];
    for l in s.lines() {
        let mut it = l.split_whitespace();
        let (Some(w), Some(a)) = (it.next(), it.next()) else { continue };
        let Ok(a) = a.parse::<usize>() else { continue };
        let pid = it.next().and_then(|p| p.parse::<i32>().ok());
        match w {
            "enter" => v.push((a, 0, pid)),
            "exit" => v.push((a, 1, pid)),
            _ => {}
        }
    }
    v
}

fn read_markers(side: &Path) -> Vec<(usize, u64)> {
    read_markers_pid(side).into_iter().map(|(a, w, _)| (a, w)).collect()
}

/// the process exists and is not a zombie
fn pid_running(pid: i32) -> bool {
    match std::fs::read_to_string(format!("/proc/{pid}/stat")) {
        Err(_) => false,
        Ok(s) => match s.rfind(')') {
            Some(k) => !matches!(s[k + 1..].trim_start().chars().next(), Some('Z') | Some('X') | None),
            None => false,
        },
    }
}

fn open_sections(marks: &[(usize, u64)]) -> Vec<usize> {
    let mut open: Vec<usize> = vec![];
    for (a, w) in marks {
        if *w == 0 {
            open.push(*a);
        } else {
            open.retain(|x| x != a);
        }
    }
    open
}

impl<'a> Run<'a> {
    fn actor_file(&self, i: usize) -> String {
        format!("w{i}.txt")
    }
    fn call_file(&self, i: usize, c: usize) -> String {
        if self.sc.actors[i].kind == Loop {
            format!("w{i}_{c}.txt")
        } else {
            self.actor_file(i)
        }
    }

    fn command(&self, i: usize, blocking: bool) -> String {
        let m = marker_path(&self.side);
        if blocking {
            format!("echo enter {i} $$ >> {m}; read _ < {f}; echo exit {i} >> {m}", m = m.display(), f = self.side.join(format!("fifo{i}")).display())
        } else {
            format!("echo enter {i} $$ >> {m}; echo exit {i} >> {m}", m = m.display())
        }
    }

    fn late_file(&self, i: usize) -> String {
        format!("late_{i}.txt")
    }
    fn bg_command(&self, i: usize, n: u32) -> String {
        bg::command(
            n,
            i,
            &marker_path(&self.side).to_string_lossy(),
            &self.side.join(format!("fifo{i}")).to_string_lossy(),
            &self.ws.join(self.late_file(i)).to_string_lossy(),
            Path::new("/usr/bin/setsid").exists(),
        )
    }
    /// the marker file holds the line `<word> <i> ..`; its third field
    fn marker_line(&self, word: &str, i: usize) -> Option<Option<i32>> {
        let s = std::fs::read_to_string(marker_path(&self.side)).unwrap_or_default();
        for l in s.lines() {
            let mut it = l.split_whitespace();
            if it.next() == Some(word) && it.next().and_then(|a| a.parse::<usize>().ok()) == Some(i) {
                return Some(it.next().and_then(|p| p.parse::<i32>().ok()));
            }
        }
        None
    }
    fn wait_marker(&self, word: &str, i: usize, limit: Duration) -> Option<Option<i32>> {
        let t0 = Instant::now();
        loop {
            if let Some(x) = self.marker_line(word, i) {
                return Some(x);
            }
            if t0.elapsed() > limit {
                return None;
            }
            std::thread::sleep(Duration::from_millis(3));
        }
    }
    fn release_fifo(&mut self, i: usize) {
        if let Some(f) = self.fifos[i].as_mut() {
            let _ = f.write_all(b"x\n");
            let _ = f.flush();
        }
    }
    /// the child of `Bg` actor i has been let go: its write shows up (true), or the child is gone without one.
    /// Decided by what is observed (the marker line / the process table), not by a clock; LONG is the watchdog.
    fn await_late(&mut self, i: usize) -> bool {
        let pid = self.wait_marker("child", i, LONG).flatten();
        let t0 = Instant::now();
        loop {
            if self.marker_line("late", i).is_some() {
                self.obs.tev.push((3, i as u64));
                return true;
            }
            if !pid.map(pid_running).unwrap_or(false) {
                // one more look: the line may have been written just before the process went
                if self.marker_line("late", i).is_some() {
                    self.obs.tev.push((3, i as u64));
                    return true;
                }
                return false;
            }
            if t0.elapsed() > LONG {
                self.viol("stuck", format!("the child of actor {i} was released from its FIFO and neither wrote nor went away within {LONG:?}"));
                return false;
            }
            std::thread::sleep(Duration::from_millis(3));
        }
    }
    /// detached children (all inherited streams closed) of executions that have ended: let them write now
    /// (`inside`: an actor that has just acquired the lock).  Nothing is demanded of them - the execution
    /// cannot know them any more; what the code does is counted and reported in the notes.
    fn flush_detached(&mut self, inside: Option<usize>) {
        let pend: Vec<usize> = self.detached_pending.iter().copied().filter(|d| Some(*d) != inside && self.span_owner != Some(*d)).collect();
        for d in pend {
            self.detached_pending.retain(|x| *x != d);
            self.release_fifo(d);
            if self.await_late(d) {
                if inside.is_some() {
                    self.obs.bg_detached_in_span += 1;
                } else {
                    self.obs.bg_detached_late += 1;
                }
            }
        }
    }

    /// An execution whose shell has exited while a child of the command, still holding one of the execution's
    /// output streams, sits in its FIFO: it must stay in progress.  Watched for `drain_wait`; when it ends all the
    /// same, the consequence is played out - the lock is handed on, a queued mutating actor takes it, THEN the child
    /// is let go - and judged by the order of the observed events.  true = the execution ended early (handled here).
    fn bg_window(&mut self, i: usize) -> bool {
        let Bg(n) = self.cur_kind(i) else { return false };
        if self.wait_marker("shellexit", i, LONG).is_none() {
            self.viol("stuck", format!("the shell of actor {i} ({}) did not get past starting its child within {LONG:?}", bg::tag(n)));
            return true;
        }
        self.obs.tev.push((2, i as u64));
        let child = self.wait_marker("child", i, LONG).flatten();
        let st = self.wait_actor(i, self.drain_wait, false);
        let Status::Parked(p) = st else { return false };
        self.status[i] = st;
        self.tool_running = false;
        self.obs.tev.push((4, i as u64));
        self.ended(i);
        if !child.map(pid_running).unwrap_or(false) {
            return true; // nothing of the command tree is left: the end is the end
        }
        // hand the lock on
        let mut guard = 0;
        while let Status::Parked(q) = self.status[i] {
            guard += 1;
            if guard > 8 || self.span_owner != Some(i) {
                break;
            }
            self.go_from(i, q);
        }
        // somebody to take it
        if self.span_owner.is_none() {
            let cand = (0..self.status.len()).find(|j| *j != i && matches!(self.status[*j], Status::Parked(q) if q.ends_with(".before_acquire")));
            if let Some(j) = cand {
                self.go(j);
            }
        }
        let holder = self.span_owner.filter(|j| *j != i);
        let free = ripd::verif::workspace_lock_free(&self.engine);
        self.release_fifo(i);
        if self.await_late(i) {
            let pid = child.unwrap_or(0);
            let tag = bg::tag(n);
            if bg::site(n) == bg::SITE_TOOL_TIMEOUT {
                // the call was abandoned by its `timeout_ms`: kill_on_drop takes the shell, not what the shell started
                self.viol("overlap(timeout-survivor)", format!("{tag}: the bash call of actor {i} was abandoned by its timeout_ms (reached {p}: tool_failed timeout, lock released) while a child of its command (pid {pid}) was alive and still held the call's output stream(s) - the runner kills the shell only; {} and the child wrote {} - order of the observed events: {i} ended, {i} released, {}write by {i}'s command tree", match holder { Some(j) => format!("actor {j} ({:?}) then acquired the lock", self.sc.actors[j].kind), None => "nobody held the lock".to_string() }, self.late_file(i), match holder { Some(j) => format!("{j} acquired, "), None => String::new() }));
                return true;
            }
            match holder {
                Some(j) => self.viol("overlap", format!("{tag}: actor {i} ended its execution (reached {p}) and handed the workspace lock on while a child of its command (pid {pid}) was alive and still held the execution's output stream(s); actor {j} ({:?}) then acquired the lock, and the child wrote {} while {j} was inside its span - order of the observed events: {i} ended, {i} released, {j} acquired, write by {i}'s command tree", self.sc.actors[j].kind, self.late_file(i))),
                None => self.viol("unlocked-mutation", format!("{tag}: actor {i} ended its execution (reached {p}) and gave the workspace lock back (lock free: {free}) while a child of its command (pid {pid}) was alive and still held the execution's output stream(s); the child then wrote {} with nobody holding the lock for it", self.late_file(i))),
            }
        }
        true
    }

    fn tool_args(&self, i: usize, c: usize, k: Kind) -> Value {
        match k {
            Bg(n) => json!({"command": self.bg_command(i, n)}),
            Bash | Shell | BashQuick | BashTimeout => json!({"command": self.command(i, k.blocking())}),
            Write => json!({"path": self.call_file(i, c), "content": format!("by {i}\n")}),
            Patch => {
                // add one file, update a second, delete a third (all private to this call)
                let f = self.call_file(i, c);
                json!({"patch": format!("*** Begin Patch\n*** Add File: {f}\n+by {i}\n*** Update File: u_{f}\n@@\n-old\n+new by {i}\n*** Delete File: d_{f}\n*** End Patch\n")})
            }
            Read => json!({"path": "seed.txt"}),
            Ls => json!({"path": "."}),
            Grep => json!({"pattern": "seed", "path": "."}),
            Fetch => json!({"id": "0".repeat(64)}),
            Fx(n) => match fx::shape(n, &fx_dir(i, c), &self.ws).tool {
                fx::Tool::Write { path, content, mode } => fx::write_args(&path, &content, mode),
                fx::Tool::Patch { text } => json!({"patch": text}),
                fx::Tool::Bash { effects } => {
                    let m = marker_path(&self.side);
                    json!({"command": format!("echo enter {i} $$ >> {m}; {}; echo exit {i} >> {m}", fx::bash_script(&effects), m = m.display())})
                }
            },
            _ => json!({}),
        }
    }

    fn input_for(&self, i: usize) -> String {
        let k = self.sc.actors[i].kind;
        let v = match k {
            CkptCreate => json!({"checkpoint": {"action": "create", "label": format!("c{i}"), "files": ["seed.txt"]}}),
            CkptRewind => json!({"checkpoint": {"action": "rewind", "id": self.rewind_id.clone().unwrap_or_default()}}),
            Loop => return format!("please run the tools (actor {i})"),
            BashTimeout => json!({"tool": "bash", "args": self.tool_args(i, 0, k), "timeout_ms": 400}),
            Bg(n) if bg::site(n) == bg::SITE_TOOL_TIMEOUT => json!({"tool": "bash", "args": self.tool_args(i, 0, k), "timeout_ms": 400}),
            _ => json!({"tool": k.tool_name(), "args": self.tool_args(i, 0, k)}),
        };
        v.to_string()
    }

    /// the kind of the call actor i is at
    fn cur_kind(&self, i: usize) -> Kind {
        let a = &self.sc.actors[i];
        if a.kind == Loop {
            a.calls.get(self.call[i] as usize).copied().unwrap_or(Unknown)
        } else {
            a.kind
        }
    }

    fn provider_script(&self, i: usize) -> Vec<rv::provider::Scripted> {
        let a = &self.sc.actors[i];
        let sse = |lines: &[Value]| {
            let mut s = String::new();
            for l in lines {
                s.push_str(&format!("data: {}\n\n", serde_json::to_string(l).unwrap()));
            }
            s.push_str("data: [DONE]\n\n");
            s
        };
        let mut out = vec![];
        if a.batch {
            let mut lines = vec![json!({"type":"response.created","response":{"id":format!("resp_{i}_all")}})];
            for (c, k) in a.calls.iter().enumerate() {
                let args = self.tool_args(i, c, *k).to_string();
                let cid = format!("call_{i}_{c}");
                lines.push(json!({"type":"response.output_item.added","output_index":c,"item":{"type":"function_call","call_id":cid,"name":k.tool_name(),"arguments":args}}));
                lines.push(json!({"type":"response.output_item.done","output_index":c,"item":{"type":"function_call","call_id":cid,"name":k.tool_name(),"arguments":args}}));
            }
            out.push(rv::provider::Scripted::sse_text(&sse(&lines)));
        } else {
            for (c, k) in a.calls.iter().enumerate() {
                let args = self.tool_args(i, c, *k).to_string();
                let cid = format!("call_{i}_{c}");
                out.push(rv::provider::Scripted::sse_text(&sse(&[
                    json!({"type":"response.created","response":{"id":format!("resp_{i}_{c}")}}),
                    json!({"type":"response.output_item.added","output_index":0,"item":{"type":"function_call","call_id":cid,"name":k.tool_name(),"arguments":args}}),
                    json!({"type":"response.output_item.done","output_index":0,"item":{"type":"function_call","call_id":cid,"name":k.tool_name(),"arguments":args}}),
                ])));
            }
        }
        out.push(rv::provider::Scripted::sse_text(&sse(&[
            json!({"type":"response.created","response":{"id":format!("resp_{i}_end")}}),
            json!({"type":"response.output_text.delta","delta":"done"}),
        ])));
        out
    }

    fn push(&mut self, a: usize, code: u64, call: u64) {
        match code {
            1 => self.obs.tev.push((1, a as u64)),
            6 => self.obs.tev.push((5, a as u64)),
            _ => {}
        }
        self.obs.steps.push((a as u64, code, call));
    }
    fn viol(&mut self, class: &str, what: String) {
        let mut what = what;
        if class == "stuck" && std::env::var("C11_DEBUG").is_ok() {
            let log = std::fs::read_to_string(self.data.join("events.jsonl")).unwrap_or_default();
            for (i, id) in self.ids.iter().enumerate() {
                let kinds: Vec<String> = log.lines().filter_map(|l| serde_json::from_str::<Value>(l).ok()).filter(|v| v.get("session_id").and_then(|s| s.as_str()) == Some(id.as_str())).map(|v| v.get("type").and_then(|t| t.as_str()).unwrap_or("?").to_string()).collect();
                what.push_str(&format!(" | actor {i}: {}", kinds.join(",")));
            }
        }
        if self.obs.violations.len() < 8 {
            self.obs.violations.push((class.to_string(), what));
        }
    }

    fn is_done(&self, i: usize) -> bool {
        let k = self.sc.actors[i].kind;
        if k.is_task() {
            return self.data.join("task_snapshots").join(format!("{}.json", self.ids[i])).exists();
        }
        if !self.data.join("snapshots").join(format!("{}.json", self.ids[i])).exists() {
            return false;
        }
        if self.sc.actors[i].linked {
            let evs = self.store.replay_events(&self.thread).unwrap_or_default();
            return evs.iter().any(|e| matches!(&e.kind, EventKind::ContinuityRunEnded { run_session_id, .. } if *run_session_id == self.ids[i]));
        }
        true
    }

    fn entered(&self, i: usize) -> bool {
        open_sections(&read_markers(&self.side)).contains(&i)
    }

    /// waits until actor i parks, finishes, enters its blocking command, or `limit` elapses
    fn wait_actor(&self, i: usize, limit: Duration, want_inside: bool) -> Status {
        let t0 = Instant::now();
        loop {
            if let Some(p) = self.ctl.parked_at(i) {
                return Status::Parked(p);
            }
            if want_inside && self.entered(i) {
                return Status::Inside;
            }
            if self.is_done(i) {
                return Status::Done;
            }
            if t0.elapsed() >= limit {
                return Status::Blocked;
            }
            let g = self.ctl.mu.lock().unwrap();
            let _ = self.ctl.cv.wait_timeout(g, Duration::from_millis(2)).unwrap();
        }
    }


    fn frames_of(&self, i: usize) -> usize {
        let evs = self.store.replay_events(&self.thread).unwrap_or_default();
        evs.iter().filter(|e| matches!(&e.kind, EventKind::ContinuityToolSideEffects { run_session_id, .. } if *run_session_id == self.ids[i])).count()
    }

    /// workspace files of the write/patch actors changed since the last look
    fn fs_check(&mut self, mover: usize) {
        let marks = read_markers(&self.side);
        let open = open_sections(&marks);
        if open.len() > 1 {
            self.viol("overlap", format!("marker file shows mutating sections of actors {open:?} open at the same time"));
        }
        let mut targets: Vec<(usize, String)> = vec![];
        for i in 0..self.sc.actors.len() {
            let a = &self.sc.actors[i];
            let mut add = |k: Kind, f: String| {
                if matches!(k, Write | Patch) {
                    targets.push((i, f.clone()));
                }
                if k == Patch {
                    targets.push((i, format!("u_{f}")));
                    targets.push((i, format!("d_{f}")));
                }
            };
            add(a.kind, self.actor_file(i));
            for (c, k) in a.calls.iter().enumerate() {
                add(*k, self.call_file(i, c));
            }
            if a.kind.bg_attached() || a.calls.iter().any(|k| k.bg_attached()) {
                targets.push((i, self.late_file(i)));
            }
            let mut addfx = |k: Kind, c: usize| {
                if let Fx(n) = k {
                    if fx::class(n) != fx::CLASS_BASH {
                        let sh = fx::shape(n, &fx_dir(i, c), &self.ws);
                        for p in sh.named.iter().chain(sh.init.iter().map(|(p, _)| p)) {
                            if !p.starts_with('/') && !targets.iter().any(|(_, q)| q == p) {
                                targets.push((i, p.clone()));
                            }
                        }
                    }
                }
            };
            addfx(a.kind, 0);
            for (c, k) in a.calls.iter().enumerate() {
                addfx(*k, c);
            }
        }
        for (i, name) in targets {
            let cur = std::fs::read(self.ws.join(&name)).unwrap_or_default();
            let old = self.files_seen.get(&name).cloned().unwrap_or_default();
            if cur != old {
                self.files_seen.insert(name.clone(), cur);
                if let Some(o) = open.iter().find(|o| **o != i) {
                    self.viol("overlap", format!("workspace file {name} was written by actor {i} while actor {o} was inside its mutating command (step of actor {mover})"));
                }
            }
        }
    }

    fn start(&mut self, i: usize) {
        let spec = self.sc.actors[i].clone();
        self.ctl.set_starting(i);
        if spec.kind.needs_fifo() || spec.calls.iter().any(|k| k.needs_fifo()) {
            let p = self.side.join(format!("fifo{i}"));
            let c = std::ffi::CString::new(p.to_string_lossy().as_bytes()).unwrap();
            unsafe {
                libc::mkfifo(c.as_ptr(), 0o600);
            }
            self.fifos[i] = std::fs::OpenOptions::new().read(true).write(true).open(&p).ok();
        }
        if spec.kind.is_task() {
            let (cmd, pty) = match spec.kind {
                Bg(n) => (self.bg_command(i, n), bg::site(n) == bg::SITE_PTY),
                k => (self.command(i, true), k == TaskPty),
            };
            let h = ripd::verif::spawn_shell_task_handle(&self.engine, "bash", json!({"command": cmd}), pty);
            self.ids[i] = h.task_id();
            self.task_handles[i] = Some(h);
        } else {
            let handle = self.engine.create_session();
            self.ids[i] = handle.session_id.clone();
            let input = self.input_for(i);
            let link = if spec.linked {
                let mid = self.store.append_message(&self.thread, "u".into(), "cli".into(), input.clone()).expect("append message");
                self.store.append_run_spawned(&self.thread, &mid, &self.ids[i], "u".into(), "cli".into()).expect("run spawned");
                Some(ContinuityRunLink { continuity_id: self.thread.clone(), message_id: mid, actor_id: "u".into(), origin: "cli".into() })
            } else {
                None
            };
            let cfg = if spec.kind == Loop {
                let prov = rv::provider::ScriptedProvider::start(self.provider_script(i));
                let cfg = ripd::verif::OpenResponsesConfig {
                    endpoint: prov.url.clone(),
                    api_key: None,
                    model: Some("scripted".into()),
                    headers: vec![],
                    tool_choice: rip_provider_openresponses::ToolChoiceParam::auto(),
                    followup_user_message: None,
                    stateless_history: false,
                    parallel_tool_calls: false,
                };
                self.providers.push(prov);
                Some(cfg)
            } else {
                None
            };
            self.engine.spawn_session(handle, input, link, cfg);
        }
        // a blocking command that shows up in the marker file before the actor reached any hook point
        // runs without having gone for the lock at all
        let first_blocking = spec.kind.blocking() || spec.calls.first().map(|k| k.blocking()).unwrap_or(false);
        let limit = if spec.kind.spec_readonly() { RO_LONG } else { LONG };
        let st = self.wait_actor(i, limit, first_blocking && !spec.kind.is_task());
        self.status[i] = st;
        match st {
            Status::Inside => {
                let k = self.cur_kind(i);
                let others: Vec<usize> = open_sections(&read_markers(&self.side)).into_iter().filter(|o| *o != i).collect();
                if self.span_owner.is_some() || !others.is_empty() {
                    self.viol("overlap", format!("tool {} of actor {i} started its command without going for the workspace lock while actor {:?} held it", k.tool_name(), self.span_owner.or(others.first().copied())));
                } else {
                    self.viol("unlocked-mutation", format!("tool {} of actor {i} started its command without going for the workspace lock", k.tool_name()));
                }
                self.push(i, 2, self.call[i]);
            }
            Status::Parked(p) => self.on_first_park(i, p),
            Status::Done => self.viol("harness", format!("actor {i} ({:?}) finished without reaching a hook point", spec.kind)),
            _ if spec.kind.spec_readonly() && self.span_owner.is_some() && self.tool_running => {
                let o = self.span_owner.unwrap_or(0);
                self.viol("readonly-blocked", format!("read-only tool {} of actor {i} did not complete within {RO_LONG:?} while the mutating call of actor {o} ({:?}) was in progress: read-only tools must overlap it freely", spec.kind.tool_name(), self.sc.actors[o].kind))
            }
            _ => self.viol("stuck", format!("actor {i} ({:?}) did not reach its first hook point within {limit:?}", spec.kind)),
        }
    }

    fn on_first_park(&mut self, i: usize, p: &'static str) {
        let k = self.cur_kind(i);
        if k.is_task() {
            self.push(i, 8, 0); // tool_task_spawned precedes the acquire
            if p != "ws.task.before_acquire" {
                self.viol("harness", format!("task {i} first parked at {p}"));
            }
            return;
        }
        if p.ends_with(".before_acquire") {
            if k.spec_readonly() {
                self.viol("readonly-locked", format!("read-only tool {} of actor {i} goes through the workspace lock ({p})", k.tool_name()));
            }
            return;
        }
        if p.ends_with("ro.ran") {
            // the tool ran without the lock (a name nobody registered changes nothing: either way is fine)
            if k.spec_mutating_tool() {
                let open = open_sections(&read_markers(&self.side));
                if self.span_owner.is_some() || !open.is_empty() {
                    self.viol("overlap", format!("mutating tool {} of actor {i} ran without the workspace lock while actor {:?} held it", k.tool_name(), self.span_owner.or(open.first().copied())));
                } else {
                    self.viol("unlocked-mutation", format!("mutating tool {} of actor {i} ran without the workspace lock", k.tool_name()));
                }
            } else if self.span_owner.is_some() && self.tool_running {
                self.obs.ro_overlaps += 1;
            }
            self.push(i, 2, self.call[i]);
            self.push(i, 3, self.call[i]);
            self.fs_check(i);
            return;
        }
        self.viol("harness", format!("actor {i} first parked at unexpected point {p}"));
    }

    fn lock_presumed_held(&self) -> bool {
        self.span_owner.is_some()
    }

    /// one Go of actor i; returns false when the actor cannot move
    fn go(&mut self, i: usize) -> bool {
        match self.status[i] {
            Status::NotStarted => {
                self.start(i);
                true
            }
            Status::Done | Status::Blocked => false,
            Status::Inside => {
                // release the FIFO; the command writes its exit marker and returns (a call with a
                // timeout is left alone: it ends by itself while the command still sits in its FIFO)
                let bgk = self.cur_kind(i).is_bg();
                if bgk && self.bg_window(i) {
                    self.fs_check(i);
                    return true;
                }
                if self.cur_kind(i) == BashTimeout {
                } else {
                    self.release_fifo(i);
                }
                let wrote = bgk && self.await_late(i);
                let st = self.wait_actor(i, LONG, false);
                self.status[i] = st;
                match st {
                    Status::Parked(p) if p.ends_with(".ran") || p == "ws.task.done" => {
                        self.tool_running = false;
                        if bgk {
                            self.obs.tev.push((4, i as u64));
                            if wrote {
                                self.obs.bg_held += 1;
                            }
                        }
                        self.ended(i);
                    }
                    Status::Done => self.viol("untracked", format!("actor {i} released from its FIFO finished without passing a hook point")),
                    other => self.viol("stuck", format!("actor {i} released from its FIFO came back as {other:?}")),
                }
                self.fs_check(i);
                true
            }
            Status::Parked(p) => {
                self.go_from(i, p);
                self.fs_check(i);
                true
            }
        }
    }

    fn ended(&mut self, i: usize) {
        let c = self.call[i];
        self.push(i, 3, c);
        if self.entered(i) {
            // the call is over but its command never wrote the exit marker (killed by a cancel or a
            // timeout?): the section is over when the process is gone — and still open if it lives on
            let mut pid = read_markers_pid(&self.side).iter().rev().find(|(a, w, _)| *a == i && *w == 0).and_then(|(_, _, p)| *p);
            if self.cur_kind(i).is_bg() {
                // the section is the command TREE's: it is over when the child that closes it is gone
                pid = self.marker_line("child", i).flatten();
            }
            let t0 = Instant::now();
            let mut alive = true;
            // (a `Bg` child sits in a FIFO the harness holds: whether it is there is known, nothing to wait for)
            let patience = if self.cur_kind(i).is_bg() { Duration::ZERO } else { Duration::from_secs(3) };
            while alive && t0.elapsed() <= patience {
                alive = pid.map(pid_running).unwrap_or(false);
                if alive {
                    if patience.is_zero() {
                        break;
                    }
                    std::thread::sleep(Duration::from_millis(5));
                }
            }
            if !alive {
                if let Ok(mut f) = std::fs::OpenOptions::new().append(true).open(marker_path(&self.side)) {
                    let _ = writeln!(f, "exit {i}");
                }
            } else {
                self.obs.outlived += 1;
            }
        }
        // what the call really changed in the workspace (nobody else moved since it was let go)
        let now_listing = ws_listing(&self.ws);
        let now = listing_files(&now_listing);
        self.call_fs.insert((i, c), (self.ws_before_listing.clone(), now_listing));
        let mut changed: Vec<String> = vec![];
        for (k, v) in &now {
            if self.ws_before.get(k) != Some(v) {
                changed.push(k.clone());
            }
        }
        for k in self.ws_before.keys() {
            if !now.contains_key(k) {
                changed.push(k.clone());
            }
        }
        changed.sort();
        changed.dedup();
        self.changed_by.insert((i, c), changed);
        let spec = &self.sc.actors[i];
        if spec.linked && !spec.kind.is_task() && !spec.kind.is_ckpt() {
            self.obs.ends_linked.push((i, c));
        }
    }

    fn go_from(&mut self, i: usize, p: &'static str) {
        let k = self.cur_kind(i);
        let is_loop = self.sc.actors[i].kind == Loop;
        let linked = self.sc.actors[i].linked;
        let c = self.call[i];
        let frames_before = if linked { self.frames_of(i) } else { 0 };
        if p.ends_with(".before_acquire") {
            let held = self.lock_presumed_held();
            if let Some(pos) = self.holder_pos() {
                self.attempted.insert(pos);
            }
            self.ctl.grant(i);
            let st = self.wait_actor(i, if held { self.settle } else { LONG }, k.blocking());
            match st {
                Status::Inside => {
                    // the command is running and the actor never reported the lock
                    self.status[i] = st;
                    let open = open_sections(&read_markers(&self.side));
                    if held || open.len() > 1 {
                        self.viol("overlap", format!("actor {i} ({k:?}) started its mutating command before acquiring the workspace lock while actor {:?} held it", self.span_owner));
                    } else {
                        self.viol("unlocked-mutation", format!("actor {i} ({k:?}) started its mutating command before acquiring the workspace lock"));
                    }
                    self.push(i, 2, c);
                }
                Status::Parked(q) if q.ends_with(".acquired") => {
                    if held {
                        self.intrusion(i);
                    }
                    self.status[i] = st;
                    self.push(i, 1, 0);
                    self.span_owner = Some(i);
                    self.tool_running = false;
                }
                Status::Blocked if held => {
                    self.status[i] = Status::Blocked;
                    self.push(i, 0, 0);
                    self.obs.blocked_attempts += 1;
                }
                other => {
                    self.status[i] = other;
                    self.viol("stuck", format!("actor {i} going for the free lock came back as {other:?}"));
                }
            }
            return;
        }
        if p.ends_with(".acquired") {
            self.flush_detached(Some(i));
            self.ws_before_listing = ws_listing(&self.ws);
            self.ws_before = listing_files(&self.ws_before_listing);
            self.ctl.grant(i);
            self.tool_running = true;
            let st = self.wait_actor(i, LONG, k.blocking());
            self.status[i] = st;
            match st {
                Status::Inside => self.push(i, 2, c),
                Status::Parked(q) if q.ends_with(".ran") || q == "ws.task.done" => {
                    self.push(i, 2, c);
                    self.tool_running = false;
                    if k.is_bg() {
                        // a detached child: the execution saw end-of-stream as soon as the shell was gone
                        self.obs.tev.push((2, i as u64));
                        self.obs.tev.push((4, i as u64));
                        self.detached_pending.push(i);
                    }
                    self.ended(i);
                }
                other => self.viol("stuck", format!("actor {i} running its tool came back as {other:?}")),
            }
            return;
        }
        if p == "ws.task.done" {
            self.ctl.grant(i);
            let st = self.wait_actor(i, LONG, false);
            self.status[i] = st;
            if st != Status::Done {
                self.viol("stuck", format!("task {i} did not finish: {st:?}"));
            }
            self.push(i, 6, 0);
            self.released(i);
            return;
        }
        if p.ends_with(".ran") {
            if linked && frames_before as u64 > self.frames_expected_before(i) {
                self.viol("frame-early", format!("side-effects frame of actor {i} is on the thread before its tool frames were emitted"));
            }
            self.ctl.grant(i);
            let st = self.wait_actor(i, LONG, false);
            self.status[i] = st;
            match st {
                Status::Parked(q) if q.ends_with(".emitted") => self.push(i, 4, c),
                other => self.viol("stuck", format!("actor {i} after .ran came back as {other:?}")),
            }
            return;
        }
        if p.ends_with(".emitted") {
            self.ctl.grant(i);
            let st = self.wait_actor(i, LONG, false);
            self.status[i] = st;
            match st {
                Status::Parked("cont.before_lock") => {}
                Status::Parked(q) if q.ends_with(".appended") => self.appended(i, frames_before, c),
                Status::Done if k.is_ckpt() || p.contains("ro.") => {
                    if !p.contains("ro.") {
                        self.push(i, 6, 0);
                    }
                    self.push(i, 7, 0);
                    if !p.contains("ro.") {
                        self.released(i);
                    }
                }
                Status::Parked(q) if is_loop && p.contains("ro.") => {
                    self.call[i] += 1;
                    self.on_loop_next(i, q);
                }
                other => self.viol("stuck", format!("actor {i} after .emitted came back as {other:?}")),
            }
            return;
        }
        if p == "cont.before_lock" {
            self.ctl.grant(i);
            let st = self.wait_actor(i, LONG, false);
            self.status[i] = st;
            match st {
                Status::Parked(q) if q.ends_with(".appended") => self.appended(i, frames_before, c),
                other => self.viol("stuck", format!("actor {i} appending its frame came back as {other:?}")),
            }
            return;
        }
        if p.ends_with(".appended") {
            self.ctl.grant(i);
            let st = self.wait_actor(i, LONG, false);
            self.status[i] = st;
            self.push(i, 6, 0);
            match st {
                Status::Done => {
                    self.push(i, 7, 0);
                }
                Status::Parked(_) if is_loop => {
                    self.call[i] += 1;
                }
                other => self.viol("stuck", format!("actor {i} after .appended came back as {other:?}")),
            }
            self.released(i);
            if let Status::Parked(q) = st {
                self.on_loop_next(i, q);
            }
            return;
        }
        self.viol("harness", format!("actor {i} parked at unknown point {p}"));
        self.ctl.grant(i);
    }

    fn on_loop_next(&mut self, i: usize, q: &'static str) {
        self.on_first_park(i, q);
    }

    fn frames_expected_before(&self, i: usize) -> u64 {
        // frames of earlier calls of the same run
        self.obs.ends_linked.iter().filter(|(a, c)| *a == i && *c < self.call[i]).count() as u64
    }

    fn appended(&mut self, i: usize, frames_before: usize, c: u64) {
        if self.sc.actors[i].linked {
            let now = self.frames_of(i);
            if now == frames_before + 1 {
                self.push(i, 5, c);
            } else {
                self.viol("frame-count", format!("append step of actor {i} changed its frame count from {frames_before} to {now}"));
            }
        }
    }

    fn intrusion(&mut self, i: usize) {
        self.obs.intrusions += 1;
        self.priority = Some(i);
        let owner = self.span_owner;
        if self.tool_running || owner.map(|o| matches!(self.status[o], Status::Parked(p) if p.ends_with(".acquired"))).unwrap_or(false) {
            self.viol("overlap", format!("actor {i} ({:?}) acquired the workspace lock while actor {owner:?} was inside its lock span with its tool not finished", self.sc.actors[i].kind));
        }
        // otherwise the owner had finished its tool: the consequence (frame order) is judged at the end
    }

    /// the holder left its span: a blocked actor (if any) gets the permit
    fn released(&mut self, i: usize) {
        if self.span_owner == Some(i) {
            self.span_owner = None;
            self.tool_running = false;
        }
        let waiting: Vec<usize> = (0..self.status.len()).filter(|j| self.status[*j] == Status::Blocked).collect();
        if waiting.is_empty() || self.span_owner.is_some() {
            return;
        }
        let t0 = Instant::now();
        loop {
            let arrived: Vec<usize> = waiting.iter().copied().filter(|j| self.ctl.parked_at(*j).is_some()).collect();
            if let Some(j) = arrived.first().copied() {
                let p = self.ctl.parked_at(j).unwrap();
                self.status[j] = Status::Parked(p);
                if p.ends_with(".acquired") {
                    self.push(j, 1, 0);
                    self.span_owner = Some(j);
                    self.tool_running = false;
                } else {
                    self.viol("harness", format!("blocked actor {j} woke up at {p}"));
                }
                if arrived.len() > 1 {
                    self.viol("overlap", format!("actors {arrived:?} all acquired the workspace lock after one release"));
                }
                return;
            }
            // after an intrusion the bookkeeping no longer knows who really holds the permit
            if self.obs.intrusions > 0 && t0.elapsed() > self.settle {
                return;
            }
            if t0.elapsed() > LONG {
                self.viol("stuck", format!("no blocked actor of {waiting:?} got the lock within {LONG:?} after it was released"));
                return;
            }
            let g = self.ctl.mu.lock().unwrap();
            let _ = self.ctl.cv.wait_timeout(g, Duration::from_millis(2)).unwrap();
        }
    }

    /// a blocked actor that has the lock although the presumed holder never left its span
    fn check_blocked_arrivals(&mut self, moved: usize) {
        let Some(owner) = self.span_owner else { return };
        // only a step of the owner can have let the permit go
        let grace = if moved == owner { Duration::from_millis(30) } else { Duration::ZERO };
        for j in 0..self.status.len() {
            if self.status[j] != Status::Blocked || j == owner {
                continue;
            }
            // give a wrongly released permit a moment to reach the waiter (only when someone waits)
            let st = self.wait_actor(j, grace, false);
            if let Status::Parked(p) = st {
                self.status[j] = st;
                if p.ends_with(".acquired") {
                    self.push(j, 1, 0);
                    self.intrusion(j);
                    self.span_owner = Some(j);
                    self.tool_running = false;
                }
                return;
            }
        }
    }

    /// cancel request for a task (the call the HTTP handler makes); a task still queued behind the
    /// lock must keep waiting
    fn cancel(&mut self, i: usize) {
        let Some(h) = self.task_handles[i].as_ref() else { return };
        h.cancel("verif");
        self.cancelled[i] = true;
        if self.status[i] != Status::Blocked {
            return;
        }
        let st = self.wait_actor(i, self.settle, true);
        match st {
            Status::Blocked => {}
            Status::Parked(p) => {
                self.status[i] = st;
                if p.ends_with(".acquired") {
                    self.push(i, 1, 0);
                    if self.span_owner.is_some() {
                        self.intrusion(i);
                    }
                    self.span_owner = Some(i);
                    self.tool_running = false;
                }
            }
            Status::Inside => {
                self.status[i] = st;
                self.viol("overlap", format!("cancelled queued task {i} started its command while actor {:?} held the workspace lock", self.span_owner));
            }
            _ => {}
        }
        self.fs_check(i);
    }

    /// where the presumed holder stands (an attempt is most informative at a position not tried yet)
    fn holder_pos(&self) -> Option<String> {
        self.span_owner.map(|o| format!("{:?}", self.status[o]))
    }

    fn movable(&self, i: usize) -> bool {
        !matches!(self.status[i], Status::Done | Status::Blocked)
    }
}

// ------------------------------------------------------------------------------------ scenario run
struct Outcome {
    gos: Vec<usize>,
    obs: Obs,
    done: Vec<bool>,
    frames: Vec<(u64, u64)>,
    marks: Vec<(u64, u64)>,
    /// one Coq term (Model.SideEffects.fcase) per mutating tool call of an attached run that has its frame
    fx_cases: Vec<String>,
    /// (frames with a file list, listed paths, listed paths the call left unchanged, frames without a list)
    fx_stats: [u64; 4],
    fx_tags: Vec<String>,
    /// one Coq term (Model.WsLockTree.tcase) per `Bg` actor: the lock / process-tree events in observed order
    tree_cases: Vec<String>,
}

fn wait_session_events(rx: &mut tokio::sync::broadcast::Receiver<Event>, limit: Duration) -> Vec<Event> {
    let t0 = Instant::now();
    let mut out = vec![];
    loop {
        match rx.try_recv() {
            Ok(e) => {
                let end = matches!(e.kind, EventKind::SessionEnded { .. });
                out.push(e);
                if end {
                    return out;
                }
            }
            Err(tokio::sync::broadcast::error::TryRecvError::Empty) => {
                if t0.elapsed() > limit {
                    return out;
                }
                std::thread::sleep(Duration::from_millis(2));
            }
            Err(_) => return out,
        }
    }
}

fn run_scenario(rt: &tokio::runtime::Runtime, ctl: &Arc<Ctl>, sc: &Scenario, settle: Duration, max_blocked: u64, drain_wait: Duration) -> Outcome {
    let scratch = Scratch::new("c11");
    let data = scratch.path().join("data");
    let ws = scratch.path().join("ws");
    let side = scratch.path().join("side");
    std::fs::create_dir_all(&ws).unwrap();
    std::fs::create_dir_all(&side).unwrap();
    std::fs::write(ws.join("seed.txt"), "seed\n").unwrap();
    for (i, a) in sc.actors.iter().enumerate() {
        let mk = |k: Kind, f: String| {
            if k == Patch {
                std::fs::write(ws.join(format!("u_{f}")), "old\n").unwrap();
                std::fs::write(ws.join(format!("d_{f}")), "bye\n").unwrap();
            }
        };
        mk(a.kind, format!("w{i}.txt"));
        for (c, k) in a.calls.iter().enumerate() {
            mk(*k, format!("w{i}_{c}.txt"));
        }
        let mkfx = |k: Kind, c: usize| {
            if let Fx(n) = k {
                for (p, content) in fx::shape(n, &fx_dir(i, c), &ws).init {
                    let path = ws.join(&p);
                    std::fs::create_dir_all(path.parent().unwrap()).unwrap();
                    std::fs::write(path, content).unwrap();
                }
            }
        };
        mkfx(a.kind, 0);
        for (c, k) in a.calls.iter().enumerate() {
            mkfx(*k, c);
        }
    }
    std::fs::write(marker_path(&side), "").unwrap();
    let _g = rt.enter();
    let engine = SessionEngine::new(data.clone(), ws.clone(), None).expect("engine");
    let store = engine.continuities();
    let thread = store.ensure_default().expect("thread");
    let n = sc.actors.len();

    // setup (hooks pass through): a checkpoint for the rewind actors
    ctl.mu.lock().unwrap().active = false;
    let mut rewind_id = None;
    if sc.actors.iter().any(|a| a.kind == CkptRewind) {
        let h = engine.create_session();
        let mut rx = h.subscribe();
        engine.spawn_session(h, json!({"checkpoint": {"action": "create", "label": "setup", "files": ["seed.txt"]}}).to_string(), None, None);
        for e in wait_session_events(&mut rx, LONG) {
            if let EventKind::CheckpointCreated { checkpoint_id, .. } = e.kind {
                rewind_id = Some(checkpoint_id);
            }
        }
    }
    ctl.reset(&sc.actors.iter().map(|a| a.linked).collect::<Vec<_>>());

    let files_seen0: BTreeMap<String, Vec<u8>> = listing_files(&ws_listing(&ws));
    let mut run = Run {
        sc,
        ctl: ctl.clone(),
        engine,
        store,
        thread,
        data,
        ws,
        side,
        status: vec![Status::NotStarted; n],
        ids: vec![String::new(); n],
        fifos: (0..n).map(|_| None).collect(),
        call: vec![0; n],
        rewind_id,
        settle,
        obs: Obs::default(),
        drain_wait,
        detached_pending: vec![],
        files_seen: files_seen0,
        providers: vec![],
        task_handles: (0..n).map(|_| None).collect(),
        cancelled: vec![false; n],
        ws_before: BTreeMap::new(),
        ws_before_listing: Default::default(),
        call_fs: BTreeMap::new(),
        changed_by: BTreeMap::new(),
        priority: None,
        attempted: Default::default(),
        span_owner: None,
        tool_running: false,
    };

    let mut gos = vec![];
    let mut rng = Rng::new(sc.seed);
    let scripted = !sc.gos.is_empty();
    let mut k = 0usize;
    let mut guard = 0;
    loop {
        guard += 1;
        // a watchdog hit or a plain overlap ends the scenario: the failing schedule is known, going on
        // would only run into waits on a lock the bookkeeping no longer understands
        if guard > 400 || run.obs.violations.iter().any(|(c, _)| c == "stuck" || c == "overlap" || c == "unlocked-mutation" || c == "readonly-locked" || c == "readonly-blocked") {
            break;
        }
        let cands: Vec<usize> = (0..n)
            .filter(|i| run.movable(*i))
            .filter(|i| {
                // an attempt on a held lock costs the settle time: bounded per scenario
                match run.status[*i] {
                    Status::Parked(p) if p.ends_with(".before_acquire") && run.lock_presumed_held() => {
                        run.obs.blocked_attempts < max_blocked && !run.holder_pos().map(|h| run.attempted.contains(&h)).unwrap_or(false)
                    }
                    _ => true,
                }
            })
            .collect();
        if cands.is_empty() {
            if (0..n).all(|i| run.status[i] == Status::Done) {
                break;
            }
            // only blocked / budget-exhausted actors and nobody to move: cannot happen unless the lock leaks
            let parked_ba: Vec<usize> = (0..n).filter(|i| matches!(run.status[*i], Status::Parked(p) if p.ends_with(".before_acquire"))).collect();
            if !parked_ba.is_empty() && !run.lock_presumed_held() {
                continue;
            }
            run.viol("stuck", format!("no actor can move: {:?}", run.status));
            break;
        }
        if let Some(pr) = run.priority {
            if matches!(run.status[pr], Status::Done | Status::Blocked) || matches!(run.status[pr], Status::Parked(p) if p.ends_with(".appended")) {
                run.priority = None;
            }
        }
        // cancel requests: gos entries 1000 + actor
        let cancellable: Vec<usize> = (0..n).filter(|i| sc.actors[*i].kind.is_task() && !sc.actors[*i].kind.is_bg() && !run.cancelled[*i] && run.status[*i] == Status::Blocked).collect();
        if run.priority.is_none() {
            if scripted {
                if k < sc.gos.len() && sc.gos[k] >= 1000 {
                    let t = sc.gos[k] - 1000;
                    k += 1;
                    if t < n && run.task_handles[t].is_some() && !run.cancelled[t] {
                        gos.push(1000 + t);
                        run.cancel(t);
                    }
                    continue;
                }
            } else if !cancellable.is_empty() && rng.chance(1, 3) {
                let t = *rng.pick(&cancellable);
                gos.push(1000 + t);
                run.cancel(t);
                continue;
            }
        }
        let pick = if let Some(pr) = run.priority.filter(|pr| cands.contains(pr)) {
            pr
        } else if scripted {
            if k >= sc.gos.len() {
                cands[0]
            } else {
                let w = sc.gos[k];
                k += 1;
                if !cands.contains(&w) {
                    continue;
                }
                w
            }
        } else {
            // favour attempts: when the lock is held, prefer starting / pushing others 2:1
            let holder = run.span_owner;
            let others: Vec<usize> = cands.iter().copied().filter(|c| Some(*c) != holder).collect();
            let attempts: Vec<usize> = others.iter().copied().filter(|c| matches!(run.status[*c], Status::Parked(p) if p.ends_with(".before_acquire"))).collect();
            if holder.is_some() && !attempts.is_empty() && rng.chance(3, 4) {
                *rng.pick(&attempts)
            } else if holder.is_some() && !others.is_empty() && rng.chance(2, 3) {
                *rng.pick(&others)
            } else {
                *rng.pick(&cands)
            }
        };
        gos.push(pick);
        run.go(pick);
        run.check_blocked_arrivals(pick);
    }

    // detached children nobody has let go yet: now (nobody inside)
    if !run.obs.violations.iter().any(|(c, _)| c == "stuck") {
        run.flush_detached(None);
    }
    // whatever happened, let everything finish
    ctl.free_all();
    for i in 0..n {
        if let Some(f) = run.fifos[i].as_mut() {
            let _ = f.write_all(b"x\nx\n");
        }
    }
    let t0 = Instant::now();
    let mut done = vec![false; n];
    loop {
        for i in 0..n {
            done[i] = run.status[i] != Status::NotStarted && run.is_done(i);
        }
        if (0..n).all(|i| done[i] || run.status[i] == Status::NotStarted) || t0.elapsed() > Duration::from_secs(30) {
            break;
        }
        std::thread::sleep(Duration::from_millis(5));
    }
    let clean = (0..n).all(|i| run.status[i] == Status::Done);

    // ---- final oracles
    let marks = read_markers(&run.side);
    {
        let mut open: Vec<usize> = vec![];
        for (a, w) in &marks {
            if *w == 0 {
                if let Some(o) = open.first() {
                    run.viol("overlap", format!("marker file: actor {a} entered its mutating command while actor {o} was inside"));
                }
                open.push(*a);
            } else {
                open.retain(|x| x != a);
            }
        }
    }
    let evs = run.store.replay_events(&run.thread).unwrap_or_default();
    let mut frames: Vec<(u64, u64)> = vec![];
    let mut per_actor_calls: BTreeMap<usize, u64> = BTreeMap::new();
    let mut run_ended_seen: Vec<usize> = vec![];
    let mut fx_cases: Vec<String> = vec![];
    let mut fx_tags: Vec<String> = vec![];
    let mut fx_stats = [0u64; 4];
    for e in &evs {
        match &e.kind {
            EventKind::ContinuityToolSideEffects { run_session_id, tool_name, affected_paths, .. } => {
                let Some(a) = run.ids.iter().position(|s| s == run_session_id) else { continue };
                let j = *per_actor_calls.get(&a).unwrap_or(&0);
                per_actor_calls.insert(a, j + 1);
                let k0 = sc.actors[a].kind;
                // frame ordinal j of a loop session -> index of its j-th call that is not read-only
                let (c, k) = if k0 == Loop {
                    let idx: Vec<usize> = sc.actors[a].calls.iter().enumerate().filter(|(_, k)| !k.spec_readonly()).map(|(x, _)| x).collect();
                    match idx.get(j as usize) {
                        Some(x) => (*x as u64, sc.actors[a].calls[*x]),
                        None => {
                            run.viol("frame-count", format!("loop session {a} has more side-effects frames than mutating calls"));
                            (99, Unknown)
                        }
                    }
                } else {
                    (0, k0)
                };
                frames.push((a as u64, c));
                if run_ended_seen.contains(&a) {
                    run.viol("frame-after-run-end", format!("side-effects frame of actor {a} comes after its run_ended frame"));
                }
                if tool_name != k.tool_name() {
                    run.viol("frame-content", format!("frame {j} of actor {a} names tool {tool_name}, the call was {}", k.tool_name()));
                }
                if matches!(k, Write | Patch) {
                    if let Some(want) = run.changed_by.get(&(a, c)).cloned() {
                        if affected_paths.clone().unwrap_or_default() != want || want.is_empty() {
                            run.viol("frame-content", format!("frame of actor {a} call {c} ({k:?}) lists {affected_paths:?}, the workspace diff of the call is {want:?}"));
                        }
                    }
                }
                // "listing the files it changed": every path the call created, deleted or modified is in the
                // list; a listed path the call left as it was is one the call NAMES (counted, see notes)
                if k.spec_mutating_tool() {
                    if let Some(changed) = run.changed_by.get(&(a, c)).cloned() {
                        let (tag, named) = match k {
                            Fx(n) => {
                                let sh = fx::shape(n, &fx_dir(a, c as usize), &run.ws);
                                (sh.tag, Some(sh.named))
                            }
                            _ => (format!("{k:?}"), None),
                        };
                        match affected_paths {
                            None => {
                                fx_stats[3] += 1;
                                if !k.is_shell_tool() && !changed.is_empty() {
                                    run.viol("frame-content", format!("frame of actor {a} call {c} ({tag}) carries no file list, the call changed {changed:?}"));
                                }
                            }
                            Some(l) => {
                                fx_stats[0] += 1;
                                fx_stats[1] += l.len() as u64;
                                let missing: Vec<&String> = changed.iter().filter(|p| !l.contains(p)).collect();
                                if !missing.is_empty() {
                                    run.viol("frame-content", format!("frame of actor {a} call {c} ({tag}) lists {l:?} and omits {missing:?}: the workspace diff of the call (created, deleted, modified) is {changed:?}"));
                                }
                                let extra: Vec<&String> = l.iter().filter(|p| !changed.contains(p)).collect();
                                fx_stats[2] += extra.len() as u64;
                                if let Some(named) = &named {
                                    let foreign: Vec<&&String> = extra.iter().filter(|p| !named.contains(p)).collect();
                                    if !foreign.is_empty() {
                                        run.viol("frame-content", format!("frame of actor {a} call {c} ({tag}) lists {foreign:?}, which the call neither changed nor names"));
                                    }
                                }
                            }
                        }
                        // the same call in the model (Model/SideEffects.v)
                        if let Some((before, after)) = run.call_fs.get(&(a, c)) {
                            let by = |s: &str| ws_common::coq_bytes(s.as_bytes());
                            let call = match k {
                                Fx(n) => match fx::shape(n, &fx_dir(a, c as usize), &run.ws).tool {
                                    fx::Tool::Write { path, content, mode } => Some(format!("CWrite {} {mode} {} {}", by(&path), by(&content), by("tmp-0"))),
                                    fx::Tool::Patch { text } => Some(format!("CPatch {}", by(&text))),
                                    fx::Tool::Bash { .. } => None,
                                },
                                Write | Patch => {
                                    let args = run.tool_args(a, c as usize, k);
                                    let g = |f: &str| args.get(f).and_then(|v| v.as_str()).unwrap_or("").to_string();
                                    if k == Write {
                                        Some(format!("CWrite {} 0 {} {}", by(&g("path")), by(&g("content")), by("tmp-0")))
                                    } else {
                                        Some(format!("CPatch {}", by(&g("patch"))))
                                    }
                                }
                                _ => None,
                            }
                            .unwrap_or_else(|| format!("CShell {}", ws_common::coq_fs(after)));
                            let frame = coq_opt(affected_paths, |l| coq_list(l, |s| by(s)));
                            fx_cases.push(format!(
                                "{{| fc_root := {}; fc_fs := {}; fc_call := {call}; fc_frame := {frame}; fc_after := {} |}}",
                                by(&run.ws.to_string_lossy()),
                                ws_common::coq_fs(before),
                                ws_common::coq_fs(after)
                            ));
                            fx_tags.push(tag);
                        }
                    }
                }
            }
            EventKind::ContinuityRunEnded { run_session_id, .. } => {
                if let Some(a) = run.ids.iter().position(|s| s == run_session_id) {
                    run_ended_seen.push(a);
                }
            }
            _ => {}
        }
    }
    if clean {
        for (a, spec) in sc.actors.iter().enumerate() {
            if !spec.linked || spec.kind.is_task() {
                continue;
            }
            let cnt = frames.iter().filter(|(x, _)| *x as usize == a).count();
            if spec.kind == Loop {
                let want = spec.calls.iter().filter(|k| !k.spec_readonly()).count();
                if cnt != want {
                    run.viol("frame-count", format!("loop session {a} made {want} mutating tool calls and has {cnt} side-effects frames"));
                }
                continue;
            }
            if spec.kind.spec_mutating_tool() && cnt != 1 {
                run.viol("frame-count", format!("mutating tool call of actor {a} ({:?}) attached to the thread has {cnt} side-effects frames", spec.kind));
            }
            if spec.kind.spec_readonly() && cnt != 0 {
                run.viol("frame-count", format!("read-only tool call of actor {a} ({:?}) has {cnt} side-effects frames", spec.kind));
            }
        }
        let logged = |a: usize, c: u64| -> bool {
            let sp = &sc.actors[a];
            if sp.kind == Loop {
                sp.calls.get(c as usize).map(|k| k.spec_mutating_tool()).unwrap_or(false)
            } else {
                sp.kind.spec_mutating_tool()
            }
        };
        let got: Vec<(usize, u64)> = frames.iter().map(|(a, c)| (*a as usize, *c)).filter(|(a, c)| logged(*a, *c)).collect();
        let want: Vec<(usize, u64)> = run.obs.ends_linked.iter().copied().filter(|(a, c)| logged(*a, *c)).collect();
        if got != want {
            run.viol("frame-order", format!("side-effects frames on the thread are in order {got:?} (actor, call); the mutations ended in order {want:?}"));
        }
    }
    let obs = std::mem::take(&mut run.obs);
    ctl.mu.lock().unwrap().active = false;
    drop(run);
    // attribute every marker to the call that wrote it: the j-th section of a loop session belongs to
    // its j-th shell call
    let mut sect: BTreeMap<usize, usize> = BTreeMap::new();
    let mut keyed = vec![];
    for (a, w) in &marks {
        let j = *sect.get(a).unwrap_or(&0);
        let call = if sc.actors[*a].kind == Loop {
            let idx: Vec<usize> = sc.actors[*a].calls.iter().enumerate().filter(|(_, k)| k.marks()).map(|(x, _)| x).collect();
            idx.get(j).copied().unwrap_or(255)
        } else {
            0
        };
        if *w == 1 {
            sect.insert(*a, j + 1);
        }
        keyed.push((*a as u64 * 256 + call as u64, *w));
    }
    // the process-tree view of every `Bg` actor: its own events and everybody's acquire / release
    let mut tree_cases = vec![];
    for (i, a) in sc.actors.iter().enumerate() {
        let bgn = match a.kind {
            Bg(n) => Some(n),
            _ => a.calls.iter().find_map(|k| if let Bg(n) = k { Some(*n) } else { None }),
        };
        let Some(n) = bgn else { continue };
        if !obs.tev.iter().any(|(c, x)| *c == 2 && *x == i as u64) {
            continue; // the command never ran (scenario cut short)
        }
        let (o, e) = bg::holds(n);
        // of the actor's own acquires / releases (a loop session has one pair per mutating call) only the pair
        // around this command
        let me = i as u64;
        let i2 = obs.tev.iter().position(|e| *e == (2, me)).unwrap_or(0);
        let acq = obs.tev[..i2].iter().rposition(|e| *e == (1, me));
        let i4 = obs.tev.iter().position(|e| *e == (4, me));
        let rel = i4.and_then(|k4| obs.tev.iter().enumerate().position(|(k, e)| k > k4 && *e == (5, me)));
        let own: Vec<(u64, u64)> = obs.tev.iter().enumerate().filter(|(k, e)| e.1 != me || !(e.0 == 1 || e.0 == 5) || Some(*k) == acq || Some(*k) == rel).map(|(_, e)| *e).collect();
        let evs = coq_list(&own, |(c, x)| format!("({c}, {x})"));
        tree_cases.push(format!("{{| t_site := {}; t_out := {}; t_err := {}; t_me := {i}; t_events := {evs} |}}", bg::site(n), coq_bool(o), coq_bool(e)));
    }
    Outcome { gos, obs, done, frames, marks: keyed, fx_cases, fx_stats, fx_tags, tree_cases }
}

// ------------------------------------------------------------------------------------ generation
fn gen_scenario(r: &mut Rng, thorough: bool) -> Scenario {
    let n = r.range(2, if thorough { 6 } else { 5 }) as usize;
    let mut actors = vec![];
    // (pty tasks end since /repo 35c2d72: they are generated like pipes tasks)
    let mutators = [Bash, Bash, Shell, BashQuick, BashTimeout, Write, Write, Patch, Unknown, CkptCreate, CkptRewind, Task, TaskPty, Loop, Loop];
    let readers = [Read, Ls, Grep, Fetch];
    for i in 0..n {
        let mut kind = if i == 0 || r.chance(7, 10) { *r.pick(&mutators) } else { *r.pick(&readers) };
        if kind.spec_mutating_tool() && r.chance(1, 4) {
            kind = Fx(r.below(FX_RANGE) as u32);
        }
        let linked = !kind.is_task() && r.chance(3, 4);
        let calls = if kind == Loop {
            let pool = [BashQuick, Write, Patch, Read, Ls, Grep, Bash, Unknown, Write];
            (0..r.range(1, 4)).map(|_| if r.chance(1, 4) { Fx(r.below(FX_RANGE) as u32) } else { *r.pick(&pool) }).collect()
        } else {
            vec![]
        };
        let batch = kind == Loop && r.chance(1, 3);
        actors.push(ActorSpec { kind, linked, calls, batch });
    }
    // at most three FIFO-blocked shells can be inside the tool runner at once (its own permit count
    // is 4); more than one can only happen after a violation, keep the scenario small anyway
    Scenario { actors, gos: vec![], seed: r.next() }
}

/// what a command leaves behind: every site x every shape once (attached shapes cost the drain window each,
/// so the quick tier takes the corners and rotates the rest with the seed), each with a mutating actor queued
/// behind the lock and a reader that must pass meanwhile
fn bg_scenario(n: u32, second: Kind, linked: bool, reader: bool) -> Scenario {
    let a = |kind, linked| ActorSpec { kind, linked, calls: vec![], batch: false };
    let mut actors = vec![a(Bg(n), linked && !bg::is_task(n)), a(second, !second.is_task())];
    if reader {
        actors.push(a(Ls, true));
    }
    // 0: start, acquire, run (attached: the shell is gone, the child sits in its FIFO); 1: start, go for the lock
    // (blocked behind an attached one); the reader passes; 0: drain window, child let go, end; then whoever can move
    let mut gos = vec![0, 0, 0, 1, 1];
    if reader {
        gos.extend([2, 2, 2]);
    }
    gos.extend([0, 0]);
    Scenario { actors, gos, seed: 7000 + n as u64 }
}

fn corpus_bg(seed: u64, thorough: bool) -> Vec<Scenario> {
    let mut out = vec![];
    let seconds = [Write, BashQuick, Task, Patch, CkptCreate, Bash];
    let mut j = seed as usize;
    for site in 0..3u32 {
        for shape in 0..bg::SHAPES {
            let n = bg::make(site, shape);
            // quick: every detached shape (cheap), the plain attached child on every site, and one more
            // attached shape per site chosen by the seed
            let rot = [1u32, 2, 5][(seed as usize + site as usize) % 3];
            if thorough || !bg::attached(n) || shape == 0 || shape == rot {
                j += 1;
                out.push(bg_scenario(n, seconds[j % seconds.len()], j % 2 == 0, j % 3 == 0));
            }
        }
    }
    // a call abandoned by its timeout_ms while the child is pending (KNOWN_FINDINGS S30: the child survives)
    for shape in [0u32, 2, 3] {
        j += 1;
        out.push(bg_scenario(bg::make(bg::SITE_TOOL_TIMEOUT, shape), seconds[j % seconds.len()], true, false));
    }
    // through the agent-loop call site: the call in the middle of a run, alone and with company in one response
    let lp = |calls: &[Kind], batch| ActorSpec { kind: Loop, linked: true, calls: calls.to_vec(), batch };
    let w = ActorSpec { kind: Write, linked: true, calls: vec![], batch: false };
    out.push(Scenario { actors: vec![lp(&[Write, Bg(bg::make(bg::SITE_TOOL, 0)), Ls], false), w.clone()], gos: vec![0, 0, 0, 0, 0, 0, 0, 0, 0, 1, 1, 0, 0], seed: 7100 });
    out.push(Scenario { actors: vec![lp(&[Bg(bg::make(bg::SITE_TOOL, 3)), Write], true), w], gos: vec![], seed: 7101 });
    out
}

fn gen_bg_scenario(r: &mut Rng) -> Scenario {
    let n = bg::make(r.below(bg::SITES as u64) as u32, r.below(bg::SHAPES as u64) as u32);
    let second = *r.pick(&[Write, BashQuick, Task, TaskPty, Patch, CkptCreate, CkptRewind, Bash, Shell]);
    let mut sc = bg_scenario(n, second, r.chance(1, 2), r.chance(1, 2));
    if r.chance(1, 2) {
        sc.gos.clear(); // schedule drawn on line
    }
    sc.seed = r.next();
    sc
}

/// variants of `Fx`: the hand-written shapes first, everything above is drawn from the number
const FX_RANGE: u64 = 30_000;

/// scenarios whose point is the CONTENT of the side-effects frames: runs attached to the thread, through the
/// agent-loop call site (one call per provider response or all in one) and the tool-envelope call site
fn gen_fx_scenario(r: &mut Rng) -> Scenario {
    let fxk = |r: &mut Rng| {
        // apply_patch twice as often as write, bash now and then
        let class = *r.pick(&[fx::CLASS_PATCH, fx::CLASS_PATCH, fx::CLASS_PATCH, fx::CLASS_PATCH, fx::CLASS_WRITE, fx::CLASS_WRITE, fx::CLASS_BASH]);
        Fx((r.below(FX_RANGE / 3) as u32) * 3 + class)
    };
    let mut actors = vec![ActorSpec { kind: Loop, linked: true, calls: (0..r.range(2, 5)).map(|_| fxk(r)).collect(), batch: r.chance(1, 3) }];
    for _ in 0..r.range(0, 2) {
        actors.push(ActorSpec { kind: fxk(r), linked: true, calls: vec![], batch: false });
    }
    if r.chance(1, 3) {
        actors.push(ActorSpec { kind: *r.pick(&[Read, Ls, Grep]), linked: true, calls: vec![], batch: false });
    }
    Scenario { actors, gos: vec![], seed: r.next() }
}

/// every hand-written shape once through the agent-loop site and once through the envelope site
fn corpus_fx() -> Vec<Scenario> {
    let mut all: Vec<Kind> = vec![];
    for k in 0..fx::HAND_PATCH {
        all.push(Fx(3 * k + fx::CLASS_PATCH));
    }
    for k in 0..fx::HAND_WRITE {
        all.push(Fx(3 * k + fx::CLASS_WRITE));
    }
    for k in 0..fx::HAND_BASH {
        all.push(Fx(3 * k + fx::CLASS_BASH));
    }
    let n = all.len();
    let mut out = vec![];
    for (j, chunk) in all.chunks(6).enumerate() {
        // the envelope actors take the shapes half the list away, so that every shape meets both sites
        let env: Vec<ActorSpec> = (0..2).map(|e| ActorSpec { kind: all[(j * 6 + n / 2 + e * 3) % n], linked: true, calls: vec![], batch: false }).collect();
        let mut actors = vec![ActorSpec { kind: Loop, linked: true, calls: chunk.to_vec(), batch: j % 2 == 1 }];
        actors.extend(env);
        out.push(Scenario { actors, gos: vec![], seed: 100 + j as u64 });
    }
    // the remaining shapes through the envelope site
    let covered: Vec<Kind> = out.iter().flat_map(|s| s.actors.iter().skip(1).map(|a| a.kind)).collect();
    let rest: Vec<Kind> = all.iter().copied().filter(|k| !covered.contains(k)).collect();
    for (j, chunk) in rest.chunks(4).enumerate() {
        out.push(Scenario { actors: chunk.iter().map(|k| ActorSpec { kind: *k, linked: true, calls: vec![], batch: false }).collect(), gos: vec![], seed: 200 + j as u64 });
    }
    out
}

fn corpus() -> Vec<Scenario> {
    let a = |kind, linked| ActorSpec { kind, linked, calls: vec![], batch: false };
    let lp = |calls: &[Kind], linked| ActorSpec { kind: Loop, linked, calls: calls.to_vec(), batch: false };
    let lpb = |calls: &[Kind], linked| ActorSpec { kind: Loop, linked, calls: calls.to_vec(), batch: true };
    vec![
        // B goes for the lock while A sits in its command; a reader passes; then in frame order
        Scenario { actors: vec![a(Bash, true), a(Write, true), a(Read, true)], gos: vec![0, 0, 0, 1, 1, 2, 2, 2, 0, 0, 0, 0, 0, 1, 1, 1, 1, 1, 1], seed: 1 },
        // B goes for the lock while A is between tool end and its side-effects append
        Scenario { actors: vec![a(Write, true), a(Patch, true)], gos: vec![0, 0, 0, 0, 0, 1, 1, 0, 0, 1, 1, 1, 1, 1], seed: 2 },
        // a task inside, a session tries; then the session inside, a task tries
        Scenario { actors: vec![a(Task, false), a(Bash, true), a(Task, false)], gos: vec![0, 0, 0, 1, 1, 0, 0, 1, 2, 2, 1, 1, 1, 1, 1, 2, 2, 2], seed: 3 },
        // checkpoint create / rewind against a shell alias and a pty task
        Scenario { actors: vec![a(Shell, true), a(CkptCreate, true), a(CkptRewind, false), a(TaskPty, false)], gos: vec![0, 0, 0, 1, 1, 2, 2, 3, 3, 0, 0, 0, 0, 0], seed: 4 },
        // provider-driven sessions (agent-loop call site) against a blocked shell
        Scenario { actors: vec![lp(&[Write, Read, BashQuick], true), a(Bash, true), lp(&[Ls, Patch], true)], gos: vec![], seed: 6 },
        Scenario { actors: vec![lp(&[Bash, Write], true), lp(&[Write, Grep, Write], true), a(Task, false)], gos: vec![], seed: 7 },
        // a task cancelled while it is queued behind a session that sits in its command
        Scenario { actors: vec![a(Bash, true), a(Task, false), a(Write, true)], gos: vec![0, 0, 0, 1, 1, 1001, 2, 2, 0, 0, 0, 0, 0, 0, 1, 1, 1, 2, 2, 2, 2, 2, 2], seed: 9 },
        Scenario { actors: vec![a(Task, false), a(Task, false), a(Shell, true)], gos: vec![0, 0, 0, 1, 1, 1001, 2, 2, 1001, 0, 0], seed: 10 },
        // a bash call that ends by timeout while its command is still blocked; then another mutation
        Scenario { actors: vec![a(BashTimeout, true), a(BashQuick, true), a(Write, true)], gos: vec![0, 0, 0, 1, 2, 0, 0, 0, 0, 0, 0, 1, 1, 1, 1, 1, 1, 2, 2, 2, 2, 2, 2], seed: 11 },
        // several calls in one provider response
        Scenario { actors: vec![lpb(&[Write, Ls, BashQuick, Patch], true), a(Bash, true), a(Task, false)], gos: vec![], seed: 8 },
        // readers among themselves and an unknown tool
        Scenario { actors: vec![a(Grep, true), a(Ls, false), a(Fetch, true), a(Unknown, true), a(BashQuick, true)], gos: vec![3, 3, 0, 1, 2, 4, 4, 0, 1, 2, 3, 3, 3, 3, 3], seed: 5 },
    ]
}

fn coq_case(sc: &Scenario, o: &Outcome) -> String {
    let actors = coq_list(&sc.actors, |a| {
        let (k, names): (u64, Vec<&str>) = match a.kind {
            Loop => (1, a.calls.iter().map(|k| k.tool_name()).collect()),
            CkptCreate | CkptRewind => (2, vec![]),
            Task | TaskPty => (3, vec![]),
            k if k.is_task() => (3, vec![]),
            k => (0, vec![k.tool_name()]),
        };
        format!("({k}, {}, {})", coq_bool(a.linked), coq_list(&names, |s| coq_str(s)))
    });
    let steps = coq_list(&o.obs.steps, |(a, c, k)| format!("({a}, {c}, {k})"));
    let done = coq_list(&o.done, |b| coq_bool(*b).to_string());
    let frames = coq_list(&o.frames, |(a, c)| format!("({a}, {c})"));
    let marks = coq_list(&o.marks, |(a, w)| format!("({a}, {w})"));
    format!("{{| c_actors := {actors}; c_steps := {steps}; c_done := {done}; c_frames := {frames}; c_marks := {marks} |}}")
}

fn main() {
    let a = parse_args();
    let mut res = RunResult::new("C11", &a);
    res.rule = "scenario = 2..6 actors (sessions with tool envelopes bash/shell/write/apply_patch/unknown/read/ls/grep/artifact_fetch, checkpoint create/rewind, pipes/pty tasks; attached to one thread or not) driven in lock step at the ws.* hook points + FIFO-blocked commands; the Go sequence is drawn on line (2:1 in favour of moving somebody else while the lock is held, i.e. overlap attempts); non-trivial = at least one blocked attempt or a read-only call completed while a mutating call was running; distinct by (actors, Go sequence).  Fx(n) actors / calls = write (4 modes), apply_patch (add, update, delete, move, move onto an existing file, several operations on one path, failing and unparsable patches) and shell commands chosen for their FILE EFFECTS (hand-written corners + shapes drawn from n), each in a directory of its own: the workspace is listed when the call gets the lock and when its tool has returned, the diff (created, deleted, modified) is compared with the affected_paths of the call's side-effects frame, and the call is replayed in Model/SideEffects.v (fx cases)".into();
    let n: usize = a.extra.get("n").and_then(|v| v.parse().ok()).unwrap_or(if a.thorough() { 500 } else { 50 });
    let settle = Duration::from_millis(a.extra.get("settle-ms").and_then(|v| v.parse().ok()).unwrap_or(250));
    // how long an execution with a pending attached child is watched for ending early (a bounded wait shorter
    // than this shows up as a concrete overlap; a longer one is left to the generated obligation)
    let drain_wait = Duration::from_millis(a.extra.get("drain-wait-ms").and_then(|v| v.parse().ok()).unwrap_or(if a.thorough() { 6000 } else { 3500 }));
    // scratch dirs of earlier runs that were killed (watchdog of the driver): remove them
    if let Ok(rd) = std::fs::read_dir("/var/tmp") {
        for e in rd.flatten() {
            let name = e.file_name().to_string_lossy().to_string();
            let mut it = name.split('-');
            if let (Some("rv"), Some(pid), Some("c11")) = (it.next(), it.next(), it.next()) {
                if pid.parse::<u32>().map(|p| !Path::new(&format!("/proc/{p}")).exists()).unwrap_or(false) {
                    let _ = std::fs::remove_dir_all(e.path());
                }
            }
        }
    }
    let rt = tokio::runtime::Builder::new_multi_thread().worker_threads(24).enable_all().build().expect("runtime");
    let ctl = Arc::new(Ctl { mu: Mutex::new(CtlInner::default()), cv: Condvar::new() });
    {
        let c = ctl.clone();
        rip_kernel::verif::set_hook(Some(Arc::new(move |name: &'static str| c.hook(name))));
    }
    let mut scenarios: Vec<Scenario> = vec![];
    if let Some(p) = &a.replay {
        let v: Value = serde_json::from_str(&std::fs::read_to_string(p).expect("replay file")).expect("replay json");
        let v = v.get("replay").cloned().unwrap_or(v);
        scenarios.push(serde_json::from_value(v).expect("scenario"));
    } else {
        scenarios.extend(corpus());
        scenarios.extend(corpus_fx());
        scenarios.extend(corpus_bg(a.seed, a.thorough()));
        // regression scenarios kept under corpus/C11 (replays that caught seeded mutations)
        let dir = Path::new(env!("CARGO_MANIFEST_DIR")).join("..").join("corpus").join("C11");
        let mut files: Vec<PathBuf> = std::fs::read_dir(&dir).map(|rd| rd.flatten().map(|e| e.path()).filter(|p| p.extension().map(|x| x == "json").unwrap_or(false)).collect()).unwrap_or_default();
        files.sort();
        for f in files {
            if let Ok(v) = serde_json::from_str::<Value>(&std::fs::read_to_string(&f).unwrap_or_default()) {
                let v = v.get("replay").cloned().unwrap_or(v);
                if let Ok(sc) = serde_json::from_value::<Scenario>(v) {
                    scenarios.push(sc);
                }
            }
        }
        let mut r = Rng::new(a.seed);
        for _ in 0..n {
            scenarios.push(gen_scenario(&mut r, a.thorough()));
        }
        let n_fx: usize = a.extra.get("n-fx").and_then(|v| v.parse().ok()).unwrap_or(if a.thorough() { 150 } else { 12 });
        for _ in 0..n_fx {
            scenarios.push(gen_fx_scenario(&mut r));
        }
        if a.extra.get("only").map(|v| v == "bg").unwrap_or(false) {
            // development aid: the process-tree scenarios alone
            scenarios.clear();
            scenarios.extend(corpus_bg(a.seed, a.thorough()));
        }
        let n_bg: usize = a.extra.get("n-bg").and_then(|v| v.parse().ok()).unwrap_or(if a.thorough() { 40 } else { 3 });
        for _ in 0..n_bg {
            scenarios.push(gen_bg_scenario(&mut r));
        }
    }
    let mut w = CaseWriter::new(&a.out, "Model.WsLockCase", "check_case", "model_obs", 50);
    // the content of the frames: one case per mutating tool call of an attached run (Model/SideEffects.v), ids from 1 000 000
    let mut wfx = CaseWriter::new(&a.out.join("fx"), "Base.Fs Model.SideEffects", "check_fx", "fx_obs", 25).with_base(1_000_000);
    let mut wtree = CaseWriter::new(&a.out.join("tree"), "Model.WsLockTreeCase", "check_tree", "tree_obs", 50).with_base(2_000_000);
    let mut distinct = Distinct::default();
    let mut stuck_runs = 0;
    for (idx, sc) in scenarios.iter().enumerate() {
        // a watchdog hit is a violation already (the check is red) and costs up to LONG: the run stops at the
        // first one, so that a red run stays short
        if stuck_runs >= 1 {
            res.notes.push(format!("stopped after scenario {idx}: a scenario ran into a progress watchdog"));
            break;
        }
        let sc2 = sc.clone();
        let ctl2 = ctl.clone();
        let out = std::panic::catch_unwind(std::panic::AssertUnwindSafe(|| run_scenario(&rt, &ctl2, &sc2, settle, 5, drain_wait)));
        res.evaluations += 1;
        let o = match out {
            Ok(o) => o,
            Err(_) => {
                ctl.free_all();
                res.impl_panics += 1;
                res.oracle_violations.push(OracleViolation { case_id: idx as i64, what: "panic while running the scenario".into(), class: "panic".into(), replay: serde_json::to_value(sc).unwrap() });
                continue;
            }
        };
        let replay = Scenario { actors: sc.actors.clone(), gos: o.gos.clone(), seed: sc.seed };
        let rj = serde_json::to_value(&replay).unwrap();
        res.oracle_checks += 4;
        res.bump_by("blocked_attempts", o.obs.blocked_attempts);
        res.bump_by("readonly_overlaps", o.obs.ro_overlaps);
        res.bump_by("calls_outlived_by_their_command", o.obs.outlived);
        res.bump_by("bg_attached_child_wrote_before_end", o.obs.bg_held);
        res.bump_by("bg_detached_child_wrote_inside_another_span", o.obs.bg_detached_in_span);
        res.bump_by("bg_detached_child_wrote_after_release", o.obs.bg_detached_late);
        res.bump_by("tree_cases", o.tree_cases.len() as u64);
        res.bump_by("steps", o.obs.steps.len() as u64);
        res.bump_by("frames", o.frames.len() as u64);
        res.bump(&format!("actors_{}", sc.actors.len()));
        for s in &sc.actors {
            res.bump(&format!("kind_{:?}", s.kind));
        }
        let nontrivial = o.obs.blocked_attempts > 0 || o.obs.ro_overlaps > 0;
        if nontrivial && distinct.add(&format!("{:?}{:?}", sc.actors, o.gos)) {}
        if o.obs.violations.iter().any(|(c, _)| c == "stuck" || c == "readonly-blocked") {
            stuck_runs += 1;
        }
        for (class, what) in &o.obs.violations {
            res.oracle_violations.push(OracleViolation { case_id: idx as i64, what: what.clone(), class: class.clone(), replay: rj.clone() });
        }
        if res.samples.len() < 3 {
            res.samples.push(json!({"scenario": rj, "steps": o.obs.steps, "frames": o.frames, "marks": o.marks}));
        }
        res.oracle_checks += o.fx_cases.len() as u64;
        res.bump_by("fx_calls_compared", o.fx_cases.len() as u64);
        res.bump_by("fx_frames_with_list", o.fx_stats[0]);
        res.bump_by("fx_listed_paths", o.fx_stats[1]);
        res.bump_by("fx_listed_but_unchanged", o.fx_stats[2]);
        res.bump_by("fx_frames_without_list", o.fx_stats[3]);
        for tg in &o.fx_tags {
            res.bump(&format!("fx_{}", tg.split(' ').next().unwrap_or("")));
        }
        if !a.oracle_only() {
            let id = w.push(coq_case(sc, &o));
            if res.case_index.len() < 4000 {
                res.case_index.insert(id.to_string(), rj.clone());
            }
            for term in &o.fx_cases {
                let id = wfx.push(term.clone());
                if res.case_index.len() < 4000 {
                    res.case_index.insert(id.to_string(), rj.clone());
                }
            }
            for term in &o.tree_cases {
                let id = wtree.push(term.clone());
                if res.case_index.len() < 4000 {
                    res.case_index.insert(id.to_string(), rj.clone());
                }
            }
        }
    }
    w.flush();
    wfx.flush();
    wtree.flush();
    res.distinct_nontrivial = distinct.count();
    res.case_files = w.files.iter().chain(wfx.files.iter()).chain(wtree.files.iter()).map(|p| p.to_string_lossy().to_string()).collect();
    res.write(&a.out);
    rip_kernel::verif::set_hook(None);
    println!("c11: {} scenarios, {} violations, {} nontrivial", res.evaluations, res.oracle_violations.len(), res.distinct_nontrivial);
    // tasks still running (after a violation) must not keep the process alive
    std::process::exit(0);
}
