//! C13 — no path argument can reach outside the workspace root.
//! Every path-taking argument (read / write / ls / grep / bash cwd / task cwd / patch headers /
//! apply_patch / checkpoint create + rewind / auto-checkpoint / rewind id) is driven with path strings
//! from a grammar, inside a sentinel sandbox, with the process cwd equal to the root, next to it and
//! above it (dedicated child processes: cwd is process-global).
//! Correspondence: verdict of the resolver (+ the relativised string / the path the effect landed on)
//! vs coq/Model/Paths.v.   Oracle (independent of the model): nothing outside the root is created,
//! modified or deleted; no sentinel bytes show up in outputs or inside the root; absolute / `..`
//! strings are refused; a refused request changes nothing at all (checkpoint store included).
#[path = "../ws_common.rs"]
mod ws_common;
#[path = "../ws13_common.rs"]
mod ws13_common;
use rip_kernel::EventKind;
use rip_tools::{ToolInvocation, ToolRunner};
use rip_workspace::{Patch, Workspace};
use rv::*;
use serde_json::{json, Value};
use std::path::PathBuf;
use std::sync::Arc;
use ws13_common::*;
use ws_common::*;

// verdict codes shared with Model/Paths.v
const V_OK: u64 = 0;
const V_ABS: u64 = 1;
const V_PARENT: u64 = 2;
const V_EMPTY: u64 = 3;
const V_OUTSIDE: u64 = 4;
const V_OTHER: u64 = 5;

fn verdict_of_msg(msg: &str) -> u64 {
    if msg.contains("absolute paths are not allowed") {
        V_ABS
    } else if msg.contains("path escapes workspace root") {
        V_PARENT
    } else if msg.contains("path cannot be empty") {
        V_EMPTY
    } else if msg.contains("path outside workspace") {
        V_OUTSIDE
    } else {
        V_OTHER
    }
}

/// model kind code of a harness kind
fn model_kind(kind: &str) -> u64 {
    match kind {
        "read" | "write" | "write_plain" | "write_append" | "ls" | "grep" | "bash" | "task_spawn" => 0,
        "patch_add" | "patch_delete" | "patch_update" | "patch_move" => 1,
        "tool_patch_add" | "tool_patch_move" => 2,
        "ck_create" | "ck_runner" => 3,
        "auto_write" => 4,
        "auto_patch" => 5,
        "rewind_id" => 6,
        "task" => 7,
        "bash_nocwd" | "task_nocwd" => 8, // no cwd argument: the child runs in the workspace root
        "rewind_tampered" => 10,          // a recorded path read back from the store goes through safe_join
        "stdpath" => 11,                  // Path::parent / with_extension of root.join(raw), file_name of raw
        _ => 99,
    }
}

struct Obs {
    root: String,
    raw: String,
    verdict: u64,
    out: String,
    eff: Option<Comps>,
    viol: Vec<(String, String)>,
    note: String,
}

fn registry(root: &std::path::Path) -> Arc<rip_tools::ToolRegistry> {
    let registry = Arc::new(rip_tools::ToolRegistry::default());
    let cfg = rip_tools::BuiltinToolConfig { workspace_root: root.to_path_buf(), ..Default::default() };
    rip_tools::register_builtin_tools(&registry, cfg);
    registry
}

fn patch_text(kind: &str, raw: &str) -> String {
    match kind {
        "patch_add" | "tool_patch_add" | "auto_patch" => format!("*** Begin Patch\n*** Add File: {raw}\n+NEW\n*** End Patch"),
        "patch_delete" => format!("*** Begin Patch\n*** Delete File: {raw}\n*** End Patch"),
        "patch_update" => format!("*** Begin Patch\n*** Update File: {raw}\n@@\n-in-a\n+NEW\n*** End Patch"),
        _ => format!("*** Begin Patch\n*** Update File: only_ws.txt\n*** Move to: {raw}\n@@\n-in-only\n+NEW\n*** End Patch"),
    }
}

/// independent reading of the property text
fn must_refuse(kind: &str, raw: &str, root: &str) -> bool {
    match model_kind(kind) {
        0 | 7 | 4 | 10 => lexically_absolute(raw) || lexically_parent(raw),
        1 | 2 | 5 => {
            let t = raw.trim();
            t.is_empty() || lexically_absolute(t) || lexically_parent(t)
        }
        3 => lexically_parent(raw) || (lexically_absolute(raw) && !inside_componentwise(raw, root)),
        _ => false,
    }
}

/// absolute `raw` lies below `root` component by component ('' and '.' segments do not count)
fn inside_componentwise(raw: &str, root: &str) -> bool {
    let c = |s: &str| -> Vec<String> { s.split('/').filter(|x| !x.is_empty() && *x != ".").map(|x| x.to_string()).collect() };
    let (a, b) = (c(raw), c(root));
    a.len() >= b.len() && a[..b.len()] == b[..]
}


// ------------------------------------------------------------------ decorations
// A decorated case carries the core string in "raw" (with {ROOT}/{SB} placeholders) and
// "deco": {"pre","inf","suf"}; the worker substitutes the placeholders FIRST and then rewrites the
// separators of the whole core (so an absolute core becomes `\var\tmp\…`, `%2Fvar%2Ftmp…`, …).
const PREFIXES: [&str; 27] = [
    "", "./", ".//", "././/", "./././", "//", "/", "/./", "./.", " ", "\t", "\u{a0}", "\u{2003}", "\u{feff}", "\\", ".\\", "%2F", "%2e%2e%2f", "%2e/", "\0", "~/", "file://", "LONG./", "LONG.//",
    ". /", "./ ", "\u{2024}/",
];
const INFIXES: [&str; 10] = ["id", "dbl", "dot", "bs", "mixed", "pct", "pctl", "fw", "div", "first_dbl"];
const SUFFIXES: [&str; 13] = ["", "/", "/.", "//", "/./", "/./.", " ", "\u{a0}", "\u{2003}", "\0", "%00", "\\", "/ "];

fn apply_infix(inf: &str, core: &str) -> String {
    match inf {
        "dbl" => core.replace('/', "//"),
        "dot" => core.replace('/', "/./"),
        "bs" => core.replace('/', "\\"),
        "mixed" => {
            let mut k = 0;
            core.chars()
                .map(|c| {
                    if c == '/' {
                        k += 1;
                        if k % 2 == 0 {
                            '\\'
                        } else {
                            '/'
                        }
                    } else {
                        c
                    }
                })
                .collect()
        }
        "pct" => core.replace('/', "%2F"),
        "pctl" => core.replace("..", "%2e%2e").replace('/', "%2f"),
        "fw" => core.replace("..", "\u{ff0e}\u{ff0e}").replace('/', "\u{ff0f}"),
        "div" => core.replace('/', "\u{2215}"),
        "first_dbl" => match core.char_indices().skip(1).find(|(_, c)| *c == '/') {
            Some((i, _)) => format!("{}//{}", &core[..i], &core[i + 1..]),
            None => core.to_string(),
        },
        _ => core.to_string(),
    }
}
fn decorate(deco: Option<&Value>, core: &str) -> String {
    let d = match deco {
        Some(d) if d.is_object() => d,
        _ => return core.to_string(),
    };
    let pre = d["pre"].as_str().unwrap_or("");
    let pre = match pre {
        "LONG./" => "./".repeat(1500),
        "LONG.//" => format!("{}/", "./".repeat(1500)),
        p => p.to_string(),
    };
    format!("{pre}{}{}", apply_infix(d["inf"].as_str().unwrap_or("id"), core), d["suf"].as_str().unwrap_or(""))
}

// ------------------------------------------------------------------ positive (effect) oracle
/// Where the operating system lands for an acceptable string: <root>/<non-trivial segments>.
/// None for a string the property says must be refused.
fn expected_target(root: &std::path::Path, raw: &str) -> Option<PathBuf> {
    if lexically_absolute(raw) || lexically_parent(raw) {
        return None;
    }
    let mut p = root.to_path_buf();
    for s in raw.split('/') {
        if !s.is_empty() && s != "." {
            p.push(s);
        }
    }
    Some(p)
}
/// component-wise `p` at or below `base` ('' and '.' do not count; a `..` disqualifies)
fn at_or_below(p: &std::path::Path, base: &std::path::Path) -> bool {
    let c = |x: &std::path::Path| -> Option<Vec<String>> {
        let s = x.to_string_lossy().to_string();
        if s.split('/').any(|k| k == "..") {
            return None;
        }
        Some(s.split('/').filter(|k| !k.is_empty() && *k != ".").map(|k| k.to_string()).collect())
    };
    match (c(p), c(base)) {
        (Some(a), Some(b)) => a.len() >= b.len() && a[..b.len()] == b[..],
        _ => false,
    }
}
fn has_children(d: &std::path::Path) -> bool {
    std::fs::read_dir(d).map(|mut r| r.next().is_some()).unwrap_or(false)
}

struct Step<'a> {
    sbx: &'a Sandbox,
    viol: Vec<(String, String)>,
}
impl<'a> Step<'a> {
    /// the oracle for one operation of the implementation
    fn check(&mut self, name: &str, before: &Listing, after: &Listing, refused: bool, output: &str) {
        let ch = diff(before, after);
        let outside: Vec<Change> = ch.iter().filter(|c| !is_ws(&c.path)).cloned().collect();
        if !outside.is_empty() {
            self.viol.push((format!("{name}: outside the workspace root: {}", show_changes(&outside)), format!("outside_{}", outside[0].kind)));
        }
        let inside: Vec<Change> = ch.iter().filter(|c| is_ws(&c.path)).cloned().collect();
        if refused && !inside.is_empty() {
            let class = if inside.iter().all(|c| is_store(&c.path)) { "refused_left_store_entry" } else { "refused_with_side_effect" };
            self.viol.push((format!("{name}: refused, yet: {}", show_changes(&inside)), class.into()));
        }
        if output.contains(MARK) {
            self.viol.push((format!("{name}: bytes of a file outside the root in the output"), "outside_read_output".into()));
        }
        if let Some(p) = marker_inside_ws(before, after) {
            self.viol.push((format!("{name}: bytes of a file outside the root copied to {}", show_comps(&p)), "outside_read_copied".into()));
        }
        let _ = self.sbx;
    }
}


/// Positive half of the oracle: a tool that reports success on an acceptable string must have had its
/// effect at <root>/<segments> and nowhere else (an effect outside the snapshotted scratch tree is
/// invisible to the before/after comparison; a success without the effect in place gives it away).
fn effect_at_target(st: &mut Step, kind: &str, root: &std::path::Path, raw: &str, stdout: &[String], stderr_empty: bool) {
    let arg = if matches!(model_kind(kind), 1 | 2 | 5) { raw.trim() } else { raw };
    let t = match expected_target(root, arg) {
        Some(t) => t,
        None => return, // `not_refused` reports it
    };
    let mut bad = |what: String| st.viol.push((format!("{kind} '{}': reported success, but {what}", short(raw)), "effect_not_at_root_join".into()));
    let holds = |suffix_only: bool| -> bool {
        match std::fs::read(&t) {
            Ok(b) => {
                if suffix_only {
                    b.ends_with(b"NEW\n")
                } else {
                    b == b"NEW\n"
                }
            }
            Err(_) => false,
        }
    };
    let entry_ok = |e: &str| -> bool {
        let p = root.join(e);
        !e.starts_with('/') && std::fs::symlink_metadata(&p).is_ok() && at_or_below(&p, &t)
    };
    match kind {
        "write" | "write_plain" | "auto_write" | "tool_patch_add" | "tool_patch_move" | "auto_patch" => {
            if !holds(false) {
                bad(format!("{} does not hold the written bytes", t.display()));
            }
        }
        "write_append" => {
            if !holds(true) {
                bad(format!("{} does not end with the appended bytes", t.display()));
            }
        }
        "read" => {
            let want = std::fs::read(&t).ok().map(|b| String::from_utf8_lossy(&b).to_string());
            if want.is_none() || stdout.first() != want.as_ref() {
                bad(format!("the output is not the content of {}", t.display()));
            }
        }
        "ls" => {
            if let Some(e) = stdout.iter().find(|e| !entry_ok(e)) {
                bad(format!("the entry '{}' is not at or below {}", short(e), t.display()));
            } else if stdout.is_empty() && stderr_empty && t.is_dir() && has_children(&t) {
                bad(format!("nothing of {} was listed", t.display()));
            }
        }
        "grep" => {
            if let Some(l) = stdout.iter().find(|l| !entry_ok(l.split(':').next().unwrap_or(""))) {
                bad(format!("the match '{}' is not in a file at or below {}", short(l), t.display()));
            } else if stdout.is_empty() && stderr_empty {
                let hit = |b: &[u8]| contains(b, b"in-") || contains(b, MARK.as_bytes());
                let any = if t.is_file() { std::fs::read(&t).map(|b| hit(&b)).unwrap_or(false) } else { list_tree(&t).values().any(|n| matches!(n, Node::File(b) if hit(b))) };
                if any {
                    bad(format!("no match reported although {} has matching lines", t.display()));
                }
            }
        }
        "bash" => {
            if stdout.first().map(|l| l.trim_end_matches('\n')) != Some(&*t.to_string_lossy()) {
                bad(format!("the command did not run in {}", t.display()));
            }
        }
        "task" => {
            let out = std::path::PathBuf::from(stdout.first().cloned().unwrap_or_default());
            if !(at_or_below(&out, &t) && at_or_below(&t, &out)) {
                bad(format!("the resolved working directory is not {}", t.display()));
            }
        }
        _ => {}
    }
}

/// what the harness itself does between create and rewind (not subject to the oracle)
fn edit_everything(s: &Sandbox) {
    let w = |p: PathBuf, b: &str| {
        if let Some(par) = p.parent() {
            let _ = std::fs::create_dir_all(par);
        }
        let _ = std::fs::write(p, b);
    };
    w(s.root.join("a.txt"), "edited-a\n");
    let _ = std::fs::remove_file(s.root.join("d/x.txt"));
    w(s.root.join("new.txt"), "created-after\n");
    w(s.root.join("d/new/f.txt"), "created-after\n");
    w(s.sb.join("outside.txt"), "SENTINEL-OUTSIDE-EDITED\n");
    w(s.sb.join("a.txt"), "SENTINEL-SB-A-EDITED\n");
    w(s.sb.join("new_outside.txt"), "SENTINEL-NEW-OUTSIDE\n");
    w(s.sb.join("elsewhere/a.txt"), "SENTINEL-ELSE-A-EDITED\n");
    w(s.sb.join("elsewhere/new.txt"), "SENTINEL-ELSE-NEW\n");
    let _ = std::fs::remove_file(s.sb.join("elsewhere/only_else.txt"));
    w(s.sb.join("ws2/a.txt"), "SENTINEL-WS2-A-EDITED\n");
}

fn tool_output_text(o: &rip_tools::ToolOutput) -> String {
    let mut t = o.stdout.join("\n");
    t.push('\n');
    t.push_str(&o.stderr.join("\n"));
    if let Some(a) = &o.artifacts {
        t.push_str(&a.to_string());
    }
    t
}

fn single_changed_file(before: &Listing, after: &Listing) -> Option<Comps> {
    let files: Vec<Comps> = diff(before, after).into_iter().filter(|c| is_ws(&c.path) && !is_store(&c.path) && !c.is_dir && c.kind != "deleted").map(|c| ws_rel(&c.path)).collect();
    if files.len() == 1 {
        Some(files[0].clone())
    } else {
        None
    }
}

fn run_case(rt: &tokio::runtime::Runtime, case: &Value) -> Obs {
    let kind = case["kind"].as_str().unwrap_or("read").to_string();
    let cwd = case["cwd"].as_u64().unwrap_or(0);
    let sbx = Sandbox::new("c13", &workspace_listing());
    let raw = decorate(case.get("deco"), &sbx.subst(case["raw"].as_str().unwrap_or("")));
    let root_s = sbx.root.to_string_lossy().to_string();
    let ws = Workspace::new(&sbx.root).expect("workspace");
    std::env::set_current_dir(sbx.cwd_dir(cwd)).expect("chdir");
    if kind == "ls_ignore" || kind == "grep_ignore" {
        // SENTINEL ignore rules above the root (`.ignore` is honoured without a git repository; `.gitignore` needs one)
        std::fs::write(sbx.sb.join(".ignore"), "a.txt\n").unwrap();
        std::fs::write(sbx.top.join("p1").join(".ignore"), "x.txt\n").unwrap();
        std::fs::create_dir_all(sbx.sb.join(".git")).unwrap();
        std::fs::write(sbx.sb.join(".gitignore"), "only_ws.txt\nz.txt\n").unwrap();
    }
    let mut st = Step { sbx: &sbx, viol: vec![] };
    let mut verdict = V_OTHER;
    let mut out = String::new();
    let mut eff: Option<Comps> = None;
    let mut note = String::new();
    let before = sbx.snapshot();
    // what happens in the directories AROUND the root while the operation runs (a file created next to the root and
    // removed again before the call returns is invisible to the before / after comparison)
    let mut watcher = Watcher::new(&sbx.outside_dirs());
    if watcher.is_none() {
        note = "no-inotify".into();
    }
    match kind.as_str() {
        "read" | "write" | "write_plain" | "write_append" | "ls" | "grep" | "bash" => {
            let (name, args) = match kind.as_str() {
                "read" => ("read", json!({"path": raw})),
                "write" => ("write", json!({"path": raw, "content": "NEW\n"})),
                "write_plain" => ("write", json!({"path": raw, "content": "NEW\n", "atomic": false})),
                "write_append" => ("write", json!({"path": raw, "content": "NEW\n", "append": true})),
                "ls" => ("ls", json!({"path": raw, "recursive": true, "include_hidden": true})),
                "grep" => ("grep", json!({"pattern": "SENTINEL|in-", "path": raw, "include_hidden": true})),
                _ => ("bash", json!({"command": "pwd -P", "cwd": raw})),
            };
            let h = registry(&sbx.root).get(name).expect("tool");
            let o = rt.block_on((h)(ToolInvocation { name: name.into(), args, timeout_ms: None }));
            let after = sbx.snapshot();
            verdict = if o.exit_code == 0 { V_OK } else { o.stderr.first().map(|m| verdict_of_msg(m)).unwrap_or(V_OTHER) };
            // V_OTHER here = the resolver accepted and the operating system refused later
            if verdict == V_OTHER {
                verdict = V_OK;
                note = "os-error".into();
            }
            let text = if name == "bash" { String::new() } else { tool_output_text(&o) };
            st.check(&kind, &before, &after, verdict != V_OK, &text);
            if o.exit_code == 0 {
                effect_at_target(&mut st, &kind, &sbx.root, &raw, &o.stdout, o.stderr.is_empty());
                if name == "write" {
                    eff = single_changed_file(&before, &after);
                } else if name == "bash" {
                    if let Some(l) = o.stdout.first() {
                        let l = l.trim_end_matches('\n');
                        if l == root_s {
                            eff = Some(vec![]);
                        } else if let Some(rest) = l.strip_prefix(&format!("{root_s}/")) {
                            eff = Some(rest.split('/').map(|s| s.as_bytes().to_vec()).collect());
                        } else {
                            st.viol.push((format!("bash ran in {l}, not below the root"), "cwd_outside".into()));
                        }
                    }
                }
            }
        }
        "task" => {
            match ripd::verif::task_resolve_cwd(&sbx.root, &raw) {
                Ok(p) => {
                    verdict = V_OK;
                    out = p.to_string_lossy().to_string();
                }
                Err(m) => verdict = verdict_of_msg(&m),
            }
            let after = sbx.snapshot();
            st.check(&kind, &before, &after, verdict != V_OK, "");
            if verdict == V_OK {
                effect_at_target(&mut st, &kind, &sbx.root, &raw, &[out.clone()], true);
            }
        }
        "patch_add" | "patch_delete" | "patch_update" | "patch_move" => {
            match Patch::parse(&patch_text(&kind, &raw)) {
                Ok(p) => {
                    verdict = V_OK;
                    out = p.affected_paths().last().map(|x| x.to_string_lossy().to_string()).unwrap_or_default();
                }
                Err(e) => verdict = verdict_of_msg(&e.message),
            }
            let after = sbx.snapshot();
            st.check(&kind, &before, &after, verdict != V_OK, "");
        }
        "tool_patch_add" | "tool_patch_move" => {
            let h = registry(&sbx.root).get("apply_patch").expect("tool");
            let o = rt.block_on((h)(ToolInvocation { name: "apply_patch".into(), args: json!({"patch": patch_text(&kind, &raw)}), timeout_ms: None }));
            let after = sbx.snapshot();
            verdict = if o.exit_code == 0 { V_OK } else { o.stderr.first().map(|m| verdict_of_msg(m)).unwrap_or(V_OTHER) };
            if verdict == V_OTHER {
                verdict = V_OK;
                note = "os-error".into();
            }
            st.check(&kind, &before, &after, verdict != V_OK, &tool_output_text(&o));
            if o.exit_code == 0 {
                effect_at_target(&mut st, &kind, &sbx.root, &raw, &o.stdout, o.stderr.is_empty());
                let created: Vec<Comps> = diff(&before, &after).into_iter().filter(|c| is_ws(&c.path) && !c.is_dir && c.kind == "created").map(|c| ws_rel(&c.path)).collect();
                if created.len() == 1 {
                    eff = Some(created[0].clone());
                }
            }
        }
        "ck_create" | "ck_runner" => {
            let via_runner = kind == "ck_runner";
            let hook = ripd::verif::workspace_checkpoint_hook(sbx.root.clone()).expect("hook");
            let runner = ToolRunner::with_checkpoint_hook(registry(&sbx.root), 1, hook);
            let mut seq = 0u64;
            let mut id: Option<String> = None;
            let mut exists_flag: Option<bool> = None;
            if via_runner {
                let evs = runner.create_checkpoint("s1", &mut seq, "manual".into(), vec![PathBuf::from(&raw)]);
                for e in &evs {
                    match &e.kind {
                        EventKind::CheckpointCreated { checkpoint_id, files, .. } => {
                            verdict = V_OK;
                            out = files.first().cloned().unwrap_or_default();
                            id = Some(checkpoint_id.clone());
                        }
                        EventKind::CheckpointFailed { error, .. } => verdict = verdict_of_msg(error),
                        _ => {}
                    }
                }
            } else {
                match ws.create_checkpoint("s1", "manual", &[PathBuf::from(&raw)]) {
                    Ok(ck) => {
                        verdict = V_OK;
                        out = ck.files.first().map(|f| f.path.clone()).unwrap_or_default();
                        exists_flag = ck.files.first().map(|f| f.exists);
                        id = Some(ck.id);
                    }
                    Err(e) => verdict = verdict_of_msg(&e.to_string()),
                }
            }
            let after = sbx.snapshot();
            if verdict == V_OTHER {
                verdict = V_OK; // accepted by the resolver, refused by the operating system
                note = "os-error".into();
            }
            st.check(&format!("{kind}/create"), &before, &after, verdict != V_OK, "");
            if let Some(fl) = exists_flag {
                let really = sbx.root.join(&out).exists();
                if fl != really {
                    st.viol.push((format!("create recorded exists={fl} for '{out}' but <root>/{out} exists={really}: the probe went to another directory"), "checkpoint_probe_not_under_root".into()));
                }
            }
            if let Some(id) = id {
                edit_everything(&sbx);
                let b2 = sbx.snapshot();
                if via_runner {
                    let _ = runner.rewind_checkpoint("s1", &mut seq, &id);
                } else {
                    let _ = ws.rewind_to_checkpoint("s1", &id);
                }
                let a2 = sbx.snapshot();
                st.check(&format!("{kind}/rewind"), &b2, &a2, false, "");
            }
        }
        "auto_write" | "auto_patch" => {
            let hook = ripd::verif::workspace_checkpoint_hook(sbx.root.clone()).expect("hook");
            let runner = ToolRunner::with_checkpoint_hook(registry(&sbx.root), 1, hook);
            let mut seq = 0u64;
            let inv = if kind == "auto_write" {
                ToolInvocation { name: "write".into(), args: json!({"path": raw, "content": "NEW\n"}), timeout_ms: None }
            } else {
                ToolInvocation { name: "apply_patch".into(), args: json!({"patch": patch_text(&kind, &raw)}), timeout_ms: None }
            };
            let evs = rt.block_on(runner.run("s1", &mut seq, inv));
            let after = sbx.snapshot();
            let mut ck = 9u64; // no checkpoint frame
            let mut tool = V_OTHER;
            let mut id = None;
            let mut text = String::new();
            let mut first_err = true;
            for e in &evs {
                match &e.kind {
                    EventKind::CheckpointCreated { checkpoint_id, files, .. } => {
                        ck = V_OK;
                        out = files.first().cloned().unwrap_or_default();
                        id = Some(checkpoint_id.clone());
                    }
                    EventKind::CheckpointFailed { error, .. } => ck = verdict_of_msg(error),
                    EventKind::ToolStderr { chunk, .. } => {
                        if first_err {
                            tool = verdict_of_msg(chunk);
                            first_err = false;
                        }
                        text.push_str(chunk);
                    }
                    EventKind::ToolStdout { chunk, .. } => text.push_str(chunk),
                    EventKind::ToolEnded { exit_code, .. } => {
                        if *exit_code == 0 {
                            tool = V_OK;
                        }
                    }
                    _ => {}
                }
            }
            if tool == V_OTHER {
                tool = V_OK;
                note = "os-error".into();
            }
            if ck == V_OTHER {
                ck = V_OK; // the path was accepted; the operating system refused later (a directory, a long name)
                note = "ck-os-error".into();
            }
            verdict = ck * 10 + tool;
            st.check(&kind, &before, &after, tool != V_OK, &text);
            if tool == V_OK && note.is_empty() {
                effect_at_target(&mut st, &kind, &sbx.root, &raw, &[], true);
                let created: Vec<Comps> = diff(&before, &after).into_iter().filter(|c| is_ws(&c.path) && !is_store(&c.path) && !c.is_dir && c.kind != "deleted").map(|c| ws_rel(&c.path)).collect();
                if created.len() == 1 {
                    eff = Some(created[0].clone());
                }
            }
            if let Some(id) = id {
                edit_everything(&sbx);
                let b2 = sbx.snapshot();
                let _ = runner.rewind_checkpoint("s1", &mut seq, &id);
                let a2 = sbx.snapshot();
                st.check(&format!("{kind}/rewind"), &b2, &a2, false, "");
            }
        }
        // a command without a `cwd` argument: the child's working directory must be the workspace
        // root whatever the working directory of the serving process is (relative paths inside the
        // command land there)
        "bash_nocwd" => {
            let h = registry(&sbx.root).get("bash").expect("tool");
            let o = rt.block_on((h)(ToolInvocation { name: "bash".into(), args: json!({"command": "pwd -P; echo made-by-bash > nocwd_made.txt"}), timeout_ms: None }));
            let after = sbx.snapshot();
            verdict = if o.exit_code == 0 { V_OK } else { V_OTHER };
            st.check(&kind, &before, &after, false, "");
            let l = o.stdout.first().map(|l| l.trim_end_matches('\n').to_string()).unwrap_or_default();
            if o.exit_code == 0 {
                if l == root_s {
                    eff = Some(vec![]);
                } else {
                    st.viol.push((format!("bash without a cwd argument ran in {l}, not in the workspace root"), "default_cwd_not_root".into()));
                }
            }
        }
        "task_nocwd" | "task_spawn" => {
            // a real background task (pipes or pty) through the TaskEngine
            let pty = case["pty"].as_bool().unwrap_or(false);
            let data = Scratch::new("c13d");
            let log_path = data.path().join("events.jsonl");
            let mut args = json!({"command": "pwd -P > nocwd_task.txt"});
            if kind == "task_spawn" {
                args["cwd"] = json!(raw);
            }
            let trt = tokio::runtime::Builder::new_multi_thread().worker_threads(2).enable_all().build().unwrap();
            let status = trt.block_on(async {
                let engine = match ripd::SessionEngine::new(data.path().to_path_buf(), sbx.root.clone(), None) {
                    Ok(e) => e,
                    Err(e) => return format!("engine: {e}"),
                };
                let id = ripd::verif::spawn_shell_task(&engine, "bash", args, pty);
                for _ in 0..6000 {
                    tokio::time::sleep(std::time::Duration::from_millis(20)).await;
                    let text = std::fs::read_to_string(&log_path).unwrap_or_default();
                    for line in text.lines() {
                        if let Ok(v) = serde_json::from_str::<Value>(line) {
                            if v["session_id"] == json!(id) && v["type"] == "tool_task_status" {
                                if let Some(s) = v["status"].as_str() {
                                    if matches!(s, "exited" | "failed" | "cancelled") {
                                        return format!("{s}:{}", v["error"].as_str().unwrap_or(""));
                                    }
                                }
                            }
                        }
                    }
                }
                "timeout".to_string()
            });
            let after = sbx.snapshot();
            note = status.clone();
            let refused = status.starts_with("failed");
            verdict = if refused { verdict_of_msg(&status) } else { V_OK };
            if verdict == V_OTHER {
                verdict = V_OK;
                note = "os-error".into();
            }
            // the engine keeps its task logs under <root>/.rip: not a side effect of the path argument
            let keep = |l: &Listing| -> Listing { l.iter().filter(|(p, _)| !is_store(p)).map(|(a, b)| (a.clone(), b.clone())).collect() };
            st.check(&kind, &keep(&before), &keep(&after), verdict != V_OK, "");
            if status.starts_with("exited") {
                let made: Vec<Comps> = diff(&before, &after).into_iter().filter(|c| !c.is_dir && c.path.last().map(|n| n == b"nocwd_task.txt").unwrap_or(false)).map(|c| c.path).collect();
                if made.len() == 1 && is_ws(&made[0]) {
                    let mut rel = ws_rel(&made[0]);
                    rel.pop();
                    if kind == "task_nocwd" && !rel.is_empty() {
                        st.viol.push((format!("task without a cwd argument ran in {}", show_comps(&made[0])), "default_cwd_not_root".into()));
                    }
                    eff = Some(rel);
                } else if kind == "task_nocwd" {
                    st.viol.push((format!("task without a cwd argument did not run in the workspace root ({})", made.iter().map(show_comps).collect::<Vec<_>>().join(", ")), "default_cwd_not_root".into()));
                }
                if kind == "task_spawn" {
                    if let Some(t) = expected_target(&sbx.root, &raw) {
                        if std::fs::read_to_string(t.join("nocwd_task.txt")).map(|c| c.trim_end() != t.to_string_lossy()).unwrap_or(true) {
                            st.viol.push((format!("task_spawn '{}': exited, but did not run in {}", short(&raw), t.display()), "effect_not_at_root_join".into()));
                        }
                    }
                }
            } else if status == "timeout" {
                note = "timeout".into();
            }
        }
        // `ls` / `grep` consult ignore files; one that lies ABOVE the root is a file outside the root that is read
        "ls_ignore" | "grep_ignore" => {
            // (the ignore files were placed before the `before` snapshot by the sandbox set-up below)
            let name = if kind == "ls_ignore" { "ls" } else { "grep" };
            let args = if name == "ls" { json!({"path": raw, "recursive": true, "include_hidden": true}) } else { json!({"pattern": "in-", "path": raw, "include_hidden": true}) };
            let h = registry(&sbx.root).get(name).expect("tool");
            let o = rt.block_on((h)(ToolInvocation { name: name.into(), args, timeout_ms: None }));
            let after = sbx.snapshot();
            verdict = if o.exit_code == 0 { V_OK } else { V_OTHER };
            st.check(&kind, &before, &after, false, &tool_output_text(&o));
            if o.exit_code == 0 {
                if let Some(t) = expected_target(&sbx.root, &raw) {
                    // every regular file of the workspace below the target must be listed / matched
                    let files: Vec<String> = list_tree(&t).iter().filter(|(_, n)| matches!(n, Node::File(_))).map(|(c, _)| show_comps(c)).collect();
                    let missing: Vec<&String> = files.iter().filter(|f| !o.stdout.iter().any(|l| l.contains(f.as_str()))).collect();
                    if !missing.is_empty() {
                        st.viol.push((format!("{name} '{}' omitted {:?}: an ignore file above the workspace root was read and applied", short(&raw), missing), "ancestor_ignore_file_read".into()));
                    }
                }
            }
        }
        // the store can be written through the file tools (it lies inside the root): a recorded path
        // that rewind reads back from there is a path string like any other
        "rewind_tampered" => {
            let h = registry(&sbx.root).get("write").expect("tool");
            let exists = case["exists"].as_bool().unwrap_or(false);
            let id = case["id"].as_str().unwrap_or("x").to_string();
            let meta = json!({"id": id, "session_id": "s1", "label": "t", "created_at_ms": 1, "files": [{"path": raw, "exists": exists, "sha256": null}]});
            let mut ok = true;
            for (p, c) in [(".rip/checkpoints/s1/x/checkpoint.json".to_string(), meta.to_string()), (".rip/checkpoints/s1/x/files/keep".to_string(), "k".to_string()), (".rip/checkpoints/s1/x/planted.txt".to_string(), "PLANTED-BY-TOOL\n".to_string())] {
                let o = rt.block_on((h)(ToolInvocation { name: "write".into(), args: json!({"path": p, "content": c}), timeout_ms: None }));
                ok &= o.exit_code == 0;
            }
            if case["decoy"].as_bool().unwrap_or(false) {
                let decoy = sbx.sb.join("decoy");
                std::fs::create_dir_all(decoy.join("files")).unwrap();
                std::fs::write(decoy.join("files/a.txt"), "SENTINEL-DECOY\n").unwrap();
                std::fs::write(decoy.join("checkpoint.json"), json!({"id": id, "session_id": "s1", "label": "decoy", "created_at_ms": 1, "files": [{"path": "a.txt", "exists": true, "sha256": null}]}).to_string()).unwrap();
            }
            let hook = ripd::verif::workspace_checkpoint_hook(sbx.root.clone()).expect("hook");
            let b2 = sbx.snapshot();
            let r = hook.rewind("s1", &id);
            let a2 = sbx.snapshot();
            verdict = match &r {
                Ok(_) => V_OK,
                Err(m) => verdict_of_msg(m),
            };
            if verdict == V_OTHER {
                verdict = V_OK;
                note = "os-error".into();
            }
            if !ok {
                note = "setup-failed".into();
            }
            st.check(&kind, &b2, &a2, verdict != V_OK, "");
        }
        // the std::path functions the tools apply to a resolved path (model: parent / with_extension / file_name)
        "stdpath" => {
            verdict = V_OK;
            if raw.contains('\0') {
                // with_extension / parent are pure string functions; NUL is as good as any byte
            }
            let p = sbx.root.join(&raw);
            let enc = |o: Option<String>| o.unwrap_or_default();
            let e = vec![
                enc(p.parent().map(|x| x.to_string_lossy().to_string())),
                p.with_extension("tmp-X").to_string_lossy().to_string(),
                enc(std::path::Path::new(&raw).file_name().map(|x| x.to_string_lossy().to_string())),
            ];
            eff = Some(e.into_iter().map(|x| x.into_bytes()).collect());
        }
        "rewind_id" => {
            // a genuine checkpoint exists; a decoy store lies outside the root
            let _ = ws.create_checkpoint("s1", "real", &[PathBuf::from("a.txt")]);
            let decoy = sbx.sb.join("decoy");
            std::fs::create_dir_all(decoy.join("files")).unwrap();
            std::fs::write(decoy.join("files/a.txt"), "SENTINEL-DECOY\n").unwrap();
            std::fs::write(decoy.join("checkpoint.json"), format!("{{\"id\":{},\"session_id\":\"s1\",\"label\":\"decoy\",\"created_at_ms\":1,\"files\":[{{\"path\":\"a.txt\",\"exists\":true,\"sha256\":null}}]}}", serde_json::to_string(&raw).unwrap())).unwrap();
            let hook = ripd::verif::workspace_checkpoint_hook(sbx.root.clone()).expect("hook");
            let b2 = sbx.snapshot();
            let r = hook.rewind("s1", &raw);
            let a2 = sbx.snapshot();
            verdict = if r.is_ok() { V_OK } else { V_OTHER };
            st.check(&kind, &b2, &a2, true, "");
            if r.is_ok() {
                st.viol.push(("rewind accepted an id that names no checkpoint of the session".into(), "rewind_id_traversal".into()));
            }
        }
        _ => {}
    }
    let _ = std::env::set_current_dir("/");
    if let Some(w) = watcher.as_mut() {
        let evs = w.drain();
        if !evs.is_empty() {
            let last = sbx.snapshot();
            let stays: Vec<Change> = diff(&before, &last).into_iter().filter(|c| !is_ws(&c.path)).collect();
            // a change that is still there is reported by the comparison of the snapshots (classes outside_*)
            if stays.is_empty() && !harness_touches_outside(&kind) {
                let mut seen: Vec<String> = vec![];
                for (what, p) in &evs {
                    let rel = p.strip_prefix(&sbx.top).map(|x| x.to_string_lossy().to_string()).unwrap_or_else(|_| p.to_string_lossy().to_string());
                    let e = format!("{what} {rel}");
                    if !seen.contains(&e) {
                        seen.push(e);
                    }
                }
                st.viol.push((format!("{kind} '{}': outside the workspace root while the call ran (gone again afterwards): {}", short(&raw), seen.join("; ")), "outside_touched_transiently".into()));
            }
        }
    }
    if must_refuse(&kind, &raw, &root_s) {
        let refused = match model_kind(&kind) {
            4 | 5 => verdict % 10 != V_OK,
            _ => verdict != V_OK,
        };
        if !refused {
            st.viol.push((format!("{kind}: '{}' is absolute or has a parent-directory segment and was not refused", short(&raw)), "not_refused".into()));
        }
    }
    Obs { root: root_s, raw, verdict, out, eff, viol: st.viol, note }
}

/// kinds in which the HARNESS itself writes next to the root between the two snapshots (planted stores, edits of the
/// sentinels between create and rewind)
fn harness_touches_outside(kind: &str) -> bool {
    let _ = kind;
    false
}

fn short(s: &str) -> String {
    if s.chars().count() > 80 {
        format!("{}…({} chars)", s.chars().take(60).collect::<String>(), s.chars().count())
    } else {
        s.to_string()
    }
}

// ------------------------------------------------------------------ generator
const KINDS: [&str; 21] = [
    "stdpath", "stdpath",
    "read", "write", "write_plain", "write_append", "ls", "grep", "bash", "task", "patch_add", "patch_delete", "patch_update", "patch_move", "tool_patch_add", "tool_patch_move",
    "ck_create", "ck_create", "ck_runner", "auto_write", "auto_patch",
];
const BASES: [&str; 12] = ["a.txt", "d/x.txt", "d/e/z.txt", "new.txt", "d/new/f.txt", "only_ws.txt", "d", "d/e", "missing/f.txt", "only_else.txt", "ws/a.txt", "deep/er/still/f.txt"];
const FIXED: [&str; 64] = [
    "../outside.txt", "../a.txt", "../new_outside.txt", "../elsewhere/a.txt", "../ws/a.txt", "../ws2/a.txt", "d/../a.txt", "d/../../outside.txt", "d/e/../../../outside.txt", "a.txt/..", "..", "../..",
    "./../outside.txt", "d/..", "../../up1.txt", "../../../up2.txt", "{ROOT}", "{ROOT}/", "{ROOT}//a.txt", "{ROOT}/./a.txt", "{ROOT}/d/../a.txt", "{ROOT}/../outside.txt", "{ROOT}/../ws/a.txt", "{ROOT}/a.txt",
    "{ROOT}/d/x.txt", "{ROOT}/new.txt", "{SB}/outside.txt", "{SB}/ws2/a.txt", "{ROOT}2/a.txt", "{SB}/elsewhere/a.txt", "/nonexistent-rv-c13/x", "/", "//a.txt", "", ".", "./",
    "./a.txt", "a.txt/", "a.txt/.", "d//x.txt", "d/./x.txt", ".//a.txt", "d/", "d/.", "./.", "a.txt//", "...", "..a",
    "a..", "d/...", ".. ", " ..", "..\u{a0}", "\u{2003}../outside.txt", " /abs", "\t../x", " a.txt", "a.txt ", "\u{a0}a.txt\u{2003}", "ü.txt",
    "日本/語.txt", "..\\outside.txt", "d\\..\\..\\outside.txt", "a\0b",
];
const SEGS: [&str; 14] = ["", ".", "..", "a.txt", "d", "e", "x.txt", "new", "...", " ", "ws", "outside.txt", "é", ".rip"];


// cores: (category, is_dir, string)
const CORES: [(&str, bool, &str); 18] = [
    ("absout", false, "{SB}/outside.txt"),
    ("absout", true, "{SB}/elsewhere"),
    ("absin", false, "{ROOT}/a.txt"),
    ("climb", false, "../outside.txt"),
    ("climb", true, "../elsewhere"),
    ("rel", false, "a.txt"),
    ("rel", true, "d"),
    ("rel", false, "new.txt"),
    // the first eight are the quick tier's representatives
    ("absout", false, "{SB}/planted.txt"),
    ("absout", false, "{SB}/elsewhere/d/x.txt"),
    ("absout", true, "{SB}"),
    ("absin", true, "{ROOT}/d"),
    ("absin", false, "{ROOT}/new.txt"),
    ("climb", false, "../planted.txt"),
    ("climb", false, "d/../../outside.txt"),
    ("climb", true, "d/e/../../../elsewhere/d"),
    ("rel", false, "d/x.txt"),
    ("rel", false, "d/new/f.txt"),
];
const FILE_TOOLS: [&str; 5] = ["read", "write", "write_plain", "write_append", "grep"];
const DIR_TOOLS: [&str; 3] = ["ls", "grep", "bash"];
const HEADERS: [&str; 4] = ["patch_add", "patch_delete", "patch_update", "patch_move"];

fn deco_case(kind: &str, core: &str, pre: &str, inf: &str, suf: &str, cwd: u64) -> Value {
    json!({"kind": kind, "raw": core, "deco": {"pre": pre, "inf": inf, "suf": suf}, "cwd": cwd})
}
fn header_safe(pre: &str, suf: &str) -> bool {
    !pre.contains(['\n', '\r']) && !suf.contains(['\n', '\r'])
}
/// Every decoration around every core, one decoration at a time (prefix x core, infix x core,
/// suffix x core), and each such string through every resolver: the builtin tools' (a tool that
/// fits the core: file / directory), the task cwd's, the patch header parser, apply_patch's
/// safe_join, the checkpoint's to_relative and the auto-checkpoint's files_for_invocation.
/// `all_tools`: every fitting builtin tool instead of one in rotation.
fn systematic(seed: u64, ncores: usize, all_tools: bool) -> Vec<Value> {
    let mut v = vec![];
    let mut k = seed as usize;
    let mut decos: Vec<(&str, &str, &str)> = vec![];
    for p in PREFIXES.iter() {
        decos.push((p, "id", ""));
    }
    for i in INFIXES.iter().skip(1) {
        decos.push(("", i, ""));
    }
    for s in SUFFIXES.iter().skip(1) {
        decos.push(("", "id", s));
    }
    // the combinations the single decorations do not reach: a prefix that needs a rewritten core
    decos.push(("./", "bs", ""));
    decos.push(("./", "dbl", "/"));
    decos.push((" ", "id", " "));
    decos.push(("\u{a0}", "id", "\u{2003}"));
    decos.push(("./", "pct", ""));
    decos.push((".//", "id", "/."));
    for (pre, inf, suf) in decos {
        for (_, is_dir, core) in CORES.iter().take(ncores) {
            k += 1;
            let cwd = (k % 3) as u64;
            let tools: &[&str] = if *is_dir { &DIR_TOOLS[..] } else { &FILE_TOOLS[..] };
            if all_tools {
                for t in tools {
                    v.push(deco_case(t, core, pre, inf, suf, cwd));
                }
            } else {
                v.push(deco_case(tools[k % tools.len()], core, pre, inf, suf, cwd));
            }
            v.push(deco_case("task", core, pre, inf, suf, ((k + 1) % 3) as u64));
            v.push(deco_case("stdpath", core, pre, inf, suf, 0));
            if header_safe(pre, suf) {
                v.push(deco_case(HEADERS[k % 4], core, pre, inf, suf, cwd));
                if !*is_dir {
                    v.push(deco_case(if k % 2 == 0 { "tool_patch_add" } else { "tool_patch_move" }, core, pre, inf, suf, ((k + 2) % 3) as u64));
                    v.push(deco_case(if k % 3 == 0 { "auto_patch" } else { "auto_write" }, core, pre, inf, suf, cwd));
                }
            } else if !*is_dir {
                v.push(deco_case("auto_write", core, pre, inf, suf, cwd));
            }
            v.push(deco_case(if k % 2 == 0 { "ck_create" } else { "ck_runner" }, core, pre, inf, suf, ((k + 1) % 3) as u64));
        }
    }
    v
}

/// the cases around the path arguments: no cwd argument at all, ignore files above the root, a store
/// written through the file tools
fn special_cases(thorough: bool) -> Vec<Value> {
    let mut v = vec![];
    for cwd in 0..3u64 {
        v.push(json!({"kind": "bash_nocwd", "raw": "", "cwd": cwd}));
        v.push(json!({"kind": "task_nocwd", "raw": "", "cwd": cwd, "pty": false}));
        for raw in [".", "d", ""] {
            v.push(json!({"kind": "ls_ignore", "raw": raw, "cwd": cwd}));
            v.push(json!({"kind": "grep_ignore", "raw": raw, "cwd": cwd}));
        }
        v.push(json!({"kind": "rewind_tampered", "raw": "../outside.txt", "exists": false, "cwd": cwd}));
        v.push(json!({"kind": "rewind_tampered", "raw": "../new_planted.txt", "exists": true, "cwd": cwd}));
        v.push(json!({"kind": "rewind_tampered", "raw": "{SB}/outside.txt", "exists": false, "cwd": cwd}));
        v.push(json!({"kind": "rewind_tampered", "raw": "d/../../outside.txt", "exists": false, "cwd": cwd}));
        v.push(json!({"kind": "rewind_tampered", "raw": "a.txt", "exists": false, "cwd": cwd}));
        v.push(json!({"kind": "rewind_tampered", "raw": "a.txt", "exists": true, "id": "../../../../decoy", "decoy": true, "cwd": cwd}));
        v.push(json!({"kind": "rewind_tampered", "raw": "a.txt", "exists": true, "id": "{SB}/decoy", "decoy": true, "cwd": cwd}));
    }
    let spawn: &[(&str, &str, &str, &str)] = &[("d", "", "id", ""), ("d", "./", "id", "/"), ("{SB}/elsewhere", "./", "id", ""), ("{SB}/elsewhere", ".//", "id", ""), ("../elsewhere", "", "id", ""), ("../elsewhere", " ", "id", ""), ("d/e", "", "dbl", "/."), ("{ROOT}/d", "", "id", "")];
    for (i, (core, pre, inf, suf)) in spawn.iter().enumerate() {
        let mut c = deco_case("task_spawn", core, pre, inf, suf, (i % 3) as u64);
        // (pty tasks never reach a terminal status in this sandbox - with or without the harness's
        // mount namespace; the pty path is covered by the T1 order facts and the resolver hook)
        v.push(c);
        if !thorough && i >= 5 {
            break;
        }
    }
    v
}
/// ROOT block: path strings that name the workspace root itself (`` `.` `./` `././` `./.` `.//` ...) or a directory
/// inside it (`d` `d/` `d/.` `./d//` ...) - accepted by every resolver (not absolute, no `..`), but a place where
/// "the root" and "a path below the root" coincide: through every path-taking argument - the file tools (a write to a
/// directory must fail without touching anything), ls / grep / bash cwd, the task cwd resolver, a REAL pipes task
/// (`pwd -P` + a file created by the command must be in the root, whatever the process cwd), patch headers, checkpoint
/// create, the auto checkpoint.  Every string with the process cwd equal to the root, next to it and above it.
const ROOT_STRINGS: [&str; 9] = ["", ".", "./", "././", "./.", ".//", "./././/", ".//.", "./././."];
const DIR_STRINGS: [&str; 8] = ["d", "d/", "d/.", "./d", "./d//", "d/./", "d/e/", ".//d/e/."];
fn root_cases(seed: u64, thorough: bool) -> Vec<Value> {
    let mut v = vec![];
    let mut k = seed as usize;
    for (i, raw) in ROOT_STRINGS.iter().chain(DIR_STRINGS.iter()).enumerate() {
        let names_root = i < ROOT_STRINGS.len();
        let cwds: Vec<u64> = if thorough { vec![0, 1, 2] } else { vec![(k % 3) as u64] };
        for cwd in cwds {
            for kind in ["read", "write", "write_plain", "write_append", "ls", "grep", "bash", "task", "patch_add", "tool_patch_add", "ck_create", "ck_runner", "auto_write"] {
                // a root-naming string with a doubled separator (`.//`) is one normalisation away from `/`: a tree walk
                // from there (a mutated ls / grep) never comes back (/proc/kmsg blocks); the other eleven kinds carry it
                if (kind == "ls" || kind == "grep") && names_root && raw.contains("//") {
                    continue;
                }
                v.push(json!({"kind": kind, "raw": raw, "cwd": cwd}));
            }
        }
        // the real task: every root-naming string away from the root (and at the root in rotation); directories in rotation
        let spawn_cwds: Vec<u64> = if thorough { vec![0, 1, 2] } else if names_root { vec![1 + (k % 2) as u64, if i % 3 == 0 { 0 } else { 2 - (k % 2) as u64 }] } else { vec![(k % 3) as u64] };
        if names_root || thorough || i % 3 == 0 {
            for cwd in spawn_cwds {
                v.push(json!({"kind": "task_spawn", "raw": raw, "cwd": cwd, "pty": false}));
            }
        }
        k += 1;
    }
    v
}

/// random triple of decorations around a random core
fn gen_deco(r: &mut Rng, kind: &str) -> Value {
    let (_, _, core) = *r.pick(&CORES[..]);
    let pre = if r.chance(2, 3) { *r.pick(&PREFIXES[..]) } else { "" };
    let inf = if r.chance(1, 3) { *r.pick(&INFIXES[..]) } else { "id" };
    let suf = if r.chance(1, 3) { *r.pick(&SUFFIXES[..]) } else { "" };
    deco_case(kind, core, pre, inf, suf, r.below(3))
}

fn gen_raw(r: &mut Rng) -> String {
    match r.below(10) {
        0 | 1 => r.pick(&BASES[..]).to_string(),
        2 | 3 | 4 => r.pick(&FIXED[..]).to_string(),
        5 => match r.below(6) {
            0 => "L".repeat(255),
            1 => "L".repeat(256),
            2 => format!("d/{}", "L".repeat(300)),
            3 => "L".repeat(4096),
            4 => format!("{}f", "a/".repeat(300)),
            _ => format!("{}/../outside.txt", "L".repeat(300)),
        },
        _ => {
            // random composition; at most four `..` so that an escape stays inside the scratch directory
            let n = r.range(1, 6);
            let mut segs = vec![];
            let mut ups = 0;
            for _ in 0..n {
                let s = *r.pick(&SEGS[..]);
                if s == ".." {
                    ups += 1;
                    if ups > 4 {
                        continue;
                    }
                }
                segs.push(s.to_string());
            }
            let body = segs.join("/");
            match r.below(12) {
                0 => format!("{{ROOT}}/{body}"),
                1 => format!("/{body}"),
                2 => format!("{{SB}}/{body}"),
                _ => body,
            }
        }
    }
}
fn gen_case(r: &mut Rng) -> Value {
    let kind = *r.pick(&KINDS[..]);
    let mut raw = gen_raw(r);
    if model_kind(kind) == 1 || model_kind(kind) == 2 || model_kind(kind) == 5 {
        raw = raw.replace(['\n', '\r'], "");
    }
    if r.chance(1, 4) {
        return gen_deco(r, kind);
    }
    if r.chance(1, 60) {
        return json!({"kind": "rewind_id", "raw": *r.pick(&["../../../../decoy", "{SB}/decoy", "..", "", "missing", "../s1"]), "cwd": r.below(3)});
    }
    json!({"kind": kind, "raw": raw, "cwd": r.below(3)})
}

fn corpus(dir: &std::path::Path) -> Vec<Value> {
    let mut v = vec![];
    let mut names: Vec<_> = std::fs::read_dir(dir).map(|rd| rd.flatten().map(|e| e.path()).collect()).unwrap_or_default();
    names.sort();
    for p in names {
        if p.extension().map(|e| e == "json").unwrap_or(false) {
            if let Ok(j) = serde_json::from_str::<Value>(&std::fs::read_to_string(&p).unwrap_or_default()) {
                let c = j.get("case").cloned().unwrap_or(j);
                if let Some(a) = c.as_array() {
                    v.extend(a.iter().cloned());
                } else {
                    v.push(c);
                }
            }
        }
    }
    v
}

fn coq_case(kind: &str, o: &Obs) -> String {
    format!(
        "{{| c_kind := {}; c_root := {}; c_raw := {}; c_verdict := {}; c_out := {}; c_has_eff := {}; c_eff := {} |}}",
        model_kind(kind),
        coq_str(&o.root),
        coq_str(&o.raw),
        o.verdict,
        coq_str(&o.out),
        coq_bool(o.eff.is_some()),
        coq_list(o.eff.as_deref().unwrap_or(&[]), |c| coq_str(&String::from_utf8_lossy(c)))
    )
}

fn worker(a: &Args) {
    let inp = a.extra.get("worker").unwrap();
    let outp = a.extra.get("wout").unwrap();
    let wdir = std::path::Path::new(outp).parent().map(|p| p.to_path_buf()).unwrap_or_default();
    let _ = jail_readonly_root(&[std::path::Path::new("/var/tmp"), std::path::Path::new("/tmp"), &wdir]);
    let jobs: Vec<Value> = serde_json::from_slice(&std::fs::read(inp).unwrap()).unwrap();
    let rt = tokio::runtime::Builder::new_current_thread().enable_all().build().unwrap();
    let mut res = vec![];
    for j in &jobs {
        let got = std::panic::catch_unwind(std::panic::AssertUnwindSafe(|| run_case(&rt, j)));
        let _ = std::env::set_current_dir("/");
        res.push(match got {
            Err(_) => json!({"panicked": true}),
            Ok(o) => json!({"root": o.root, "raw": o.raw, "verdict": o.verdict, "out": o.out, "note": o.note,
                "eff": o.eff.as_ref().map(|c| c.iter().map(|x| String::from_utf8_lossy(x).to_string()).collect::<Vec<_>>()),
                "viol": o.viol.iter().map(|(w, c)| json!({"what": w, "class": c})).collect::<Vec<_>>()}),
        });
    }
    std::fs::write(outp, serde_json::to_vec(&res).unwrap()).unwrap();
}

fn main() {
    let a = parse_args();
    if a.extra.contains_key("worker") {
        return worker(&a);
    }
    let verif_root = a.extra.get("verif").cloned().unwrap_or_else(|| env!("CARGO_MANIFEST_DIR").to_string() + "/..");
    let mut res = RunResult::new("C13", &a);
    res.rule = "cases = (path-taking argument, path string, process cwd): 19 argument kinds (read/write x3/ls/grep/bash cwd/task cwd/4 patch headers/apply_patch add+move/checkpoint create via Workspace and via ToolRunner + rewind/auto-checkpoint of write and apply_patch/rewind id) x strings from a grammar (plain, `..` in any position, absolute inside/outside/next to the root, '.', '', trailing and doubled slashes, unicode blanks, backslashes, 255/256/4096-byte components, long paths, NUL, random segment compositions) + SYSTEMATIC block: every prefix (./ .// ././/  // / /./ blanks, unicode blanks, BOM, backslash, %2F, %2e%2e%2f, NUL, ~/, file://, 3000-byte ./ runs), infix (// /./ backslash, mixed, %2F, fullwidth, division slash) and suffix (/ /. // /./ blanks, NUL, %00, backslash) decoration around every core (absolute outside / absolute inside / `..` climbing / plain relative; file and directory) through each of the six resolvers, + random decoration triples; + ROOT block: every string naming the root itself (`` . ./ ././ ./. .// ...) or a directory (d d/ d/. ./d// ...) through every path-taking argument incl. a REAL pipes task (pwd -P and a file the command creates must lie in the root); x cwd in {root, sibling, parent}; the oracle judges by effect: nothing outside the root changes, no outside bytes in outputs, and a reported success has its effect exactly at <root>/<segments>; non-trivial = the string has at least one non-trivial segment".into();
    let n = if a.thorough() { 30000 } else { 900 };
    let mut r = Rng::new(a.seed);
    let mut jobs: Vec<Value> = if let Some(rp) = &a.replay {
        let j: Value = serde_json::from_str(&std::fs::read_to_string(rp).unwrap()).unwrap();
        vec![j.get("case").cloned().unwrap_or(j)]
    } else {
        corpus(&std::path::Path::new(&verif_root).join("corpus/C13"))
    };
    if a.replay.is_none() {
        jobs.extend(special_cases(a.thorough()));
        jobs.extend(root_cases(a.seed, a.thorough()));
        jobs.extend(if a.thorough() { systematic(a.seed, CORES.len(), true) } else { systematic(a.seed, 8, false) });
        for _ in 0..n {
            jobs.push(gen_case(&mut r));
        }
    }
    let obs = run_workers(&a.out, &jobs, 6, 3000);
    let mut w = CaseWriter::new(&a.out, "Model.Paths", "check_case", "model_obs", 100);
    let mut distinct = Distinct::default();
    for (i, (j, o)) in jobs.iter().zip(obs.iter()).enumerate() {
        res.evaluations += 1;
        res.oracle_checks += 1;
        let kind = j["kind"].as_str().unwrap_or("");
        res.bump(&format!("kind={kind}"));
        res.bump(&format!("cwd={}", j["cwd"]));
        if let Some(d) = j.get("deco") {
            res.bump("decorated");
            if d["pre"].as_str().map(|x| !x.is_empty()).unwrap_or(false) {
                res.bump("deco-prefix");
            }
            if d["inf"].as_str().map(|x| x != "id").unwrap_or(false) {
                res.bump("deco-infix");
            }
            if d["suf"].as_str().map(|x| !x.is_empty()).unwrap_or(false) {
                res.bump("deco-suffix");
            }
        }
        if o.get("panicked").is_some() || o.get("crashed").is_some() {
            res.impl_panics += 1;
            res.oracle_violations.push(OracleViolation { case_id: i as i64, what: format!("{kind} panicked / the worker died"), class: "panic".into(), replay: j.clone() });
            continue;
        }
        let ob = Obs {
            root: o["root"].as_str().unwrap_or("").into(),
            raw: o["raw"].as_str().unwrap_or("").into(),
            verdict: o["verdict"].as_u64().unwrap_or(99),
            out: o["out"].as_str().unwrap_or("").into(),
            eff: o["eff"].as_array().map(|v| v.iter().map(|x| x.as_str().unwrap_or("").as_bytes().to_vec()).collect()),
            viol: vec![],
            note: o["note"].as_str().unwrap_or("").into(),
        };
        res.bump(&format!("verdict={}", ob.verdict));
        if !ob.note.is_empty() {
            res.bump(&format!("note={}", ob.note));
        }
        if ob.eff.is_some() {
            res.bump("effect-observed");
        }
        for v in o["viol"].as_array().cloned().unwrap_or_default() {
            res.oracle_violations.push(OracleViolation { case_id: i as i64, what: v["what"].as_str().unwrap_or("").into(), class: v["class"].as_str().unwrap_or("").into(), replay: j.clone() });
        }
        if !a.oracle_only() && model_kind(kind) != 99 {
            let id = w.push(coq_case(kind, &ob));
            if res.case_index.len() < 3000 {
                res.case_index.insert(id.to_string(), j.clone());
            }
        }
        let raw = j["raw"].as_str().unwrap_or("");
        if raw.split('/').any(|s| !s.is_empty() && s != ".") {
            distinct.add(&format!("{kind}|{raw}|{}|{}", j.get("deco").map(|d| d.to_string()).unwrap_or_default(), j["cwd"]));
            if res.samples.len() < 3 && i % 11 == 5 {
                res.samples.push(json!({"case": j, "verdict": ob.verdict, "out": ob.out}));
            }
        }
    }
    w.flush();
    res.distinct_nontrivial = distinct.count();
    res.case_files = w.files.iter().map(|p| p.display().to_string()).collect();
    res.write(&a.out);
    let mut classes = std::collections::BTreeMap::new();
    for v in &res.oracle_violations {
        *classes.entry(v.class.clone()).or_insert(0u64) += 1;
    }
    println!("c13: {} cases, {} distinct non-trivial, {} oracle violations {:?}, {} panics", res.evaluations, res.distinct_nontrivial, res.oracle_violations.len(), classes, res.impl_panics);
}
