//! C02 — the truth log is append-only; read-only / dry-run / no-op capabilities never write.
//! Runs random histories of the public ContinuityStore capabilities (every request-parameter
//! combination of the read-only ones, unknown / malformed thread ids, cache faults, restarts) on the
//! real crates.  Independent oracle: bytes of events.jsonl before each call are an exact prefix of the
//! bytes after it, the suffix is whole newline-terminated frames, silent invocations add nothing.
//! Correspondence: frames in the log after every call + the final log (canonical) vs
//! coq/Model/ContStore.v (`check_case_c02`).
#[path = "../contlib/mod.rs"]
mod contlib;
#[path = "../c02torn/mod.rs"]
mod torn;
use contlib::*;
use ripd::*;
use rv::*;
use serde_json::json;

#[derive(Clone, Copy, Debug, PartialEq, Eq)]
enum Cp {
    List,
    Get,
    Subscribe,
    Replay,
    CutPoints,
    CompactionStatus,
    CursorStatus,
    SelectionStatus,
    EnsureDefault,
    Append(u64),
    Branch,
    Handoff,
    Checkpoint,
    CursorRotate,
    Auto,
    AutoSchedule,
}
impl Cp {
    fn coq(&self) -> String {
        match self {
            Cp::Append(t) => format!("(CapAppend {})", coq_etype(*t)),
            other => format!("Cap{other:?}"),
        }
    }
    fn read_only(&self) -> bool {
        matches!(self, Cp::List | Cp::Get | Cp::Subscribe | Cp::Replay | Cp::CutPoints | Cp::CompactionStatus | Cp::CursorStatus | Cp::SelectionStatus)
    }
}

#[derive(Clone, Debug, Default)]
struct Params {
    stride: Option<u64>,
    limit: Option<u32>,
    max_new: Option<u32>,
    dry_run: Option<bool>,
    execute: Option<bool>,
    block: Option<bool>,
    sel: u8,     // 0 none, 1 from_seq in range, 2 from_seq out of range, 3 message id known, 4 unknown id, 5 id of a non-message frame, 6 both
    summary: u8, // 0 markdown, 1 artifact id, 2 both, 3 neither
    pick: u64,
    big: Option<usize>, // Append(4): size in bytes of the frame line INCLUDING its newline (exact when the thread has a message)
    esc: bool,          // big content full of characters the serializer escapes (written in many pieces)
    // Auto / AutoSchedule: issue the call WITHOUT dry_run only when the harness's own planner (cut points
    // recomputed from the truth log) finds nothing to do; otherwise issue it as a dry run
    only_if_noop: bool,
    // Append(8): what the cursor frame records - [provider; endpoint; model], Option as 0 / 1+x over CUR_PROVIDERS /
    // CUR_ENDPOINTS / CUR_MODELS (None: provider 0, endpoint 0, model pick % 2, the frame of the earlier rounds)
    rec: Option<[u8; 3]>,
    // CursorRotate: the filters of the request, same encoding (None: the two filters of the earlier rounds)
    flt: Option<[u8; 3]>,
}

const CUR_PROVIDERS: [&str; 3] = ["openresponses", "other", "third"];
const CUR_ENDPOINTS: [&str; 3] = ["http://e", "http://f", "http://g"];
const CUR_MODELS: [&str; 3] = ["m0", "m1", "m2"];
fn opt_str(code: u8, names: &[&str; 3]) -> Option<String> {
    if code == 0 {
        None
    } else {
        Some(names[(code as usize - 1) % 3].to_string())
    }
}
fn opt_code(v: Option<&str>, names: &[&str; 3]) -> u64 {
    match v {
        None => 0,
        Some(s) => names.iter().position(|n| *n == s).map(|i| i as u64 + 1).unwrap_or(9),
    }
}
/// [provider; endpoint; model] codes a cursor append records
fn rec_codes(p: &Params) -> [u8; 3] {
    p.rec.unwrap_or([1, 1, 1 + (p.pick % 2) as u8])
}
/// filter codes of a rotate request
fn flt_codes(p: &Params) -> [u8; 3] {
    p.flt.unwrap_or([if p.pick % 3 == 0 { 2 } else { 0 }, 0, if p.pick % 5 == 0 { 1 } else { 0 }])
}
/// The rule of provider_cursor_rotate_v1 restated on the frames of the TRUTH LOG: does some cursor frame of the thread
/// pass the request's filters (a filter that is present is passed only by a recorded value that is present and equal).
fn ref_rotate_has_target(stream: &[&Hdr], flt: [u8; 3]) -> bool {
    let (fp, fe, fm) = (opt_str(flt[0], &CUR_PROVIDERS), opt_str(flt[1], &CUR_ENDPOINTS), opt_str(flt[2], &CUR_MODELS));
    stream.iter().any(|h| match &h.ev.kind {
        rip_kernel::EventKind::ContinuityProviderCursorUpdated { provider, endpoint, model, .. } => {
            fp.as_ref().map(|x| x == provider).unwrap_or(true) && fe.as_ref().map(|x| endpoint.as_ref() == Some(x)).unwrap_or(true) && fm.as_ref().map(|x| model.as_ref() == Some(x)).unwrap_or(true)
        }
        _ => false,
    })
}

// ---------- continuities/index.json: the rebuildable workspace index ----------
#[derive(Clone, Copy, Debug, PartialEq, Eq)]
enum IKind {
    Current,
    Deleted,
    ZeroLength,
    Torn,
    Garbage,
    WrongVersion(u32),
    /// a valid index of the right version that lists nothing (a backup from before the first thread)
    EmptyValid,
    /// the current content with the workspace table emptied
    NoWorkspaces,
    /// the content the file had k saves ago (k = 1: the process died between the last log append and save_index)
    Snapshot(usize),
    /// the same, and the newer content sits in index.json.tmp (died between the write of the temporary file and the rename)
    SnapshotWithTmp(usize),
}
const IKINDS: [IKind; 13] = [
    IKind::Current, IKind::Deleted, IKind::ZeroLength, IKind::Torn, IKind::Garbage, IKind::WrongVersion(0), IKind::WrongVersion(2), IKind::EmptyValid, IKind::NoWorkspaces,
    IKind::Snapshot(1), IKind::Snapshot(2), IKind::Snapshot(1000), IKind::SnapshotWithTmp(1),
];
fn index_file(env: &Env) -> std::path::PathBuf {
    env.data_dir.join("continuities").join("index.json")
}
fn ws_dir(root: &std::path::Path, k: usize) -> std::path::PathBuf {
    if k == 0 {
        root.join("ws")
    } else {
        root.join(format!("ws-{k}"))
    }
}
/// the store is dropped and opened again for workspace k (Env::restart would open it for workspace 0)
fn reopen_ws(env: &mut Env, k: usize) {
    let root = env.root.clone();
    let data_dir = root.join("data");
    let ws = ws_dir(&root, k);
    std::fs::create_dir_all(&ws).unwrap();
    let log = std::sync::Arc::new(rip_log::EventLog::new(data_dir.join("events.jsonl")).expect("event log"));
    let store = std::sync::Arc::new(ContinuityStore::new(data_dir.clone(), ws.clone(), log.clone()).expect("store"));
    *env = Env { root, data_dir, ws, log, store };
}
/// Applies the fault to index.json.  `snaps`: the distinct contents the file has had, oldest first.
fn apply_index_fault(env: &Env, kind: IKind, snaps: &[Vec<u8>]) {
    let p = index_file(env);
    let cur = std::fs::read(&p).ok();
    let _ = std::fs::create_dir_all(p.parent().unwrap());
    let edit = |f: &dyn Fn(&mut serde_json::Value)| {
        let mut v: serde_json::Value = cur.as_ref().and_then(|b| serde_json::from_slice(b).ok()).unwrap_or_else(|| json!({"version": 1, "workspaces": {}, "continuities": {}}));
        f(&mut v);
        let _ = std::fs::write(&p, serde_json::to_vec_pretty(&v).unwrap());
    };
    match kind {
        IKind::Current => {}
        IKind::Deleted => {
            let _ = std::fs::remove_file(&p);
        }
        IKind::ZeroLength => {
            let _ = std::fs::write(&p, b"");
        }
        IKind::Torn => {
            let b = cur.clone().unwrap_or_else(|| b"{\"version\": 1, \"workspaces\": {".to_vec());
            let _ = std::fs::write(&p, &b[..(b.len() / 2).max(1)]);
        }
        IKind::Garbage => {
            let _ = std::fs::write(&p, b"not json");
        }
        IKind::WrongVersion(v) => edit(&|x| x["version"] = json!(v)),
        IKind::EmptyValid => {
            let _ = std::fs::write(&p, serde_json::to_vec_pretty(&json!({"version": 1, "workspaces": {}, "continuities": {}})).unwrap());
        }
        IKind::NoWorkspaces => edit(&|x| x["workspaces"] = json!({})),
        IKind::Snapshot(k) | IKind::SnapshotWithTmp(k) => {
            // position of the current content in the history of the file (the last one when it is not found)
            let at = cur.as_ref().and_then(|c| snaps.iter().rposition(|s| s == c)).unwrap_or(snaps.len().saturating_sub(1));
            if snaps.is_empty() {
                return;
            }
            let old = &snaps[at.saturating_sub(k)];
            if let (IKind::SnapshotWithTmp(_), Some(c)) = (kind, cur.as_ref()) {
                let _ = std::fs::write(p.with_extension("json.tmp"), c);
            }
            let _ = std::fs::write(&p, old);
        }
    }
}
/// What index.json holds now, as the model's idx_fault term (threads as ordinals in creation order).
fn index_state_coq(env: &Env, hs: &[Hdr]) -> (String, &'static str) {
    let Ok(b) = std::fs::read(index_file(env)) else { return ("XIAbsent".into(), "absent") };
    let Ok(v) = serde_json::from_slice::<serde_json::Value>(&b) else { return ("XIUnreadable".into(), "unreadable") };
    let (Some(ver), Some(wss), Some(cs)) = (v.get("version").and_then(|x| x.as_u64()), v.get("workspaces").and_then(|x| x.as_object()), v.get("continuities").and_then(|x| x.as_object())) else {
        return ("XIUnreadable".into(), "unreadable");
    };
    if ver != 1 {
        return ("XIWrongVersion".into(), "wrong_version");
    }
    let ids = created_ids(hs);
    let ord = |id: &str| ids.iter().position(|x| x == id).unwrap_or(4000);
    let mut ws: Vec<String> = vec![];
    for (path, id) in wss {
        let k = (0..8).find(|k| ws_dir(&env.root, *k).to_string_lossy() == path.as_str()).unwrap_or(77);
        ws.push(format!("({k}, {})", coq_nat(ord(id.as_str().unwrap_or("")) as u64)));
    }
    let known: Vec<String> = cs.keys().map(|id| coq_nat(ord(id) as u64)).collect();
    (format!("(XIRestore [{}] [{}])", ws.join("; "), known.join("; ")), "readable")
}

/// a frame another writer left in the log (an older version of the store: optional fields absent)
#[derive(Clone, Copy, Debug, PartialEq, Eq)]
enum RawKind {
    CursorNoEndpointNoModel,
    CursorNoModel,
    CheckpointNoMessageIds, // to_seq = seq of the newest message, no from_message_id / to_message_id
    JobSpawnedNoDetails,
    JobEndedNoResult,
    ScheduleDecidedNoJob,
    RunSpawnedNoActor,
}
const RAWKINDS: [RawKind; 7] = [RawKind::CursorNoEndpointNoModel, RawKind::CursorNoModel, RawKind::CheckpointNoMessageIds, RawKind::JobSpawnedNoDetails, RawKind::JobEndedNoResult, RawKind::ScheduleDecidedNoJob, RawKind::RunSpawnedNoActor];

#[derive(Clone, Debug)]
enum Call {
    Cap { cp: Cp, th: usize, p: Params },
    Fault { x: Fault, th: usize },
    Restart,
    /// a fault on ONE cache file of the thread (the other cache files stay as they are)
    CacheFault { file: CFile, kind: CKind, th: usize },
    /// the store is closed, `timestamp_ms` of every frame in events.jsonl and in every cache file is
    /// moved `ms` into the past (negative: into the future; same number of digits, so byte offsets in
    /// the indexes stay valid) and the store is opened again: "the same store, that much later"
    Age { ms: i64 },
    /// continuities/index.json is replaced (takes effect at the next restart: the open store keeps its in-memory index)
    IndexFault { kind: IKind },
    /// the store is dropped and opened for workspace `ws` of the same data dir
    Reopen { ws: usize },
    /// a frame written to events.jsonl behind the store's back (next seq of the thread, no cache told), then a restart
    Raw { th: usize, kind: RawKind },
    /// n bytes without a final newline put at the end of events.jsonl, the way a write(2) that was cut short (crash, full
    /// disk) leaves them; the open store is not told.  From here on the history is judged by the oracle alone (prefix,
    /// whole-frame suffix, read-only / dry-run calls add nothing): the store model has no unterminated tail.
    TornTail { n: usize, kind: torn::TailKind },
}

// ---------- faults on one cache file ----------
#[derive(Clone, Copy, Debug, PartialEq, Eq)]
enum CFile {
    Full,
    Seek,
    MsgIdx,
    Mr,
    MrSeek,
    MrMsgIdx,
    MrOrd,
    Comp,
    CompIdx,
}
const CFILES: [CFile; 9] = [CFile::Full, CFile::Seek, CFile::MsgIdx, CFile::Mr, CFile::MrSeek, CFile::MrMsgIdx, CFile::MrOrd, CFile::Comp, CFile::CompIdx];
impl CFile {
    fn suffix(&self) -> &'static str {
        match self {
            CFile::Full => "jsonl",
            CFile::Seek => "seek.v1.jsonl",
            CFile::MsgIdx => "messages.v1.bin",
            CFile::Mr => "mr.v1.jsonl",
            CFile::MrSeek => "mr.seek.v1.jsonl",
            CFile::MrMsgIdx => "mr.messages.v1.bin",
            CFile::MrOrd => "mr.msgord.v1.bin",
            CFile::Comp => "comp.v1.jsonl",
            CFile::CompIdx => "comp.idx.v1.jsonl",
        }
    }
    fn binary(&self) -> bool {
        self.suffix().ends_with(".bin")
    }
}
#[derive(Clone, Copy, Debug, PartialEq, Eq)]
enum CKind {
    Deleted,
    ZeroLength,
    TornLastLine,
    TrailingGarbage,
    MidGarbage,
}
const CKINDS: [CKind; 5] = [CKind::Deleted, CKind::ZeroLength, CKind::TornLastLine, CKind::TrailingGarbage, CKind::MidGarbage];
const GARBAGE_LINE: &[u8] = b"#\xfe\x00 garbage {not json\n";
const GARBAGE_BIN: &[u8] = b"\xfe\x00GARB\xff"; // 7 bytes: no multiple of any record size

fn cache_path(env: &Env, id: &str, file: CFile) -> std::path::PathBuf {
    env.data_dir.join("continuity_streams").join(format!("{id}.{}", file.suffix()))
}
fn find_sub(h: &[u8], n: &[u8]) -> Option<usize> {
    h.windows(n.len()).position(|w| w == n)
}

/// Applies the fault; idempotent (a file that already shows the fault is left alone, a file that was
/// rebuilt in between is faulted again).  false: the file does not exist / is too small.
fn apply_cache_fault(env: &Env, id: &str, file: CFile, kind: CKind) -> bool {
    let p = cache_path(env, id, file);
    let Ok(b) = std::fs::read(&p) else { return false };
    let garbage = if file.binary() { GARBAGE_BIN } else { GARBAGE_LINE };
    match kind {
        CKind::Deleted => std::fs::remove_file(&p).is_ok(),
        CKind::ZeroLength => std::fs::write(&p, b"").is_ok(),
        CKind::TornLastLine => {
            if file.binary() {
                // cut inside the last record (a file whose length is odd was cut already)
                if b.len() < 8 || b.len() % 2 == 1 {
                    return b.len() % 2 == 1;
                }
                std::fs::write(&p, &b[..b.len() - 5]).is_ok()
            } else {
                if b.is_empty() {
                    return false;
                }
                if b[b.len() - 1] != b'\n' {
                    return true;
                }
                let start = b[..b.len() - 1].iter().rposition(|x| *x == b'\n').map(|i| i + 1).unwrap_or(0);
                let keep = start + (b.len() - 1 - start) / 2;
                std::fs::write(&p, &b[..keep.max(1)]).is_ok()
            }
        }
        CKind::TrailingGarbage => {
            if b.ends_with(garbage) {
                return true;
            }
            let mut n = b.clone();
            n.extend_from_slice(garbage);
            std::fs::write(&p, n).is_ok()
        }
        CKind::MidGarbage => {
            if find_sub(&b, garbage).is_some() {
                return true;
            }
            let at = if file.binary() {
                b.len() / 2
            } else {
                // at a line boundary: after the first half of the lines (every other line stays whole)
                let nls: Vec<usize> = b.iter().enumerate().filter(|(_, x)| **x == b'\n').map(|(i, _)| i + 1).collect();
                if nls.is_empty() {
                    0
                } else {
                    nls[(nls.len() - 1) / 2]
                }
            };
            let mut n = b[..at].to_vec();
            n.extend_from_slice(garbage);
            n.extend_from_slice(&b[at..]);
            std::fs::write(&p, n).is_ok()
        }
    }
}

/// Rewrites every `"timestamp_ms":<digits>` of the file by `-ms` (same width).  None: a number would
/// change its width (the file is left alone).
fn shift_timestamps(bytes: &[u8], ms: i64) -> Option<(Vec<u8>, u64)> {
    let key = b"\"timestamp_ms\":";
    let mut out = bytes.to_vec();
    let mut i = 0usize;
    let mut n = 0u64;
    while i + key.len() < out.len() {
        if &out[i..i + key.len()] == key {
            let s = i + key.len();
            let mut e = s;
            while e < out.len() && out[e].is_ascii_digit() {
                e += 1;
            }
            if e > s {
                let v: i128 = std::str::from_utf8(&out[s..e]).ok()?.parse().ok()?;
                let w = v - ms as i128;
                if w < 0 {
                    return None;
                }
                let t = w.to_string();
                if t.len() != e - s {
                    return None;
                }
                out[s..e].copy_from_slice(t.as_bytes());
                n += 1;
            }
            i = e;
        } else {
            i += 1;
        }
    }
    Some((out, n))
}

/// Call::Age.  Returns (frames of events.jsonl re-stamped, files rewritten).
fn age_store(env: &mut Env, ms: i64, cur_ws: usize) -> (u64, u64) {
    let mut files = vec![env.log_path()];
    if let Ok(rd) = std::fs::read_dir(env.data_dir.join("continuity_streams")) {
        for e in rd.flatten() {
            if e.file_name().to_string_lossy().ends_with(".jsonl") {
                files.push(e.path());
            }
        }
    }
    let mut plan = vec![];
    for f in &files {
        let Ok(b) = std::fs::read(f) else { continue };
        match shift_timestamps(&b, ms) {
            Some((nb, n)) => plan.push((f.clone(), nb, n)),
            None => return (0, 0), // a width would change: nothing is touched
        }
    }
    let mut stamped = 0;
    let mut rewritten = 0;
    for (f, nb, n) in plan {
        if n > 0 && std::fs::write(&f, nb).is_ok() {
            rewritten += 1;
            if f == env.log_path() {
                stamped = n;
            }
        }
    }
    reopen_ws(env, cur_ws);
    (stamped, rewritten)
}

/// The harness's own planner: the cut points of `stride_messages_v1/<stride>` (every stride-th message,
/// the newest 32 of them) that no checkpoint frame of the thread covers - computed from the frames
/// of the TRUTH LOG alone.  0 = an auto / auto-schedule call has nothing to do.
fn ref_unplanned(stream: &[&Hdr], stride: Option<u64>) -> u64 {
    let stride = stride.unwrap_or(10_000);
    if stride == 0 {
        return 0;
    }
    let msgs: Vec<u64> = stream.iter().filter(|h| h.code == 4).map(|h| h.seq).collect();
    let covered: std::collections::BTreeSet<u64> = stream
        .iter()
        .filter_map(|h| match &h.ev.kind {
            rip_kernel::EventKind::ContinuityCompactionCheckpointCreated { to_seq, .. } => Some(*to_seq),
            _ => None,
        })
        .collect();
    let latest = (msgs.len() as u64 / stride) * stride;
    let mut k = 0;
    for i in 0..32u64 {
        let Some(back) = i.checked_mul(stride) else { break };
        if back >= latest {
            break;
        }
        let ord = latest - back;
        if !covered.contains(&msgs[(ord - 1) as usize]) {
            k += 1;
        }
    }
    k
}

/// The planner case of Model/NoopPlan.v for an auto / auto-schedule call on this thread, without the
/// expectation.  None unless the model's assumption holds: the full sidecar and the messages+runs
/// sidecar are the projection of the truth stream (the checkpoint cache is free: absent, unparsable,
/// or whatever lines it holds).
fn plan_case_prefix(env: &Env, id: &str, stream: &[&Hdr], stride: Option<u64>, max_new: Option<u32>) -> Option<String> {
    let stride = stride.unwrap_or(10_000);
    if stride == 0 || stream.is_empty() {
        return None;
    }
    let seqs_of = |file: CFile| -> Option<Vec<u64>> { parse_log(&std::fs::read(cache_path(env, id, file)).ok()?).ok().map(|h| h.iter().map(|x| x.seq).collect()) };
    let truth: Vec<u64> = stream.iter().map(|h| h.seq).collect();
    if seqs_of(CFile::Full)? != truth {
        return None;
    }
    let mr_truth: Vec<u64> = stream.iter().filter(|h| h.code == 4 || h.code == 13).map(|h| h.seq).collect();
    if seqs_of(CFile::Mr)? != mr_truth {
        return None;
    }
    let pair = |to: u64, seq: u64| format!("({to}, {seq})");
    let cps: Vec<String> = stream
        .iter()
        .filter_map(|h| match &h.ev.kind {
            rip_kernel::EventKind::ContinuityCompactionCheckpointCreated { to_seq, .. } => Some(pair(*to_seq, h.seq)),
            _ => None,
        })
        .collect();
    let cache = match std::fs::read(cache_path(env, id, CFile::Comp)) {
        Err(_) => "CAbsent".to_string(),
        Ok(b) => match parse_log(&b) {
            Err(_) => "CUnparsable".to_string(),
            Ok(hs) => {
                let mut ls = vec![];
                for h in &hs {
                    match &h.ev.kind {
                        rip_kernel::EventKind::ContinuityCompactionCheckpointCreated { to_seq, .. } if h.sid == id => ls.push(pair(*to_seq, h.seq)),
                        _ => return None, // a line that is a frame of another kind / thread: not a state of the model
                    }
                }
                format!("(CLines [{}])", ls.join("; "))
            }
        },
    };
    let msgs: Vec<u64> = stream.iter().filter(|h| h.code == 4).map(|h| h.seq).collect();
    Some(format!(
        "cp_thread := {{| t_msgs := {}; t_cps := [{}] |}}; cp_cache := {cache}; cp_stride := {stride}; cp_max_new := {}",
        coq_list_n(&msgs),
        cps.join("; "),
        max_new.unwrap_or(1).clamp(1, 32)
    ))
}

/// State of the two derived sidecars of a thread, judged against the truth log (names a known open
/// class when a no-op invocation appends because of it).
fn derived_state(env: &Env, id: &str, stream: &[&Hdr]) -> Option<&'static str> {
    for (file, codes) in [(CFile::Comp, vec![9u64]), (CFile::Mr, vec![4u64, 13])] {
        let Ok(b) = std::fs::read(cache_path(env, id, file)) else { continue };
        let want = stream.iter().filter(|h| codes.contains(&h.code)).count();
        if b.is_empty() {
            if want > 0 {
                return Some("derived_sidecar_zero_length_accepted");
            }
            continue;
        }
        if let Ok(fs) = parse_log(&b) {
            // well-formed; the projection has `want` frames with these seqs
            let seqs: Vec<u64> = fs.iter().map(|h| h.seq).collect();
            let truth: Vec<u64> = stream.iter().filter(|h| codes.contains(&h.code)).map(|h| h.seq).collect();
            if seqs != truth {
                return Some("derived_sidecar_wellformed_not_projection");
            }
        }
    }
    None
}

#[derive(Clone, Debug, Default)]
struct Facts {
    ok: bool,
    stride0: bool,
    dry: bool,
    planned: u64,
    inflight: bool,
    execute: bool,
    created: u64,
    ended: bool,
    unmodelled: bool,
    resp_silent: bool,
    planned_seqs: Option<Vec<u64>>, // to_seq of the cut points the response lists as planned
    answer: Option<String>,         // EnsureDefault: the thread id it answered (None: Err)
}
impl Facts {
    fn coq(&self) -> String {
        format!(
            "{{| cf_ok := {}; cf_stride0 := {}; cf_dry := {}; cf_planned := {}; cf_inflight := {}; cf_execute := {}; cf_created := {}; cf_ended := {} |}}",
            coq_bool(self.ok), coq_bool(self.stride0), coq_bool(self.dry), coq_nat(self.planned), coq_bool(self.inflight),
            coq_bool(self.execute), coq_nat(self.created), coq_bool(self.ended)
        )
    }
}

/// Unknown / malformed thread ids.  The first four are the plain ones; the rest are built from PATH
/// GRAMMAR (the id is pasted into `continuity_streams/<id>.jsonl` and friends): parent / current
/// directory, absolute, separators, percent-encoded separators, NUL, over-long, and ALIASES of files
/// that exist (`{0}` = id of the first thread of the history): `../events` names the truth log
/// itself, `./{0}` and `{0}.mr.v1` name caches of a real thread.
const UNKNOWN_IDS: [&str; 40] = [
    "00000000-0000-4000-8000-00000000dead", "not a uuid", "", "%2e%2e%2fx",
    "../events", "..", ".", "a/../../events", "/abs", "/", "a/b", "../x", "../../x", "..%2Fevents", "%2F", "x\0y", "\0",
    "<long255>", "<long5000>", "../events.jsonl", "../continuity_streams/{0}", "./{0}", "{0}.mr.v1", "{0}.comp.v1", "{0}/", "{0}/.",
    "../continuities", "../events\0", " ", "\u{e9}/../events", "..\\events", "{0}\n", "../../data/events", "./../events", "..//events",
    "../events/", "{0}/../../events", "../ws/x", "../continuity_streams/../events", "{0}.mr.seek.v1",
];
const ID_EVENTS: u64 = 4; // index of "../events"

fn unknown_id(pick: u64, first: Option<&String>) -> String {
    let t = UNKNOWN_IDS[(pick % UNKNOWN_IDS.len() as u64) as usize];
    match t {
        "<long255>" => "a".repeat(255),
        "<long5000>" => "../".repeat(1000) + &"b".repeat(2000),
        _ => t.replace("{0}", first.map(|s| s.as_str()).unwrap_or("none")),
    }
}

fn thread_id(hs: &[Hdr], th: usize, pick: u64) -> String {
    let ids = created_ids(hs);
    ids.get(th).cloned().unwrap_or_else(|| unknown_id(pick, ids.first()))
}

fn digits(n: u64) -> usize {
    n.to_string().len()
}

/// Content of a posted message.  With `p.big = Some(total)` the content is sized so that the frame
/// line the store writes is exactly `total` bytes including its newline: the last message frame of
/// the thread is the template (same actor / origin, uuid ids and 13-digit timestamps have fixed
/// width; the seq digits are accounted for).
fn message_content(stream: &[&Hdr], p: &Params) -> String {
    let Some(total) = p.big else { return format!("msg {}", p.pick) };
    let unit = if p.esc { "a\n\"" } else { "a" }; // 3 bytes raw, 5 bytes escaped
    let unit_out = if p.esc { 5 } else { 1 };
    let tmpl = stream.iter().rev().find_map(|h| match &h.ev.kind {
        rip_kernel::EventKind::ContinuityMessageAppended { content, .. } => {
            let line = serde_json::to_string(&h.ev).map(|s| s.len()).unwrap_or(0);
            let esc_len = serde_json::to_string(content).map(|s| s.len() - 2).unwrap_or(0);
            Some((line - esc_len, digits(h.seq)))
        }
        _ => None,
    });
    let next_seq = stream.last().map(|h| h.seq + 1).unwrap_or(0);
    let overhead = match tmpl {
        Some((fixed, d)) => fixed + digits(next_seq) - d + 1,
        None => 0,
    };
    let want = total.saturating_sub(overhead);
    let mut c = unit.repeat(want / unit_out);
    c.push_str(&"b".repeat(want % unit_out));
    c
}

fn do_cap(env: &Env, hs: &[Hdr], cp: Cp, th: usize, p: &Params) -> Facts {
    let id = thread_id(hs, th, p.pick);
    let st = &env.store;
    let mut f = Facts::default();
    let stream: Vec<&Hdr> = hs.iter().filter(|h| h.kind == rip_kernel::StreamKind::Continuity && h.sid == id).collect();
    let msgs: Vec<&&Hdr> = stream.iter().filter(|h| h.code == 4).collect();
    let (a, o) = ("user".to_string(), "harness".to_string());
    match cp {
        Cp::List => {
            let _ = st.list();
        }
        Cp::Get => {
            let _ = st.get(&id);
        }
        Cp::Subscribe => {
            let _ = st.subscribe();
        }
        Cp::Replay => {
            let _ = st.replay_events(&id);
        }
        Cp::CutPoints => {
            let _ = st.compaction_cut_points_v1(&id, CompactionCutPointsV1Request { stride_messages: p.stride, limit: p.limit });
        }
        Cp::CompactionStatus => {
            let _ = st.compaction_status_v1(&id, CompactionStatusV1Request { stride_messages: p.stride });
        }
        Cp::CursorStatus => {
            let _ = st.provider_cursor_status_v1(&id, ProviderCursorStatusV1Request {});
        }
        Cp::SelectionStatus => {
            let _ = st.context_selection_status_v1(&id, ContextSelectionStatusV1Request { limit: p.limit });
        }
        Cp::EnsureDefault => {
            match st.ensure_default() {
                Ok(got) => {
                    f.ok = !created_ids(hs).contains(&got);
                    f.answer = Some(got);
                }
                Err(_) => f.answer = None,
            }
        }
        Cp::Append(t) => {
            let mid = msgs.last().map(|h| h.id.clone()).unwrap_or_else(|| "m0".into());
            let r = match t {
                4 => st.append_message(&id, a, o, message_content(&stream, p)),
                5 => st.append_run_spawned(&id, &mid, "run-1", a, o),
                13 => st.append_run_ended(&id, &mid, "run-1", "completed".into(), a, o),
                14 => st.append_tool_side_effects(
                    &ContinuityRunLink { continuity_id: id.clone(), message_id: mid, actor_id: a, origin: o },
                    "run-1",
                    ToolSideEffects { tool_id: "t1".into(), tool_name: "write".into(), affected_paths: Some(vec!["a.txt".into()]), checkpoint_id: None },
                ),
                6 => ripd::verif::append_context_selection_decided(st, &id, "run-1".into(), mid, "recent_messages_v1".into(), vec![], a, o),
                7 => ripd::verif::append_context_compiled(st, &id, "run-1".into(), "art".into(), "recent_messages_v1".into(), 0, None, a, o),
                _ => {
                    let rc = rec_codes(p);
                    ripd::verif::append_provider_cursor_updated(st, &id, opt_str(rc[0].max(1), &CUR_PROVIDERS).unwrap(), opt_str(rc[1], &CUR_ENDPOINTS), opt_str(rc[2], &CUR_MODELS), Some(json!({"previous_response_id": "r"})), "set".into(), Some("run-1".into()), a, o)
                }
            };
            f.ok = r.is_ok();
        }
        Cp::Branch | Cp::Handoff => {
            let head = stream.last().map(|h| h.seq).unwrap_or(0);
            let known = msgs.get((p.pick as usize) % msgs.len().max(1)).map(|h| h.id.clone());
            let nonmsg = stream.iter().find(|h| h.code != 4).map(|h| h.id.clone());
            let (from_mid, from_seq) = match p.sel {
                0 => (None, None),
                1 => (None, Some(p.pick % (head + 1))),
                2 => (None, Some(head + 1 + p.pick % 3)),
                3 => (known, None),
                4 => (Some("no-such-message".to_string()), None),
                5 => (nonmsg, None),
                _ => (Some("x".to_string()), Some(0)),
            };
            let r = if cp == Cp::Branch {
                st.branch(&id, Some("t".into()), from_mid, from_seq, a, o)
            } else {
                let summary = match p.summary {
                    0 => (Some("# summary".to_string()), None),
                    1 => (None, Some("artifact-x".to_string())),
                    2 => (Some("# s".to_string()), Some("artifact-y".to_string())),
                    _ => (None, None),
                };
                st.handoff(&id, None, summary, from_mid, from_seq, (a, o))
            };
            f.ok = r.is_ok();
        }
        Cp::Checkpoint => {
            let (to_mid, to_seq, stride) = match p.sel {
                0 => (None, None, p.stride),
                1 => (None, msgs.last().map(|h| h.seq), None),
                2 => (None, Some(stream.last().map(|h| h.seq).unwrap_or(0) + 5), None),
                3 => (msgs.first().map(|h| h.id.clone()), None, None),
                4 => (Some("no-such".to_string()), None, None),
                5 => (None, stream.iter().find(|h| h.code != 4).map(|h| h.seq), None),
                _ => (Some("x".to_string()), Some(1), None),
            };
            let r = st.compaction_checkpoint_cumulative_v1(
                &id,
                CompactionCheckpointCumulativeV1Request {
                    summary_markdown: if p.summary == 3 { None } else { Some("# cp".into()) },
                    summary_artifact_id: if p.summary == 1 { Some("nope".into()) } else { None },
                    to_message_id: to_mid,
                    to_seq,
                    stride_messages: stride,
                    actor_id: a,
                    origin: o,
                },
            );
            f.ok = r.is_ok();
        }
        Cp::CursorRotate => {
            let r = st.provider_cursor_rotate_v1(
                &id,
                {
                    let fc = flt_codes(p);
                    ProviderCursorRotateV1Request { provider: opt_str(fc[0], &CUR_PROVIDERS), endpoint: opt_str(fc[1], &CUR_ENDPOINTS), model: opt_str(fc[2], &CUR_MODELS), reason: if p.pick % 2 == 0 { None } else { Some("model switch".into()) }, actor_id: a, origin: o }
                },
            );
            f.ok = matches!(&r, Ok(x) if x.rotated);
            f.resp_silent = matches!(&r, Ok(x) if !x.rotated);
        }
        Cp::Auto => {
            let dry_run = if p.only_if_noop { Some(ref_unplanned(&stream, p.stride) > 0) } else { p.dry_run };
            f.stride0 = p.stride == Some(0);
            f.dry = dry_run == Some(true);
            match st.compaction_auto_v1(&id, CompactionAutoV1Request { stride_messages: p.stride, max_new_checkpoints: p.max_new, dry_run, actor_id: a, origin: o }) {
                Err(_) => f.planned = 0,
                Ok(r) => {
                    f.planned = r.planned.len() as u64;
                    f.planned_seqs = Some(r.planned.iter().map(|c| c.to_seq).collect());
                    f.created = r.result.len() as u64;
                    f.ended = r.status == "completed";
                    f.resp_silent = r.status == "noop";
                    f.unmodelled = r.status == "failed";
                }
            }
        }
        Cp::AutoSchedule => {
            let dry_run = if p.only_if_noop { Some(ref_unplanned(&stream, p.stride) > 0) } else { p.dry_run };
            f.stride0 = p.stride == Some(0);
            f.dry = dry_run == Some(true);
            match st.compaction_auto_schedule_v1(
                &id,
                CompactionAutoScheduleV1Request { stride_messages: p.stride, max_new_checkpoints: p.max_new, block_on_inflight: p.block, execute: p.execute, dry_run, actor_id: a, origin: o },
            ) {
                Err(_) => f.planned = 0,
                Ok(r) => {
                    f.planned = r.planned.len() as u64;
                    f.planned_seqs = Some(r.planned.iter().map(|c| c.to_seq).collect());
                    f.created = r.result.len() as u64;
                    f.execute = r.execute;
                    f.inflight = r.decision == "skipped_inflight";
                    f.ended = r.decision == "completed";
                    f.resp_silent = r.decision == "noop" || r.decision == "dry_run";
                    if r.decision == "noop" {
                        f.planned = 0;
                    }
                    f.unmodelled = r.decision == "failed";
                }
            }
        }
    }
    f
}

struct Outcome {
    obs: Vec<u64>,
    coq_calls: Vec<String>,
    violations: Vec<(String, String)>, // (what, class)
    unmodelled: bool,
    appended_by_silent: u64,
    oracle_checks: u64,
    final_frames: usize,
    big_lines: Vec<usize>,
    hook_points: u64,
    parsed: Option<(Vec<u8>, Vec<Hdr>)>, // the log (bytes, frames) as it was after the last call
    plan_cases: Vec<String>,             // CPlan terms (Model/NoopPlan.v): what the call planned vs the model planner
    damaged: Vec<(usize, CFile)>,        // cache files the harness damaged since the caches of that thread were last removed
    cur_ws: usize,                       // the workspace the store is open for
    torn: bool,                          // the harness put an unterminated tail into events.jsonl (Call::TornTail)
    idx_snaps: Vec<Vec<u8>>,             // the distinct contents index.json has had, oldest first
}

// ---------- monitor inside EventLog::append (rip_kernel::verif hook, points log.*) ----------
// At log.locked the file is read (B0; must be whole lines).  At log.body_written / log.nl_written the
// file must be B0 or B0 + ONE whole newline-terminated JSON frame - never B0 + part of a line: a
// process dying there, or a reader / second handle running there, would meet a partial frame.  At
// log.flushed it must be B0 + exactly one whole frame.
#[derive(Default)]
struct Mon {
    path: Option<std::path::PathBuf>,
    base: Vec<u8>,
    violations: Vec<(String, String)>,
    points: u64,
    growth: Vec<(&'static str, u64)>, // file length minus the length at log.locked, per point
    torn_by_harness: bool,            // the harness itself left an unterminated tail in the file (Call::TornTail)
}
static MON: std::sync::Mutex<Option<Mon>> = std::sync::Mutex::new(None);

fn mon_set_path(p: Option<std::path::PathBuf>) {
    let mut g = MON.lock().unwrap_or_else(|e| e.into_inner());
    let m = g.get_or_insert_with(Mon::default);
    m.path = p;
    m.base.clear();
    m.torn_by_harness = false;
}
fn mon_set_torn() {
    let mut g = MON.lock().unwrap_or_else(|e| e.into_inner());
    g.get_or_insert_with(Mon::default).torn_by_harness = true;
}
fn mon_take_growth() -> Vec<(&'static str, u64)> {
    let mut g = MON.lock().unwrap_or_else(|e| e.into_inner());
    std::mem::take(&mut g.get_or_insert_with(Mon::default).growth)
}
fn mon_drain() -> (Vec<(String, String)>, u64) {
    let mut g = MON.lock().unwrap_or_else(|e| e.into_inner());
    let m = g.get_or_insert_with(Mon::default);
    let n = m.points;
    m.points = 0;
    (std::mem::take(&mut m.violations), n)
}
fn whole_lines(b: &[u8]) -> bool {
    b.is_empty() || b[b.len() - 1] == b'\n'
}
fn one_frame(rest: &[u8]) -> bool {
    rest.len() >= 2 && rest[rest.len() - 1] == b'\n' && !rest[..rest.len() - 1].contains(&b'\n') && serde_json::from_slice::<rip_kernel::Event>(&rest[..rest.len() - 1]).is_ok()
}
fn install_hook() {
    rip_kernel::verif::set_hook(Some(std::sync::Arc::new(|name: &'static str| {
        if !name.starts_with("log.") || name == "log.before_lock" {
            return;
        }
        let mut g = MON.lock().unwrap_or_else(|e| e.into_inner());
        let Some(m) = g.as_mut() else { return };
        let Some(path) = m.path.clone() else { return };
        let cur = std::fs::read(&path).unwrap_or_default();
        m.points += 1;
        let cls = "partial_frame_in_file_during_append".to_string();
        match name {
            "log.locked" => {
                if !whole_lines(&cur) && !m.torn_by_harness {
                    m.violations.push((format!("at {name}: the log ends in an unterminated line ({} bytes) when an append starts", cur.len()), "unterminated_line_before_append".into()));
                }
                m.base = cur;
            }
            _ => {
                m.growth.push((name, cur.len().saturating_sub(m.base.len()) as u64));
                if m.growth.len() > 4096 {
                    m.growth.clear();
                }
                if cur.len() < m.base.len() || cur[..m.base.len()] != m.base[..] {
                    m.violations.push((format!("at {name}: the bytes the log had at log.locked are no longer a prefix ({} -> {})", m.base.len(), cur.len()), "log_prefix_changed".into()));
                } else {
                    let rest = &cur[m.base.len()..];
                    let ok = if name == "log.flushed" { one_frame(rest) } else { rest.is_empty() || one_frame(rest) };
                    if !ok {
                        let tail = rest.rsplit(|b| *b == b'\n').next().map(|t| t.len()).unwrap_or(0);
                        m.violations.push((format!("at {name}: the file holds {} byte(s) of the frame being appended, the last {} of them an unterminated partial line (not old bytes + whole frames)", rest.len(), tail), cls));
                    }
                }
            }
        }
    })));
}

// ---------- everything on disk except the truth log and the cache directory ----------
fn tree_snapshot(root: &std::path::Path) -> std::collections::BTreeMap<String, (u64, u64)> {
    fn walk(dir: &std::path::Path, root: &std::path::Path, out: &mut std::collections::BTreeMap<String, (u64, u64)>) {
        let Ok(rd) = std::fs::read_dir(dir) else { return };
        for e in rd.flatten() {
            let p = e.path();
            let rel = p.strip_prefix(root).unwrap_or(&p).to_string_lossy().to_string();
            if rel == "data/continuity_streams" || rel == "data/events.jsonl" {
                continue;
            }
            match e.file_type() {
                Ok(t) if t.is_dir() => {
                    out.insert(rel + "/", (0, 0));
                    walk(&p, root, out);
                }
                _ => {
                    let b = std::fs::read(&p).unwrap_or_default();
                    let mut h = 0xcbf29ce484222325u64;
                    for x in &b {
                        h = (h ^ *x as u64).wrapping_mul(0x100000001b3);
                    }
                    out.insert(rel, (b.len() as u64, h));
                }
            }
        }
    }
    let mut out = Default::default();
    walk(root, root, &mut out);
    out
}
fn tree_diff(a: &std::collections::BTreeMap<String, (u64, u64)>, b: &std::collections::BTreeMap<String, (u64, u64)>) -> Option<String> {
    for (k, v) in b {
        match a.get(k) {
            None => return Some(format!("created {k} ({} bytes)", v.0)),
            Some(w) if w != v => return Some(format!("changed {k} ({} -> {} bytes)", w.0, v.0)),
            _ => {}
        }
    }
    a.keys().find(|k| !b.contains_key(*k)).map(|k| format!("removed {k}"))
}

/// The truth log holds a thread of the workspace that is not a branch / handoff child: the workspace's default thread
/// (the store creates no second one).  A workspace that has ONLY children (branched by a store opened for it) is not
/// judged: whether a child may stand in for the default is the store's choice, not the property's.
fn log_has_default_thread(hs: &[Hdr], ws_key: &str) -> bool {
    hs.iter().any(|h| matches!(&h.ev.kind, rip_kernel::EventKind::ContinuityCreated { workspace, .. } if workspace == ws_key) && !hs.iter().any(|c| c.sid == h.sid && (c.code == 15 || c.code == 16)))
}

fn raw_event(kind: RawKind, id: &str, stream: &[&Hdr]) -> Option<rip_kernel::Event> {
    use rip_kernel::EventKind as K;
    let last = stream.last()?;
    let seq = last.seq + 1;
    let last_msg = stream.iter().rev().find(|h| h.code == 4);
    let (a, o) = ("user".to_string(), "older-version".to_string());
    let job = "raw-job-1".to_string();
    let kind = match kind {
        RawKind::CursorNoEndpointNoModel => K::ContinuityProviderCursorUpdated { provider: "openresponses".into(), endpoint: None, model: None, cursor: Some(json!({"previous_response_id": "r"})), action: "set".into(), reason: None, run_session_id: None, actor_id: a, origin: o },
        RawKind::CursorNoModel => K::ContinuityProviderCursorUpdated { provider: "openresponses".into(), endpoint: Some("http://e".into()), model: None, cursor: Some(json!({"previous_response_id": "r"})), action: "set".into(), reason: None, run_session_id: None, actor_id: a, origin: o },
        RawKind::CheckpointNoMessageIds => K::ContinuityCompactionCheckpointCreated { checkpoint_id: format!("raw-cp-{seq}"), cut_rule_id: "manual".into(), summary_kind: "cumulative_v1".into(), summary_artifact_id: "raw-artifact".into(), from_seq: 0, from_message_id: None, to_seq: last_msg?.seq, to_message_id: None, actor_id: a, origin: o },
        RawKind::JobSpawnedNoDetails => K::ContinuityJobSpawned { job_id: job, job_kind: "compaction_summarizer_v1".into(), details: None, actor_id: a, origin: o },
        RawKind::JobEndedNoResult => K::ContinuityJobEnded { job_id: job, job_kind: "compaction_summarizer_v1".into(), status: "completed".into(), result: None, error: None, actor_id: a, origin: o },
        RawKind::ScheduleDecidedNoJob => K::ContinuityCompactionAutoScheduleDecided { decision_id: format!("raw-decision-{seq}"), policy_id: "auto_schedule_v1".into(), decision: "scheduled".into(), execute: false, stride_messages: 2, max_new_checkpoints: 1, block_on_inflight: true, message_count: 0, cut_rule_id: "stride_messages_v1/2".into(), planned: vec![], job_id: None, job_kind: None, reason: None, actor_id: a, origin: o },
        RawKind::RunSpawnedNoActor => K::ContinuityRunSpawned { run_session_id: "raw-run-1".into(), message_id: last_msg.map(|h| h.id.clone()).unwrap_or_else(|| "m0".into()), actor_id: None, origin: None },
    };
    Some(rip_kernel::Event { id: format!("raw-frame-{seq}-{}", &id[..id.len().min(8)]), session_id: id.to_string(), timestamp_ms: last.ev.timestamp_ms, seq, kind })
}

/// One call on the real store + the independent oracle around it.
fn apply_call(env: &mut Env, call: &Call, out: &mut Outcome, dist: &mut Option<&mut RunResult>) {
    let before = env.log_bytes();
    // the log as parsed at the end of the previous call is reused when the bytes are the same
    let hs = match out.parsed.take() {
        Some((b, h)) if b == before && !out.torn => h,
        _ if out.torn => torn::parse_log_lenient(&before), // the frames of the lines that parse
        _ => parse_log(&before).unwrap_or_default(),
    };
    // (the snapshot of everything else on disk is only needed for calls aimed at an id that names no thread)
    let unknown_target = matches!(call, Call::Cap { th, cp, .. } if *th >= created_ids(&hs).len() && !matches!(cp, Cp::EnsureDefault | Cp::List | Cp::Subscribe));
    let tree_before = if unknown_target { tree_snapshot(&env.root) } else { Default::default() };
    let mut silent_req = false;
    let mut name = String::new();
    // independent judgement of "nothing to do" for auto / auto-schedule: no cut point of the requested
    // stride is left without a checkpoint IN THE TRUTH LOG (whatever the response says)
    let mut noop_by_truth: Option<&'static str> = None;
    let mut ensure_idempotent = false;
    let mut ensure_answer: Option<Option<String>> = None;
    let mut aged = false;
    let mut torn_now: Option<Vec<u8>> = None;
    match call {
        Call::Cap { cp, th, p } => {
            if matches!(cp, Cp::Auto | Cp::AutoSchedule) {
                let id = thread_id(&hs, *th, p.pick);
                let stream: Vec<&Hdr> = hs.iter().filter(|h| h.kind == rip_kernel::StreamKind::Continuity && h.sid == id).collect();
                if ref_unplanned(&stream, p.stride) == 0 {
                    noop_by_truth = Some(derived_state(env, &id, &stream).unwrap_or(""));
                    if let Some(d) = dist.as_deref_mut() {
                        d.bump("auto_or_schedule_with_nothing_to_do_by_truth");
                        if (p.only_if_noop || p.dry_run != Some(true)) && p.stride != Some(0) && *th < created_ids(&hs).len() {
                            d.bump("auto_or_schedule_with_nothing_to_do_by_truth_not_dry_run_known_thread");
                        }
                    }
                }
            }
            if matches!(cp, Cp::CursorRotate) && *th < created_ids(&hs).len() {
                // no cursor frame of the thread passes the request's filters (judged on the frames of the truth log,
                // recorded endpoint / model absent or present): there is nothing to rotate
                let id = thread_id(&hs, *th, p.pick);
                let stream: Vec<&Hdr> = hs.iter().filter(|h| h.kind == rip_kernel::StreamKind::Continuity && h.sid == id).collect();
                let cursors = stream.iter().filter(|h| h.code == 8).count();
                if !ref_rotate_has_target(&stream, flt_codes(p)) {
                    noop_by_truth = Some("");
                    if let Some(d) = dist.as_deref_mut() {
                        d.bump(if cursors == 0 { "cursor_rotate_with_no_cursor_in_the_truth_log" } else { "cursor_rotate_with_filters_no_recorded_cursor_passes" });
                        let absent = stream.iter().any(|h| matches!(&h.ev.kind, rip_kernel::EventKind::ContinuityProviderCursorUpdated { endpoint, model, .. } if endpoint.is_none() || model.is_none()));
                        if absent {
                            d.bump("cursor_rotate_must_find_nothing_and_a_recorded_cursor_lacks_endpoint_or_model");
                        }
                    }
                }
            }
            // ensure_default is idempotent: when the truth log holds a thread of the store's workspace it adds nothing
            // and answers a thread of that workspace - whatever state continuities/index.json is in
            if matches!(cp, Cp::EnsureDefault) {
                let key = env.ws.to_string_lossy().to_string();
                if log_has_default_thread(&hs, &key) {
                    noop_by_truth = Some("");
                    ensure_idempotent = true;
                    if let Some(d) = dist.as_deref_mut() {
                        d.bump("ensure_default_with_the_thread_in_the_truth_log");
                        d.bump(&format!("ensure_default_with_the_thread_in_the_truth_log_index_file={}", index_state_coq(env, &hs).1));
                    }
                }
            }
            // the planner model assumes every cache but the checkpoint sidecar healthy: a damaged ordinal / message
            // index makes the code replay the stream first, and then even a wrong checkpoint cache is bypassed
            let others_healthy = !out.damaged.iter().any(|(t, f)| t == th && !matches!(f, CFile::Comp | CFile::CompIdx));
            let plan_prefix = if matches!(cp, Cp::Auto | Cp::AutoSchedule) && *th < created_ids(&hs).len() && out.plan_cases.len() < 4000 && others_healthy {
                let id = thread_id(&hs, *th, p.pick);
                let stream: Vec<&Hdr> = hs.iter().filter(|h| h.kind == rip_kernel::StreamKind::Continuity && h.sid == id).collect();
                plan_case_prefix(env, &id, &stream, p.stride, p.max_new)
            } else {
                None
            };
            let f = do_cap(env, &hs, *cp, *th, p);
            if let (Some(pre), Some(seqs)) = (plan_prefix, &f.planned_seqs) {
                out.plan_cases.push(format!("CPlan {{| {pre}; cp_expect := {} |}}", coq_list_n(seqs)));
            }
            out.unmodelled |= f.unmodelled;
            silent_req = cp.read_only() || (matches!(cp, Cp::Auto | Cp::AutoSchedule) && (f.dry || f.stride0)) || f.resp_silent;
            name = format!("{cp:?}").split('(').next().unwrap().to_string();
            let th_c = coq_nat((*th).min(99) as u64);
            out.coq_calls.push(match cp {
                Cp::EnsureDefault => {
                    ensure_answer = Some(f.answer.clone());
                    "DEnsure".to_string()
                }
                Cp::Append(8) => {
                    let rc = rec_codes(p);
                    format!("DCursor {th_c} {} {} {}", rc[0].max(1) - 1, rc[1], rc[2])
                }
                Cp::CursorRotate => {
                    let fc = flt_codes(p);
                    format!("DRotate {th_c} {} {} {}", fc[0], fc[1], fc[2])
                }
                Cp::Branch | Cp::Handoff => format!("DLineage {} {th_c} {}", coq_bool(*cp == Cp::Branch), coq_bool(f.ok)),
                _ => format!("D (K (KCap {} {th_c} {}))", cp.coq(), f.coq()),
            });
            if *th >= created_ids(&hs).len() {
                name = format!("{name}[id={:?}]", thread_id(&hs, *th, p.pick).chars().take(40).collect::<String>());
            }
            if let Some(d) = dist.as_deref_mut() {
                d.bump(&format!("cap={}", name.split('[').next().unwrap()));
                if silent_req {
                    d.bump("silent_invocations");
                }
                if *th >= created_ids(&hs).len() {
                    d.bump("unknown_thread_id");
                    if p.pick % UNKNOWN_IDS.len() as u64 >= 4 {
                        d.bump("unknown_thread_id_path_shaped");
                    }
                }
            }
        }
        Call::Fault { x, th } => {
            let ids = created_ids(&hs);
            if let Some(id) = ids.get(*th) {
                apply_fault(env, id, *x);
            }
            if matches!(x, Fault::Delete) {
                out.damaged.retain(|(t, _)| t != th); // every cache file gone: whatever is there afterwards was rebuilt
            } else {
                out.damaged.push((*th, CFile::Full));
            }
            let xs = match x {
                Fault::Delete => "XDelete",
                Fault::CutLine => "XCutLine",
                Fault::TearTail => "XTearTail",
                _ => "XEmpty",
            };
            out.coq_calls.push(format!("D (K (KFault {xs} {}))", coq_nat((*th).min(99) as u64)));
            if let Some(d) = dist.as_deref_mut() {
                d.bump(&format!("fault={}", x.name()));
            }
        }
        Call::Restart => {
            name = "Restart (EventLog::new + ContinuityStore::new)".into();
            reopen_ws(env, out.cur_ws);
            out.coq_calls.push("D (K KRestart)".into());
            if let Some(d) = dist.as_deref_mut() {
                d.bump("restart");
            }
        }
        Call::CacheFault { file, kind, th } => {
            let ids = created_ids(&hs);
            let done = ids.get(*th).map(|id| apply_cache_fault(env, id, *file, *kind)).unwrap_or(false);
            if done {
                out.damaged.push((*th, *file));
            }
            // the model keeps the full sidecar only: a fault on a derived file has no counterpart there
            let th_c = coq_nat((*th).min(99) as u64);
            out.coq_calls.push(match (file, kind, done) {
                (CFile::Full, CKind::Deleted, true) => format!("D (K (KFault XDelete {th_c}))"),
                (CFile::Full, CKind::ZeroLength, true) => format!("D (K (KFault XEmpty {th_c}))"),
                (CFile::Full, CKind::TornLastLine, true) => format!("D (K (KFault XTearTail {th_c}))"),
                (CFile::Full, CKind::TrailingGarbage, true) => format!("D (KSideGarbage false {th_c})"),
                (CFile::Full, CKind::MidGarbage, true) => format!("D (KSideGarbage true {th_c})"),
                _ => "D KDerivedFault".to_string(),
            });
            if let Some(d) = dist.as_deref_mut() {
                d.bump(&format!("cache_fault={}:{kind:?}{}", file.suffix(), if done { "" } else { ":no_such_file" }));
            }
        }
        Call::Age { ms } => {
            let frames_before = hs.len() as u64;
            let (stamped, files) = age_store(env, *ms, out.cur_ws);
            aged = true;
            out.coq_calls.push("D KAge".into());
            if let Some(d) = dist.as_deref_mut() {
                d.bump(&format!("aged_by_ms={ms}"));
                d.bump_by("aged_files_rewritten", files);
            }
            if stamped != frames_before && !out.torn {
                out.violations.push((format!("harness: ageing re-stamped {stamped} of {frames_before} frames"), "harness_age_failed".into()));
            }
        }
        Call::IndexFault { kind } => {
            apply_index_fault(env, *kind, &out.idx_snaps);
            let (term, state) = index_state_coq(env, &hs);
            out.coq_calls.push(format!("DIdx {term}"));
            if let Some(d) = dist.as_deref_mut() {
                d.bump(&format!("index_fault={kind:?}").split('(').next().unwrap().to_string());
                d.bump(&format!("index_file_after_fault={state}"));
            }
        }
        Call::Reopen { ws } => {
            out.cur_ws = *ws;
            reopen_ws(env, *ws);
            out.coq_calls.push(format!("DReopen {ws}"));
            if let Some(d) = dist.as_deref_mut() {
                d.bump(&format!("reopen_for_workspace={ws}"));
            }
        }
        Call::TornTail { n, kind } => {
            let (bytes, _) = torn::torn_bytes(*n, *kind, 7);
            if !torn::put_torn_tail(&env.log_path(), &bytes) {
                out.violations.push(("harness: could not write the torn tail".into(), "harness_torn_tail_failed".into()));
            }
            out.torn = true;
            mon_set_torn();
            torn_now = Some(bytes);
            out.coq_calls.push("D KDerivedFault".into());
            if let Some(d) = dist.as_deref_mut() {
                d.bump("torn_tail_in_a_store_history");
            }
        }
        Call::Raw { th, kind } => {
            let ids = created_ids(&hs);
            let ev = ids.get(*th).and_then(|id| {
                let stream: Vec<&Hdr> = hs.iter().filter(|h| h.kind == rip_kernel::StreamKind::Continuity && &h.sid == id).collect();
                raw_event(*kind, id, &stream)
            });
            let th_c = coq_nat((*th).min(99) as u64);
            match ev {
                Some(ev) if env.log.append(&ev).is_ok() => {
                    let ar = match &ev.kind {
                        rip_kernel::EventKind::ContinuityProviderCursorUpdated { provider, endpoint, model, .. } => format!("[{}; {}; {}]", opt_code(Some(provider), &CUR_PROVIDERS) - 1, opt_code(endpoint.as_deref(), &CUR_ENDPOINTS), opt_code(model.as_deref(), &CUR_MODELS)),
                        _ => "[]".to_string(),
                    };
                    out.coq_calls.push(format!("DRaw {th_c} {} {ar}", coq_etype(etype_code(&ev.kind))));
                }
                _ => out.coq_calls.push(format!("DReopen {}", out.cur_ws)), // nothing written (no such thread / no message yet): only the restart
            }
            reopen_ws(env, out.cur_ws);
            name = format!("Raw{kind:?}");
            if let Some(d) = dist.as_deref_mut() {
                d.bump(&format!("raw_frame={kind:?}"));
            }
        }
    }
    // the history of index.json (for IKind::Snapshot): every distinct content the store itself wrote
    if !matches!(call, Call::IndexFault { .. }) {
        if let Ok(b) = std::fs::read(index_file(env)) {
            if out.idx_snaps.last() != Some(&b) && serde_json::from_slice::<serde_json::Value>(&b).is_ok() {
                out.idx_snaps.push(b);
            }
        }
    }
    // ---- independent oracle
    let after = env.log_bytes();
    if aged {
        // the harness itself rewrote the timestamps: same length, same frames apart from the time
        out.oracle_checks += 1;
        let same = after.len() == before.len() && (out.torn || parse_log(&after).map(|h| h.len()).ok() == Some(hs.len()));
        if !same {
            out.violations.push((format!("harness: ageing changed the shape of the log ({} -> {} bytes)", before.len(), after.len()), "harness_age_failed".into()));
        }
        let _ = mon_drain();
        out.obs.push(parse_log(&after).map(|h| h.len() as u64).unwrap_or(0));
        return;
    }
    if let Some(bytes) = torn_now {
        // the harness's own write: exactly those bytes behind the previous content
        out.oracle_checks += 1;
        if after.len() != before.len() + bytes.len() || after[..before.len()] != before[..] || after[before.len()..] != bytes[..] {
            out.violations.push((format!("harness: the torn tail was not put behind the previous content ({} -> {} bytes)", before.len(), after.len()), "harness_torn_tail_failed".into()));
        }
        out.obs.push(0);
        return;
    }
    if out.torn {
        // over a damaged log the judgements that need the WHOLE truth (nothing to do by truth, the ensure_default answer)
        // are not made: prefix, whole-frame suffix and "read-only / dry-run adds nothing" stay
        noop_by_truth = None;
        ensure_idempotent = false;
    }
    out.oracle_checks += 1;
    let (hv, hp) = mon_drain();
    out.hook_points += hp;
    for (what, class) in hv {
        out.violations.push((format!("{name}: {what}"), class));
    }
    if after.len() < before.len() || after[..before.len()] != before[..] {
        out.violations.push((format!("{name}: previous log content is no longer a prefix ({} -> {} bytes)", before.len(), after.len()), "log_prefix_changed".into()));
        out.obs.push(0);
        return;
    }
    let suffix = &after[before.len()..];
    let parsed_suffix = parse_log(suffix);
    match &parsed_suffix {
        Err(e) => out.violations.push((format!("{name}: appended bytes are not whole frames: {e}"), "partial_frame_appended".into())),
        Ok(fs) => {
            if silent_req && !fs.is_empty() {
                out.appended_by_silent += 1;
                let n0 = name.split('[').next().unwrap().to_string();
                out.violations.push((format!("{name}: a read-only / dry-run / no-op invocation appended {} frame(s) (first: {})", fs.len(), ETYPES[fs[0].code as usize]), format!("silent_invocation_appended_{n0}")));
            } else if let (Some(derived), false) = (noop_by_truth, fs.is_empty()) {
                out.appended_by_silent += 1;
                let n0 = name.split('[').next().unwrap().to_string();
                let kinds: Vec<&str> = fs.iter().map(|h| ETYPES[h.code as usize]).collect();
                let class = if derived.is_empty() { format!("nothing_to_do_invocation_appended_{n0}") } else { format!("nothing_to_do_invocation_appended:{derived}") };
                out.violations.push((format!("{name}: {} in the truth log (nothing to do), yet the call appended {} frame(s): {}{}", if n0 == "CursorRotate" { "no provider cursor frame of the thread passes the filters of the request" } else if n0 == "EnsureDefault" { "the workspace of the store has its thread" } else { "every cut point of the requested stride has a checkpoint" }, fs.len(), kinds.join(", "), if derived.is_empty() { String::new() } else { format!(" [cache state: {derived}]") }), class));
            }
            if let Call::Cap { p, cp: Cp::Append(4), .. } = call {
                if p.big.is_some() && !suffix.is_empty() {
                    out.big_lines.push(suffix.iter().position(|b| *b == b'\n').map(|i| i + 1).unwrap_or(0));
                }
            }
        }
    }
    // A call aimed at an id that names no thread (readers and writers alike) may leave caches under
    // data/continuity_streams/ and nothing else: a file created or changed anywhere else was reached
    // through the caller's id (`../x`), the same primitive that hits the truth log for `../events`.
    // (Calls on existing threads are not held to this: C02 speaks about events.jsonl only.)
    if unknown_target {
        out.oracle_checks += 1;
        if let Some(d) = tree_diff(&tree_before, &tree_snapshot(&env.root)) {
            out.violations.push((format!("{name}: a call aimed at an id that names no thread {d} outside data/continuity_streams/"), "thread_id_escapes_cache_dir".into()));
        }
    }
    // ensure_default: the answer must be a thread of the store's workspace that is in the log (1; 0: it is not; 2: Err)
    let ensure_code = ensure_answer.as_ref().map(|ans| {
        let key = env.ws.to_string_lossy().to_string();
        let all_now = parse_log(&after).unwrap_or_default();
        match ans {
            None => 2u64,
            Some(id) => u64::from(all_now.iter().any(|h| &h.sid == id && matches!(&h.ev.kind, rip_kernel::EventKind::ContinuityCreated { workspace, .. } if *workspace == key))),
        }
    });
    if let (true, Some(code)) = (ensure_idempotent, ensure_code) {
        out.oracle_checks += 1;
        if code != 1 {
            out.violations.push((format!("{name}: the truth log holds a thread of the store's workspace, yet ensure_default answered {}", if code == 2 { "an error".to_string() } else { format!("{:?}, which is not a thread of that workspace in the log", ensure_answer.clone().flatten()) }), "ensure_default_answer_not_from_the_log".into()));
        }
    }
    match parsed_suffix {
        Ok(fs) if (before.is_empty() || !hs.is_empty()) && !out.torn => {
            let mut all = hs;
            all.extend(fs);
            out.obs.push(all.len() as u64);
            out.parsed = Some((after, all));
        }
        _ => out.obs.push(parse_log(&after).map(|h| h.len() as u64).unwrap_or(0)),
    }
    if let Some(code) = ensure_code {
        out.obs.push(code);
    }
}

fn new_outcome() -> Outcome {
    Outcome { obs: vec![], coq_calls: vec![], violations: vec![], unmodelled: false, appended_by_silent: 0, oracle_checks: 0, final_frames: 0, big_lines: vec![], hook_points: 0, parsed: None, plan_cases: vec![], damaged: vec![], cur_ws: 0, torn: false, idx_snaps: vec![] }
}

fn run_case(calls: &[Call], dist: Option<&mut RunResult>) -> Outcome {
    let scratch = Scratch::new("c02");
    let mut env = Env::open(scratch.path());
    mon_set_path(Some(env.log_path()));
    let mut out = new_outcome();
    let mut dist = dist;
    for call in calls {
        apply_call(&mut env, call, &mut out, &mut dist);
    }
    mon_set_path(None);
    let fin = parse_log(&env.log_bytes()).unwrap_or_default();
    out.final_frames = fin.len();
    out.obs.extend(canon_log(&fin));
    out
}

fn gen_params(r: &mut Rng) -> Params {
    Params {
        stride: *r.pick(&[None, Some(0), Some(1), Some(2), Some(3), Some(u64::MAX), Some(1), Some(2)]),
        limit: *r.pick(&[None, Some(0), Some(1), Some(32), Some(33), Some(u32::MAX)]),
        max_new: *r.pick(&[None, Some(0), Some(1), Some(2), Some(33)]),
        dry_run: *r.pick(&[None, Some(true), Some(false), Some(false)]),
        execute: *r.pick(&[None, Some(true), Some(false)]),
        block: *r.pick(&[None, Some(true), Some(false)]),
        sel: r.below(7) as u8,
        summary: *r.pick(&[0u8, 0, 0, 1, 2, 3]),
        pick: r.below(1000),
        big: if r.chance(1, 12) { Some(*r.pick(&[8190usize, 8191, 8192, 8193, 8194, 16385, 30000])) } else { None },
        esc: r.chance(1, 2),
        only_if_noop: false,
        rec: if r.chance(1, 3) { None } else { Some([1 + r.below(2) as u8, r.below(3) as u8, r.below(3) as u8]) },
        flt: if r.chance(1, 4) { None } else { Some([r.below(3) as u8, r.below(4) as u8, r.below(4) as u8]) },
    }
}

fn gen_case(r: &mut Rng, long: bool) -> Vec<Call> {
    let n = if long { r.range(18, 30) } else { r.range(4, 14) };
    let mut calls = vec![Call::Cap { cp: Cp::EnsureDefault, th: 0, p: Params::default() }];
    let mut threads = 1usize;
    for _ in 0..n {
        let th = if r.chance(1, 8) { 99 } else { r.below(threads as u64) as usize };
        let p = gen_params(r);
        let c = match r.below(40) {
            0..=8 => Call::Cap { cp: Cp::Append(4), th, p },
            9 => Call::Cap { cp: Cp::Append(5), th, p },
            10 => Call::Cap { cp: Cp::Append(13), th, p },
            11 => Call::Cap { cp: Cp::Append(14), th, p },
            12 => Call::Cap { cp: Cp::Append(6), th, p },
            13 => Call::Cap { cp: Cp::Append(7), th, p },
            14 | 15 => Call::Cap { cp: Cp::Append(8), th, p },
            16 => {
                threads += 1;
                Call::Cap { cp: Cp::Branch, th, p }
            }
            17 => {
                threads += 1;
                Call::Cap { cp: Cp::Handoff, th, p }
            }
            18 | 19 => Call::Cap { cp: Cp::Checkpoint, th, p },
            20 | 39 => Call::Cap { cp: Cp::CursorRotate, th, p },
            21..=23 => Call::Cap { cp: Cp::Auto, th, p: Params { only_if_noop: r.chance(1, 4), ..p } },
            24..=26 => Call::Cap { cp: Cp::AutoSchedule, th, p: Params { only_if_noop: r.chance(1, 4), ..p } },
            27 => Call::Cap { cp: Cp::CutPoints, th, p },
            28 => Call::Cap { cp: Cp::CompactionStatus, th, p },
            29 => Call::Cap { cp: Cp::CursorStatus, th, p },
            30 => Call::Cap { cp: Cp::SelectionStatus, th, p },
            31 => Call::Cap { cp: Cp::Replay, th, p },
            32 => Call::Cap { cp: *r.pick(&[Cp::List, Cp::Get, Cp::Subscribe]), th, p },
            33 => Call::Cap { cp: Cp::EnsureDefault, th: 0, p },
            34 | 35 => Call::Restart,
            36 if r.chance(1, 2) => Call::Age { ms: *r.pick(&[16 * 60_000, HOUR, 30 * 24 * HOUR, -HOUR]) },
            37 if r.chance(1, 2) => Call::IndexFault { kind: *r.pick(&IKINDS) },
            38 if r.chance(1, 3) => Call::Reopen { ws: r.below(3) as usize },
            38 if r.chance(1, 2) => Call::Raw { th, kind: *r.pick(&RAWKINDS) },
            _ => Call::Fault { x: *r.pick(&[Fault::Delete, Fault::TearTail, Fault::Empty, Fault::Delete]), th },
        };
        calls.push(c);
    }
    calls
}

fn cap(cp: Cp, th: usize, p: Params) -> Call {
    Call::Cap { cp, th, p }
}
fn msgs(th: usize, n: u64) -> Vec<Call> {
    (0..n).map(|i| cap(Cp::Append(4), th, Params { pick: i, ..Default::default() })).collect()
}

/// The states the read-only / dry-run capabilities branch on (name, setup history).
fn sweep_states() -> Vec<(&'static str, Vec<Call>)> {
    let ensure = || cap(Cp::EnsureDefault, 0, Params::default());
    let sched = |stride: u64, execute: bool, mx: Option<u32>| cap(Cp::AutoSchedule, 0, Params { stride: Some(stride), execute: Some(execute), max_new: mx, ..Default::default() });
    let mut base = vec![ensure()];
    base.extend(msgs(0, 5));
    base.push(cap(Cp::Append(8), 0, Params::default()));
    base.push(cap(Cp::Checkpoint, 0, Params { stride: Some(2), ..Default::default() }));
    let with = |b: &Vec<Call>, extra: Vec<Call>| {
        let mut c = b.clone();
        c.extend(extra);
        c
    };
    // a summarizer job spawned and not ended (schedule with execute=false), un-checkpointed cut points left
    let mut inflight = vec![ensure()];
    inflight.extend(msgs(0, 6));
    inflight.push(sched(2, false, Some(1)));
    let mut backlog = vec![ensure()];
    backlog.extend(msgs(0, 9));
    let mut done = vec![ensure()];
    done.extend(msgs(0, 6));
    done.push(cap(Cp::Auto, 0, Params { stride: Some(2), max_new: Some(33), ..Default::default() }));
    let mut ended = inflight.clone(); // a second schedule that runs its job to the end, then new backlog
    ended.push(cap(Cp::AutoSchedule, 0, Params { stride: Some(2), execute: Some(true), block: Some(false), max_new: Some(1), ..Default::default() }));
    ended.extend(msgs(0, 4));
    let mut two = base.clone();
    two.push(cap(Cp::Branch, 0, Params::default()));
    two.push(cap(Cp::Handoff, 0, Params::default()));
    two.extend(msgs(1, 4));
    two.push(cap(Cp::AutoSchedule, 1, Params { stride: Some(1), execute: Some(false), ..Default::default() }));
    let mut bigs = vec![ensure()];
    bigs.extend(msgs(0, 2));
    for (i, sz) in [8191usize, 8192, 8193, 100_000, 100_000, 100_000].iter().enumerate() {
        bigs.push(cap(Cp::Append(4), 0, Params { big: Some(*sz), esc: i % 2 == 1, ..Default::default() }));
    }
    vec![
        ("empty_store", vec![]),
        ("base", base.clone()),
        ("inflight_job", inflight.clone()),
        ("inflight_job_caches_deleted_restart", with(&inflight, vec![Call::Fault { x: Fault::Delete, th: 0 }, Call::Restart])),
        ("inflight_job_restart", with(&inflight, vec![Call::Restart])),
        ("backlog_larger_than_max_new", backlog),
        ("all_cut_points_checkpointed", done.clone()),
        ("job_ended_then_new_backlog", ended.clone()),
        ("base_caches_deleted", with(&base, vec![Call::Fault { x: Fault::Delete, th: 0 }])),
        ("base_caches_deleted_restart", with(&base, vec![Call::Fault { x: Fault::Delete, th: 0 }, Call::Restart])),
        ("base_torn_sidecar_restart", with(&base, vec![Call::Fault { x: Fault::TearTail, th: 0 }, Call::Restart])),
        ("base_empty_sidecar_restart", with(&base, vec![Call::Fault { x: Fault::Empty, th: 0 }, Call::Restart])),
        ("base_stale_sidecar_restart", with(&base, vec![Call::Fault { x: Fault::CutLine, th: 0 }, Call::Restart])),
        ("base_fresh_restart", with(&base, vec![Call::Restart])),
        ("children_inflight_on_child", two),
        ("frames_over_8k_and_over_256k_per_thread", bigs),
        // the same store "that much later": every time-dependent branch of a read-only path sees old frames
        ("inflight_job_aged_1h", with(&inflight, vec![Call::Age { ms: HOUR }])),
        ("inflight_job_aged_16min_caches_deleted", with(&inflight, vec![Call::Age { ms: 16 * 60_000 }, Call::Fault { x: Fault::Delete, th: 0 }])),
        ("inflight_job_aged_400d", with(&inflight, vec![Call::Age { ms: 400 * 24 * HOUR }])),
        ("inflight_job_clock_1h_behind", with(&inflight, vec![Call::Age { ms: -HOUR }])),
        ("job_ended_then_new_backlog_aged_1d", with(&ended, vec![Call::Age { ms: 24 * HOUR }])),
        ("all_cut_points_checkpointed_aged_1h", with(&done, vec![Call::Age { ms: HOUR }])),
        ("base_cursor_and_checkpoint_aged_400d", with(&base, vec![Call::Age { ms: 400 * 24 * HOUR }])),
        // the comp sidecar unparsable in its last line (a crash inside append_compaction_checkpoints_best_effort_v1)
        ("all_cut_points_checkpointed_comp_sidecar_torn_restart", with(&done, vec![Call::CacheFault { file: CFile::Comp, kind: CKind::TornLastLine, th: 0 }, Call::Restart])),
    ]
}
const HOUR: i64 = 3_600_000;

const STRIDES: [Option<u64>; 6] = [None, Some(0), Some(1), Some(2), Some(3), Some(u64::MAX)];
const LIMITS: [Option<u32>; 6] = [None, Some(0), Some(1), Some(32), Some(33), Some(u32::MAX)];
const TRI: [Option<bool>; 3] = [None, Some(true), Some(false)];

/// every request-parameter combination of the read-only / dry-run / no-op invocations on thread `th`
/// (`pick` selects the unknown id when `th` names no thread)
fn full_param_sweep(th: usize, pick: u64) -> Vec<Call> {
    let mut c = vec![];
    let base = Params { pick, ..Default::default() };
    for cp in [Cp::List, Cp::Get, Cp::Subscribe, Cp::Replay, Cp::CursorStatus] {
        c.push(cap(cp, th, base.clone()));
    }
    for stride in STRIDES {
        c.push(cap(Cp::CompactionStatus, th, Params { stride, ..base.clone() }));
        for limit in LIMITS {
            c.push(cap(Cp::CutPoints, th, Params { stride, limit, ..base.clone() }));
        }
        let maxes: &[Option<u32>] = if stride == Some(0) { &[None, Some(2)] } else { &[None, Some(0), Some(1), Some(2), Some(33)] };
        for max_new in maxes.iter().copied() {
            // dry-run with every other parameter; the no-op (stride 0) also without dry_run
            let drys: &[Option<bool>] = if stride == Some(0) { &TRI } else { &[Some(true)] };
            for dry_run in drys {
                c.push(cap(Cp::Auto, th, Params { stride, max_new, dry_run: *dry_run, ..base.clone() }));
                for block in TRI {
                    for execute in TRI {
                        c.push(cap(Cp::AutoSchedule, th, Params { stride, max_new, dry_run: *dry_run, block, execute, ..base.clone() }));
                    }
                }
            }
        }
    }
    for limit in LIMITS {
        c.push(cap(Cp::SelectionStatus, th, Params { limit, ..base.clone() }));
    }
    c.extend(noop_probes(th, pick, &[None, Some(1), Some(2), Some(3), Some(u64::MAX)], true));
    c
}

/// auto / auto-schedule WITHOUT dry_run where the truth log leaves nothing to do (decided per call by
/// `ref_unplanned`; a call that has something to do is issued as a dry run instead)
fn noop_probes(th: usize, pick: u64, strides: &[Option<u64>], all: bool) -> Vec<Call> {
    let mut c = vec![];
    let base = Params { pick, only_if_noop: true, ..Default::default() };
    for stride in strides.iter().copied() {
        let maxes: &[Option<u32>] = if all { &[None, Some(33)] } else { &[Some(33)] };
        for max_new in maxes.iter().copied() {
            c.push(cap(Cp::Auto, th, Params { stride, max_new, ..base.clone() }));
            for (block, execute) in [(None, None), (Some(false), Some(true)), (Some(true), Some(false)), (Some(false), Some(false))] {
                if all || block.is_none() || execute == Some(false) {
                    c.push(cap(Cp::AutoSchedule, th, Params { stride, max_new, block, execute, ..base.clone() }));
                }
            }
        }
    }
    c
}

/// one representative invocation of every capability (read-only ones AND the writers, which must fail
/// without writing) for every unknown / path-shaped id
fn id_sweep() -> Vec<Call> {
    let mut c = vec![];
    for pick in 0..UNKNOWN_IDS.len() as u64 {
        let b = Params { pick, ..Default::default() };
        for cp in [Cp::Get, Cp::Replay, Cp::CursorStatus, Cp::SelectionStatus, Cp::CompactionStatus, Cp::CutPoints] {
            c.push(cap(cp, 99, b.clone()));
        }
        c.push(cap(Cp::CutPoints, 99, Params { stride: Some(2), limit: Some(1), ..b.clone() }));
        c.push(cap(Cp::CompactionStatus, 99, Params { stride: Some(2), ..b.clone() }));
        for cp in [Cp::Auto, Cp::AutoSchedule] {
            c.push(cap(cp, 99, Params { stride: Some(2), dry_run: Some(true), ..b.clone() }));
            c.push(cap(cp, 99, Params { stride: Some(0), ..b.clone() }));
            c.push(cap(cp, 99, Params { stride: Some(2), ..b.clone() }));
        }
        for cp in [Cp::Append(4), Cp::Append(5), Cp::Append(8), Cp::Append(14), Cp::Branch, Cp::Handoff, Cp::Checkpoint, Cp::CursorRotate] {
            c.push(cap(cp, 99, Params { stride: Some(2), ..b.clone() }));
        }
    }
    c
}

fn sweep_cases(thorough: bool) -> Vec<(String, Vec<Call>)> {
    let mut out = vec![];
    for (name, setup) in sweep_states() {
        let th = if name == "children_inflight_on_child" { 1 } else { 0 };
        let tail = vec![cap(Cp::Append(4), th, Params::default()), cap(Cp::CompactionStatus, th, Params { stride: Some(2), ..Default::default() })];
        if name != "empty_store" {
            // A state made by a cache fault (+ restart) lasts only until the first call that rebuilds the
            // caches: the fault is applied again before EVERY call of the sweep, so that each parameter
            // combination of each capability meets the faulted state itself.
            let k = setup.iter().rposition(|c| matches!(c, Call::Cap { .. } | Call::Age { .. })).map(|i| i + 1).unwrap_or(0);
            let refault: Vec<Call> = setup[k..].to_vec();
            let mut c = setup[..k].to_vec();
            for call in full_param_sweep(th, 0) {
                c.extend(refault.clone());
                c.push(call);
            }
            if refault.is_empty() {
                c.extend(tail.clone());
            } else {
                c.extend(refault.clone());
                c.extend(tail.clone());
            }
            out.push((format!("sweep/{name}/known"), c));
        }
        // the id that names the truth log: full sweep in every content state (the sidecar faults of the
        // default thread make no difference to a call aimed at another id: one of them is enough)
        if !name.starts_with("base_") || name == "base_caches_deleted_restart" {
            let mut c = setup.clone();
            c.extend(full_param_sweep(99, ID_EVENTS));
            c.extend(tail.clone());
            out.push((format!("sweep/{name}/id=../events"), c));
        }
        if ["empty_store", "base", "inflight_job", "base_caches_deleted_restart", "frames_over_8k_and_over_256k_per_thread"].contains(&name) {
            let mut c = setup.clone();
            c.extend(id_sweep());
            c.extend(tail);
            out.push((format!("sweep/{name}/all_ids"), c));
        }
    }
    out.extend(product_cases());
    out.extend(noop_fault_cases(thorough));
    out.extend(rotate_filter_cases(thorough));
    out.extend(index_state_cases(thorough));
    out.extend(raw_frame_cases());
    out
}

/// (a) provider-cursor-rotate: EVERY combination of the three optional filters (absent / a recorded value / another
/// recorded value / a value nothing records) against threads whose cursor frames record endpoint and model, only one
/// of them, or neither (a run configured without a model records none; old logs have no endpoint) - in four cache
/// states.  Whether a rotate must find nothing is judged per call on the frames of the truth log.
fn rotate_filter_cases(thorough: bool) -> Vec<(String, Vec<Call>)> {
    let ensure = || cap(Cp::EnsureDefault, 0, Params::default());
    let cur = |rec: [u8; 3]| cap(Cp::Append(8), 0, Params { rec: Some(rec), ..Default::default() });
    let contents: Vec<(&str, Vec<Call>)> = vec![
        ("no_cursor", vec![]),
        ("cursor_with_endpoint_and_model", vec![cur([1, 1, 1])]),
        ("cursor_without_model", vec![cur([1, 1, 0])]),
        ("cursor_without_endpoint", vec![cur([1, 0, 1])]),
        ("cursor_without_endpoint_and_model", vec![cur([1, 0, 0])]),
        ("cursors_mixed", vec![cur([1, 1, 1]), cur([1, 1, 0]), cur([2, 0, 2]), cap(Cp::Append(4), 0, Params::default()), cur([1, 2, 0])]),
        ("cursor_rotated_by_an_unfiltered_request", vec![cur([1, 1, 0]), cap(Cp::CursorRotate, 0, Params { flt: Some([0, 0, 0]), ..Default::default() })]),
        ("raw_cursor_frames_of_an_older_log", vec![Call::Raw { th: 0, kind: RawKind::CursorNoEndpointNoModel }, Call::Raw { th: 0, kind: RawKind::CursorNoModel }]),
    ];
    let states: Vec<(&str, Vec<Call>)> = vec![
        ("as_is", vec![]),
        ("caches_deleted", vec![Call::Fault { x: Fault::Delete, th: 0 }]),
        ("restart", vec![Call::Restart]),
        ("sidecar_torn_restart", vec![Call::Fault { x: Fault::TearTail, th: 0 }, Call::Restart]),
    ];
    let vals: &[u8] = if thorough { &[0, 1, 2, 3] } else { &[0, 1, 2] };
    let mut out = vec![];
    for (cname, setup) in contents {
        let mut c = vec![ensure()];
        c.extend(msgs(0, 2));
        c.extend(setup);
        for (sname, pre) in &states {
            if !thorough && *sname == "caches_deleted" && cname != "cursor_without_model" {
                continue;
            }
            for fp in vals {
                for fe in vals {
                    for fm in vals {
                        c.extend(pre.clone());
                        c.push(cap(Cp::CursorRotate, 0, Params { flt: Some([*fp, *fe, *fm]), pick: (*fp + *fe + *fm) as u64, ..Default::default() }));
                    }
                }
            }
            c.push(cap(Cp::CursorStatus, 0, Params::default()));
        }
        out.push((format!("rotate_filters/{cname}"), c));
    }
    out
}

/// (b) ensure_default (the one get-or-create of the store) after a restart under every state of the rebuildable
/// index continuities/index.json: absent, current, behind the log (the content before the last save = the process
/// died between the log append and save_index; an older backup), unreadable (zero bytes, torn, garbage), another
/// version, valid but empty, workspace table emptied, with a left-over temporary file.  Two workspaces share the data
/// dir in two of the contents (the index then lists one of them and not the other).  Followed each time by the other
/// no-op invocations on the thread.  The log is the truth: nothing may be added, the answer is a thread of the log.
fn index_state_cases(thorough: bool) -> Vec<(String, Vec<Call>)> {
    let ensure = || cap(Cp::EnsureDefault, 0, Params::default());
    let mut one = vec![ensure()];
    one.extend(msgs(0, 2));
    one.push(cap(Cp::Append(8), 0, Params { rec: Some([1, 1, 0]), ..Default::default() }));
    // two workspaces, each with its default thread
    let mut two = vec![ensure()];
    two.extend(msgs(0, 1));
    two.push(Call::Reopen { ws: 1 });
    two.push(ensure());
    two.extend(msgs(1, 1));
    // children: branch + handoff of the default thread; workspace 1 has only a child (branched by a store opened for it)
    let mut kids = vec![ensure()];
    kids.extend(msgs(0, 2));
    kids.push(cap(Cp::Branch, 0, Params::default()));
    kids.push(cap(Cp::Handoff, 0, Params::default()));
    kids.push(Call::Reopen { ws: 1 });
    kids.push(cap(Cp::Branch, 0, Params::default()));
    let contents: Vec<(&str, Vec<Call>, Vec<usize>)> = vec![("one_workspace", one, vec![0]), ("two_workspaces", two, vec![0, 1]), ("children_and_a_workspace_with_only_a_child", kids, vec![0, 1])];
    let mut out = vec![];
    for (cname, setup, wss) in contents {
        let mut c = setup;
        for kind in IKINDS {
            for ws in &wss {
                // after a restart
                c.push(Call::IndexFault { kind });
                c.push(Call::Reopen { ws: *ws });
                c.push(ensure());
                c.push(ensure());
                c.push(cap(Cp::List, 0, Params::default()));
                c.push(cap(Cp::CursorRotate, 0, Params { flt: Some([0, 0, 1]), ..Default::default() }));
                c.push(cap(Cp::CompactionStatus, 0, Params { stride: Some(2), ..Default::default() }));
                c.push(cap(Cp::AutoSchedule, 0, Params { stride: Some(3), only_if_noop: true, ..Default::default() }));
                c.push(ensure());
                // the fault, then a plain restart of the same workspace, ensure as the FIRST call
                c.push(Call::IndexFault { kind });
                c.push(Call::Restart);
                c.push(ensure());
                if thorough || matches!(kind, IKind::Garbage | IKind::Snapshot(1)) {
                    // without a restart: the in-memory index answers, the file is not looked at
                    c.push(Call::IndexFault { kind });
                    c.push(ensure());
                    // ... and the caches of the thread gone as well
                    c.push(Call::IndexFault { kind });
                    c.push(Call::Fault { x: Fault::Delete, th: 0 });
                    c.push(Call::Restart);
                    c.push(ensure());
                }
            }
        }
        c.push(cap(Cp::Append(4), 0, Params::default()));
        out.push((format!("index_states/{cname}"), c));
    }
    // a store whose log is empty: the first ensure creates the thread whatever the index file holds (non-vacuity: the
    // same call DOES append when the log has no thread of the workspace)
    let mut fresh = vec![Call::IndexFault { kind: IKind::Garbage }, Call::Restart, ensure(), ensure()];
    fresh.extend([Call::Reopen { ws: 2 }, ensure(), ensure(), Call::IndexFault { kind: IKind::Snapshot(1) }, Call::Reopen { ws: 2 }, ensure(), Call::Reopen { ws: 0 }, ensure()]);
    out.push(("index_states/fresh_store_unreadable_index_then_a_third_workspace".to_string(), fresh));
    out
}

/// frames whose OPTIONAL fields are absent (written by an older version of the store / another writer: appended to
/// events.jsonl directly, no cache told, store restarted) followed by the no-op and read-only invocations that read
/// those frames: cursor without endpoint / model, checkpoint without message ids, job without details / result,
/// schedule decision without a job, run without an actor
fn raw_frame_cases() -> Vec<(String, Vec<Call>)> {
    let ensure = || cap(Cp::EnsureDefault, 0, Params::default());
    let mut out = vec![];
    for kind in RAWKINDS {
        let mut c = vec![ensure()];
        c.extend(msgs(0, 4));
        c.push(cap(Cp::Auto, 0, Params { stride: Some(2), max_new: Some(33), ..Default::default() }));
        for restart in [false, true] {
            c.push(Call::Raw { th: 0, kind });
            if restart {
                c.push(Call::Fault { x: Fault::Delete, th: 0 });
                c.push(Call::Restart);
            }
            c.extend(noop_probes(0, 0, &[Some(2), Some(4), None], true));
            for cp in [Cp::CompactionStatus, Cp::CutPoints, Cp::CursorStatus, Cp::SelectionStatus, Cp::Replay] {
                c.push(cap(cp, 0, Params { stride: Some(2), ..Default::default() }));
            }
            for flt in [[0u8, 0, 1], [0, 1, 0], [0, 2, 2], [2, 0, 0], [1, 1, 1]] {
                c.push(cap(Cp::CursorRotate, 0, Params { flt: Some(flt), ..Default::default() }));
            }
            c.push(ensure());
        }
        c.push(cap(Cp::Append(4), 0, Params::default()));
        out.push((format!("raw_frames/{kind:?}"), c));
    }
    out
}

/// (a) a thread with NOTHING TO DO x one fault on one cache file x {as it is, restart} x the no-op
/// invocations without dry_run (and the readers the planner is made of).  The caches are healed
/// (all removed, rebuilt by reads) before each (file, fault) group; the fault is applied again before
/// every call.
fn noop_fault_cases(thorough: bool) -> Vec<(String, Vec<Call>)> {
    let ensure = || cap(Cp::EnsureDefault, 0, Params::default());
    let mut a = vec![ensure()];
    a.extend(msgs(0, 6));
    a.push(cap(Cp::Auto, 0, Params { stride: Some(2), max_new: Some(33), ..Default::default() }));
    // the setting of seed C02-6: 7 messages, schedule with stride 3 -> checkpoints at messages 3 and 6
    let mut b = vec![ensure()];
    b.extend(msgs(0, 7));
    b.push(cap(Cp::AutoSchedule, 0, Params { stride: Some(3), max_new: Some(32), execute: Some(true), ..Default::default() }));
    b.push(cap(Cp::Append(8), 0, Params::default()));
    // nothing to do AND an announced job that never ran (the scheduler's in-flight branch)
    let mut c3 = vec![ensure()];
    c3.extend(msgs(0, 4));
    c3.push(cap(Cp::AutoSchedule, 0, Params { stride: Some(2), max_new: Some(1), execute: Some(false), ..Default::default() }));
    c3.push(cap(Cp::Auto, 0, Params { stride: Some(2), max_new: Some(33), ..Default::default() }));
    // frames of 40 kB: every cache file is larger than the 64 KiB window its reader scans from the tail, so a
    // fault in the MIDDLE of a file lies outside that window (position-dependent detection)
    let mut big = vec![ensure()];
    for i in 0..6u64 {
        big.push(cap(Cp::Append(4), 0, Params { big: Some(40_000), esc: i % 2 == 1, pick: i, ..Default::default() }));
    }
    big.push(cap(Cp::Auto, 0, Params { stride: Some(2), max_new: Some(33), ..Default::default() }));
    // + one message beyond the newest cut point (an off-by-one in an ordinal lookup lands on it)
    big.push(cap(Cp::Append(4), 0, Params { big: Some(40_000), pick: 6, ..Default::default() }));
    let mut out = vec![];
    let (noop_a, noop_b, noop_big) = (a.clone(), b.clone(), big.clone());
    let mut contents = vec![("auto_stride2_6msgs", a, 2u64), ("schedule_stride3_7msgs_cursor", b, 3), ("unrun_job_then_auto_stride2_4msgs", c3, 2), ("auto_stride2_7msgs_of_40kB", big, 2)];
    if thorough {
        // more cut points than one call looks at: 70 messages, stride 2 = 35 cut points, the planner sees the
        // newest 32 - once those are covered nothing is to do although 3 old cut points have no checkpoint
        let mut d = vec![ensure()];
        d.extend(msgs(0, 70));
        d.push(cap(Cp::Auto, 0, Params { stride: Some(2), max_new: Some(33), ..Default::default() }));
        contents.push(("more_cut_points_than_the_planner_window_70msgs", d, 2));
        // every message a cut point (stride 1), checkpoints made one by one by the scheduler, frames of other kinds in between
        let mut e = vec![ensure()];
        for i in 0..5u64 {
            e.extend(msgs(0, 1));
            e.push(cap(Cp::Append(if i % 2 == 0 { 8 } else { 14 }), 0, Params::default()));
            e.push(cap(Cp::AutoSchedule, 0, Params { stride: Some(1), max_new: Some(1), execute: Some(true), block: Some(false), ..Default::default() }));
        }
        contents.push(("stride1_scheduler_one_by_one_5msgs", e, 1));
    }
    for (cname, setup, stride) in contents {
        for file in CFILES {
            let mut c = setup.clone();
            for kind in CKINDS {
                // (whole-file faults do not depend on the size of the file: the small contents cover them)
                if cname.ends_with("40kB") && !thorough && matches!(kind, CKind::Deleted | CKind::ZeroLength) {
                    continue;
                }
                for restart in [false, true] {
                    // heal: every cache of the thread removed, then rebuilt from the truth log by reads
                    c.push(Call::Fault { x: Fault::Delete, th: 0 });
                    c.push(cap(Cp::Replay, 0, Params::default()));
                    c.push(cap(Cp::CutPoints, 0, Params { stride: Some(stride), limit: Some(33), ..Default::default() }));
                    c.push(cap(Cp::CompactionStatus, 0, Params { stride: Some(stride), ..Default::default() }));
                    c.push(cap(Cp::SelectionStatus, 0, Params::default()));
                    let mut probes = noop_probes(0, 0, &[Some(stride)], false);
                    probes.push(cap(Cp::CutPoints, 0, Params { stride: Some(stride), limit: Some(33), ..Default::default() }));
                    probes.push(cap(Cp::CompactionStatus, 0, Params { stride: Some(stride), ..Default::default() }));
                    probes.extend(noop_probes(0, 0, &[Some(stride)], false));
                    if !cname.contains("cursor") {
                        // no provider cursor frame in these threads: rotating has nothing to rotate
                        probes.push(cap(Cp::CursorRotate, 0, Params { pick: 1, ..Default::default() }));
                    }
                    for call in probes {
                        c.push(Call::CacheFault { file, kind, th: 0 });
                        if restart {
                            c.push(Call::Restart);
                        }
                        c.push(call);
                    }
                }
            }
            c.push(cap(Cp::Append(4), 0, Params::default()));
            out.push((format!("noop_x_cache_fault/{cname}/{}", file.suffix()), c));
        }
    }
    // TWO files damaged at once (a crash in the middle of append_best_effort leaves more than one file
    // behind; fallbacks of fallbacks are reached only this way): pairs of different files
    let files2: Vec<CFile> = if thorough { CFILES.to_vec() } else { vec![CFile::Full, CFile::Mr, CFile::MrMsgIdx, CFile::MrOrd, CFile::Comp] };
    let kinds2: Vec<CKind> = if thorough { CKINDS.to_vec() } else { vec![CKind::Deleted, CKind::TornLastLine, CKind::MidGarbage] };
    let mut pair_contents = vec![("auto_stride2_7msgs_of_40kB", noop_big.clone(), 2u64)];
    if thorough {
        pair_contents.push(("auto_stride2_6msgs", noop_a.clone(), 2));
        pair_contents.push(("schedule_stride3_7msgs_cursor", noop_b.clone(), 3));
    }
    for (cname, setup, stride) in pair_contents {
        for (i, f1) in files2.iter().enumerate() {
            let mut c = setup.clone();
            for f2 in &files2[i + 1..] {
                for (a1, k1) in kinds2.iter().enumerate() {
                    for (a2, k2) in kinds2.iter().enumerate() {
                        c.push(Call::Fault { x: Fault::Delete, th: 0 });
                        c.push(cap(Cp::Replay, 0, Params::default()));
                        c.push(cap(Cp::CutPoints, 0, Params { stride: Some(stride), limit: Some(33), ..Default::default() }));
                        c.push(cap(Cp::CompactionStatus, 0, Params { stride: Some(stride), ..Default::default() }));
                        c.push(cap(Cp::SelectionStatus, 0, Params::default()));
                        let probes = [
                            cap(Cp::Auto, 0, Params { stride: Some(stride), max_new: Some(33), only_if_noop: true, ..Default::default() }),
                            cap(Cp::AutoSchedule, 0, Params { stride: Some(stride), max_new: Some(33), only_if_noop: true, ..Default::default() }),
                        ];
                        for call in probes {
                            c.push(Call::CacheFault { file: *f1, kind: *k1, th: 0 });
                            c.push(Call::CacheFault { file: *f2, kind: *k2, th: 0 });
                            if (a1 + a2) % 2 == 1 {
                                c.push(Call::Restart);
                            }
                            c.push(call);
                        }
                    }
                }
            }
            if c.len() > setup.len() {
                out.push((format!("noop_x_two_cache_faults/{cname}/{}+later_files", f1.suffix()), c));
            }
        }
    }
    // the known S4 state (C04): the comp sidecar is lost and re-created by the next checkpoint append, so
    // it is well-formed but holds only the newest checkpoint; then the no-op invocations
    let mut s4 = vec![ensure()];
    for _ in 0..3 {
        s4.extend(msgs(0, 2));
        if s4.len() > 6 {
            s4.push(Call::CacheFault { file: CFile::Comp, kind: CKind::Deleted, th: 0 });
            s4.push(Call::CacheFault { file: CFile::CompIdx, kind: CKind::Deleted, th: 0 });
        }
        s4.push(cap(Cp::Checkpoint, 0, Params { stride: Some(2), ..Default::default() }));
    }
    s4.extend(noop_probes(0, 0, &[Some(2)], false));
    out.push(("noop_x_cache_fault/known_S4_comp_sidecar_recreated_by_append".to_string(), s4));
    out
}

/// the capabilities with the parameters they branch on, without the full product (used for the
/// content x fault x restart product of states)
fn core_param_sweep(th: usize) -> Vec<Call> {
    let mut c = vec![];
    for cp in [Cp::Replay, Cp::CursorStatus, Cp::SelectionStatus, Cp::Get] {
        c.push(cap(cp, th, Params::default()));
    }
    for stride in [None, Some(1), Some(2), Some(3)] {
        c.push(cap(Cp::CompactionStatus, th, Params { stride, ..Default::default() }));
        c.push(cap(Cp::CutPoints, th, Params { stride, limit: Some(2), ..Default::default() }));
        for max_new in [None, Some(2)] {
            c.push(cap(Cp::Auto, th, Params { stride, max_new, dry_run: Some(true), ..Default::default() }));
            for block in TRI {
                c.push(cap(Cp::AutoSchedule, th, Params { stride, max_new, dry_run: Some(true), block, execute: Some(block != Some(false)), ..Default::default() }));
            }
        }
    }
    c.push(cap(Cp::Auto, th, Params { stride: Some(0), ..Default::default() }));
    c.push(cap(Cp::AutoSchedule, th, Params { stride: Some(0), ..Default::default() }));
    c
}

/// thread content x sidecar fault x restart: every combination, the fault (+ restart) applied again
/// before every call.  (The faults other than Delete leave the derived caches in place while the
/// full sidecar is unusable - the state the in-flight scan's fallback exists for.)
fn product_cases() -> Vec<(String, Vec<Call>)> {
    let states = sweep_states();
    let content = |n: &str| states.iter().find(|s| s.0 == n).expect("state").1.clone();
    let mut out = vec![];
    for cname in ["base", "inflight_job", "backlog_larger_than_max_new", "all_cut_points_checkpointed", "job_ended_then_new_backlog"] {
        let setup = content(cname);
        // warm every derived cache first (a read of every kind), so that a fault of the full sidecar alone
        // leaves the derived ones behind
        let mut warm = setup.clone();
        warm.extend(core_param_sweep(0));
        let mut c = warm;
        let mut label = vec![];
        for fault in [None, Some(Fault::Delete), Some(Fault::TearTail), Some(Fault::Empty), Some(Fault::CutLine)] {
            for restart in [false, true] {
                if fault.is_none() && !restart {
                    continue;
                }
                label.push(format!("{}{}", fault.map(|f| f.name()).unwrap_or_else(|| "nofault".into()), if restart { "+restart" } else { "" }));
                for call in core_param_sweep(0) {
                    if let Some(x) = fault {
                        c.push(Call::Fault { x, th: 0 });
                    }
                    if restart {
                        c.push(Call::Restart);
                    }
                    c.push(call);
                }
            }
        }
        c.push(cap(Cp::Append(4), 0, Params::default()));
        out.push((format!("product/{cname}/x[{}]", label.join(",")), c));
    }
    out
}

/// Store histories over a log with an unterminated tail: a prepared state, the tail, a RESTART, every core read-only /
/// dry-run invocation (restart again before some of them), an append, a restart, the reads again, ensure_default.
fn torn_history_cases(thorough: bool) -> Vec<(String, Vec<Call>)> {
    use torn::TailKind as T;
    let states = sweep_states();
    let content = |n: &str| states.iter().find(|s| s.0 == n).expect("state").1.clone();
    let tails: Vec<(usize, T)> = if thorough {
        vec![(1, T::FramePrefix), (40, T::Garbage), (5000, T::GarbageInnerNewline), (8192, T::WholeFrameNoNewline), (65_535, T::FramePrefix), (65_536, T::FramePrefix), (65_537, T::Garbage), (70_000, T::WholeFrameNoNewline), (100_001, T::GarbageInnerNewline), (300_000, T::FramePrefix)]
    } else {
        vec![(1, T::FramePrefix), (5000, T::GarbageInnerNewline), (65_536, T::FramePrefix), (70_000, T::WholeFrameNoNewline), (300_000, T::Garbage)]
    };
    let mut out = vec![];
    for (k, cname) in ["base", "inflight_job", "all_cut_points_checkpointed", "children_inflight_on_child"].iter().enumerate() {
        for (j, (n, kind)) in tails.iter().enumerate() {
            if !thorough && (k + j) % 2 == 1 {
                continue;
            }
            let mut c = content(cname);
            c.push(Call::TornTail { n: *n, kind: *kind });
            c.push(Call::Restart);
            for (i, call) in core_param_sweep(0).into_iter().enumerate() {
                if i % 9 == 4 {
                    c.push(Call::Restart);
                }
                c.push(call);
            }
            c.push(cap(Cp::Append(4), 0, Params::default()));
            c.push(cap(Cp::Append(8), 0, Params::default()));
            c.push(Call::Restart);
            c.extend(core_param_sweep(0));
            c.push(cap(Cp::EnsureDefault, 0, Params::default()));
            c.push(cap(Cp::List, 0, Params::default()));
            c.push(Call::Fault { x: Fault::Delete, th: 0 });
            c.push(Call::Restart);
            c.extend(core_param_sweep(0));
            c.push(cap(Cp::Append(4), 0, Params::default()));
            out.push((format!("torn_tail/{cname}/{n}_{kind:?}"), c));
        }
    }
    out
}

fn call_json(c: &Call) -> serde_json::Value {
    match c {
        Call::Cap { th, p, .. } if *th >= 90 => json!(format!("{c:?} unknown_id={:?}", unknown_id(p.pick, None).chars().take(60).collect::<String>())),
        _ => json!(format!("{c:?}")),
    }
}

// =====================================================================================
// log-level cases: EventLog::append alone, frames around the BufWriter capacity (8192)
// =====================================================================================
fn delta_event(sid: &str, seq: u64, total: usize, esc: bool) -> rip_kernel::Event {
    let mk = |delta: String| rip_kernel::Event { id: format!("id-{seq:08}"), session_id: sid.to_string(), timestamp_ms: 1_700_000_000_000, seq, kind: rip_kernel::EventKind::OutputTextDelta { delta } };
    let fixed = serde_json::to_string(&mk(String::new())).unwrap().len() + 1; // + newline
    let (unit, unit_out) = if esc { ("a\n\"", 5) } else { ("a", 1) };
    let want = total.saturating_sub(fixed);
    let mut c = unit.repeat(want / unit_out);
    c.push_str(&"b".repeat(want % unit_out));
    mk(c)
}

fn push_violation(res: &mut RunResult, case_id: i64, what: String, class: &str, replay: serde_json::Value) {
    // at most 4 reports per class, so that one loud detector does not hide the others
    res.bump(&format!("violations_of_class={class}"));
    if res.oracle_violations.iter().filter(|v| v.class == class).count() < 4 {
        res.oracle_violations.push(OracleViolation { case_id, what, class: class.into(), replay });
    }
}

fn log_level_cases(a: &Args, res: &mut RunResult, base_id: i64, w: &mut CaseWriter) {
    use rip_log::EventLog;
    // L1: one handle; the file is inspected around every append and at every log.* point inside it
    let sizes: Vec<usize> = vec![200, 4096, 8190, 8191, 8192, 8193, 8194, 8300, 16383, 16384, 16385, 24577, 65536, 100_000, 250_000];
    for esc in [false, true] {
        let sc = Scratch::new("c02log");
        let path = sc.path().join("data").join("events.jsonl");
        let log = EventLog::new(&path).expect("event log");
        mon_set_path(Some(path.clone()));
        for (i, total) in sizes.iter().enumerate() {
            let ev = delta_event("s-big", i as u64, *total, esc);
            let before = std::fs::read(&path).unwrap_or_default();
            let _ = mon_take_growth();
            let r = std::panic::catch_unwind(std::panic::AssertUnwindSafe(|| log.append(&ev)));
            let after = std::fs::read(&path).unwrap_or_default();
            res.evaluations += 1;
            res.oracle_checks += 1;
            res.bump("log_level_appends");
            let replay = json!({"kind": "log_level_append", "frame_line_bytes_incl_newline": total, "escapes": esc, "frames_before": i});
            let (hv, hp) = mon_drain();
            let growth = mon_take_growth();
            res.oracle_checks += hp;
            res.bump_by("hook_points_checked_inside_append", hp);
            for (what, class) in hv {
                push_violation(res, base_id + i as i64, format!("EventLog::append of a {total}-byte frame line: {what}"), &class, replay.clone());
            }
            // correspondence with the byte-level model (BufWriter rule): growth of the file at
            // log.body_written (after the write, before the flush) and at log.flushed
            let at = |p: &str| growth.iter().find(|g| g.0 == p).map(|g| g.1);
            if let (Some(g1), Some(g2), false, true) = (at("log.body_written"), at("log.flushed"), a.oracle_only(), *total <= 70_000) {
                let id = w.push(format!("CBytes {{| cb_len := {}; cb_expect := {} |}}", coq_n(*total as u64), coq_list_n(&[g1, g2])));
                res.case_index.insert(id.to_string(), replay.clone());
                res.bump("byte_model_cases");
            }
            if !matches!(r, Ok(Ok(()))) {
                push_violation(res, base_id + i as i64, format!("EventLog::append of a {total}-byte frame failed / panicked"), "panic", replay.clone());
                continue;
            }
            let want = {
                let mut l = serde_json::to_vec(&ev).unwrap();
                l.push(b'\n');
                l
            };
            if after.len() < before.len() || after[..before.len()] != before[..] {
                push_violation(res, base_id + i as i64, format!("append of a {total}-byte frame: previous content is no longer a prefix"), "log_prefix_changed", replay.clone());
            } else if after[before.len()..] != want[..] || want.len() != *total {
                push_violation(res, base_id + i as i64, format!("append of a {total}-byte frame added {} bytes that are not exactly the frame and its newline", after.len() - before.len()), "partial_frame_appended", replay.clone());
            }
        }
        match log.replay() {
            Ok(evs) if evs.len() == sizes.len() => {}
            other => push_violation(res, base_id, format!("replay after the big appends: {:?}", other.map(|e| e.len())), "partial_frame_appended", json!({"kind": "log_level_append", "escapes": esc})),
        }
        mon_set_path(None);
    }
    // L1b: two handles on one file taking turns (a second authority on the same data dir, an old store
    // object finishing its work after a restart): deterministic.  Every append of either handle must
    // leave the previous content as a prefix and add exactly its own frame - a handle that writes at
    // its own offset (no O_APPEND) overwrites what the other one wrote.  Raw EventLog handles, then
    // the same through two ContinuityStore instances on one data dir.
    {
        let sc = Scratch::new("c02two");
        let path = sc.path().join("data").join("events.jsonl");
        let a_log = EventLog::new(&path).expect("event log");
        let b_log = EventLog::new(&path).expect("event log");
        let mut turn = 0u64;
        for (who, total) in [("a", 300usize), ("b", 700), ("a", 250), ("b", 9000), ("a", 200), ("a", 20_000), ("b", 220), ("b", 230), ("a", 240)] {
            let ev = delta_event(if who == "a" { "s-a" } else { "s-b" }, turn, total, false);
            turn += 1;
            let before = std::fs::read(&path).unwrap_or_default();
            let r = std::panic::catch_unwind(std::panic::AssertUnwindSafe(|| if who == "a" { a_log.append(&ev) } else { b_log.append(&ev) }));
            let after = std::fs::read(&path).unwrap_or_default();
            res.oracle_checks += 1;
            res.bump("two_handles_taking_turns_appends");
            let replay = json!({"kind": "two_handles_taking_turns", "level": "EventLog", "step": turn, "handle": who, "frame_line_bytes": total, "order": "a b a b a a b b a"});
            if !matches!(r, Ok(Ok(()))) {
                push_violation(res, base_id + 50, format!("two EventLog handles taking turns: append #{turn} by handle {who} failed"), "panic", replay);
                break;
            }
            let mut want = serde_json::to_vec(&ev).unwrap();
            want.push(b'\n');
            if after.len() < before.len() || after[..before.len()] != before[..] {
                push_violation(res, base_id + 50, format!("two EventLog handles on one file taking turns: after append #{turn} (handle {who}, {total} bytes) the previous content is no longer a prefix ({} -> {} bytes): the handle wrote at its own offset over frames of the other one", before.len(), after.len()), "log_prefix_changed", replay);
                break;
            } else if after[before.len()..] != want[..] {
                push_violation(res, base_id + 50, format!("two EventLog handles taking turns: append #{turn} by handle {who} did not add exactly its frame"), "partial_frame_appended", replay);
                break;
            }
        }
        res.evaluations += 1;
    }
    {
        let sc = Scratch::new("c02twostores");
        let e1 = Env::open(sc.path());
        let t1 = e1.store.ensure_default().unwrap_or_default();
        let _ = e1.store.append_message(&t1, "user".into(), "harness".into(), "first instance, before the second one exists".into());
        let e2 = Env::open(sc.path()); // second instance on the same data dir; the first stays alive
        let t2 = e2.store.branch(&t1, Some("second".into()), None, None, "user".into(), "harness".into()).map(|r| r.0).unwrap_or_else(|_| t1.clone());
        let mut step = 0u64;
        for who in [2, 2, 1, 2, 1, 1, 2] {
            step += 1;
            let before = e1.log_bytes();
            let r = std::panic::catch_unwind(std::panic::AssertUnwindSafe(|| {
                if who == 1 {
                    e1.store.append_message(&t1, "user".into(), "harness".into(), format!("late message {step} of the first instance"))
                } else {
                    e2.store.append_message(&t2, "user".into(), "harness".into(), format!("message {step} of the second instance, somewhat longer than the others {}", "x".repeat(200)))
                }
            }));
            let after = e1.log_bytes();
            res.oracle_checks += 1;
            res.bump("two_stores_taking_turns_appends");
            let replay = json!({"kind": "two_handles_taking_turns", "level": "ContinuityStore", "history": "instance 1: ensure_default, append_message; instance 2 opened on the same data dir: branch; append_message by instance 2 2 1 2 1 1 2", "step": step, "instance": who});
            if r.is_err() {
                push_violation(res, base_id + 51, format!("two store instances taking turns: step {step} panicked"), "panic", replay);
                break;
            }
            if after.len() < before.len() || after[..before.len()] != before[..] {
                push_violation(res, base_id + 51, format!("two ContinuityStore instances on one data dir: after append_message #{step} of instance {who} the previous content of events.jsonl is no longer a prefix ({} -> {} bytes)", before.len(), after.len()), "log_prefix_changed", replay);
                break;
            } else if parse_log(&after[before.len()..]).is_err() {
                push_violation(res, base_id + 51, format!("two store instances taking turns: step {step} added bytes that are not whole frames"), "partial_frame_appended", replay);
                break;
            }
        }
        res.evaluations += 1;
    }
    // L2: a second O_APPEND handle on the same file (a restarted authority while work of the old one
    // finishes; local CLI next to the daemon) appends small frames while big ones are being appended.
    // write(2) calls on one inode are serialised by the kernel, so this detects - independently of the
    // hook - every append that reaches the file in more than one write(2).  (A free-running READER
    // cannot: on ext4 a concurrent stat/read sees a single 100 kB write(2) partially done.)
    let rounds = if a.thorough() { 4 } else { 1 };
    for round in 0..rounds {
        let sc = Scratch::new("c02race");
        let path = sc.path().join("data").join("events.jsonl");
        let big = std::sync::Arc::new(EventLog::new(&path).expect("event log"));
        let small = EventLog::new(&path).expect("event log");
        let n_big = 96u64;
        let done = std::sync::Arc::new(std::sync::atomic::AtomicBool::new(false));
        let (b2, d2) = (big.clone(), done.clone());
        let th = std::thread::spawn(move || {
            for i in 0..n_big {
                let total = [9000usize, 20_000, 70_000, 250_000][(i % 4) as usize];
                let _ = b2.append(&delta_event("s-big", i, total, i % 2 == 0));
            }
            d2.store(true, std::sync::atomic::Ordering::SeqCst);
        });
        let mut n_small = 0u64;
        while !done.load(std::sync::atomic::Ordering::SeqCst) && n_small < 150_000 {
            let _ = small.append(&delta_event("s-small", n_small, 100, false));
            n_small += 1;
        }
        let _ = th.join();
        let bytes = std::fs::read(&path).unwrap_or_default();
        let mut bad = 0u64;
        let mut first = None;
        let mut lines = 0u64;
        for (i, l) in bytes.split(|b| *b == b'\n').enumerate() {
            if l.is_empty() {
                continue;
            }
            lines += 1;
            if serde_json::from_slice::<rip_kernel::Event>(l).is_err() {
                bad += 1;
                first.get_or_insert((i, l.len()));
            }
        }
        res.evaluations += 1;
        res.oracle_checks += 1;
        res.bump("two_handle_races");
        res.bump_by("two_handle_race_small_frames", n_small);
        if bad > 0 || lines != n_big + n_small || !whole_lines(&bytes) {
            push_violation(
                res,
                base_id + 100 + round,
                format!("two EventLog handles on one file, {n_big} frames of 9 kB..250 kB against {n_small} small ones: {bad} of {lines} lines are not whole JSON frames (first: line {:?}); a frame reached the file in more than one write(2)", first),
                "frames_interleaved_between_two_handles",
                json!({"kind": "two_handle_race", "big_frames": n_big, "sizes": [9000, 20000, 70000, 250000], "round": round}),
            );
        }
    }
}

// =====================================================================================
// router-level cases: the read-only / dry-run / no-op ROUTES of the real axum router, ids
// percent-encoded (`..%2Fevents` arrives as `../events`), on stores prepared through the API
// =====================================================================================
fn pct(s: &str) -> String {
    let mut o = String::new();
    for b in s.bytes() {
        if b.is_ascii_alphanumeric() || b == b'-' || b == b'_' || b == b'.' || b == b'~' {
            o.push(b as char);
        } else {
            o.push_str(&format!("%{b:02X}"));
        }
    }
    o
}

struct Req {
    method: &'static str,
    uri: String,
    body: Option<String>,
    silent: bool, // must add nothing at all (else: prefix + whole frames)
    unknown_id: bool,
}

/// `noop_strides`: strides for which the known thread has nothing to do (judged by the harness's planner on the
/// truth log): compaction-auto / compaction-auto-schedule WITHOUT dry_run must add nothing for them
fn router_requests(known: Option<&String>, full: bool, known_only: bool, noop_strides: &[u64]) -> Vec<Req> {
    let mut v = vec![];
    let get = |uri: String| Req { method: "GET", uri, body: None, silent: true, unknown_id: false };
    let post = |uri: String, body: serde_json::Value, silent: bool| Req { method: "POST", uri, body: Some(body.to_string()), silent, unknown_id: false };
    for u in ["/threads", "/tasks", "/config/doctor", "/openapi.json", "/nope"] {
        v.push(get(u.to_string()));
    }
    let mut ids: Vec<(String, bool)> = vec![];
    if let Some(k) = known {
        ids.push((k.clone(), true));
    }
    for i in 0..UNKNOWN_IDS.len() as u64 {
        let id = unknown_id(i, known);
        if id.len() < 3000 && !known_only {
            ids.push((id, false));
        }
    }
    let who = json!({"actor_id": "user", "origin": "harness"});
    let with = |extra: serde_json::Value| {
        let mut m = who.as_object().unwrap().clone();
        for (k, x) in extra.as_object().unwrap() {
            m.insert(k.clone(), x.clone());
        }
        serde_json::Value::Object(m)
    };
    for (id, is_known) in &ids {
        let first_of_id = v.len();
        // raw `.` / `..` segments are sent as they are (axum does not normalise them), everything else encoded
        let e = if id == "." || id == ".." { id.clone() } else { pct(id) };
        if e.is_empty() {
            continue;
        }
        v.push(get(format!("/threads/{e}")));
        v.push(get(format!("/threads/{e}/events")));
        v.push(get(format!("/sessions/{e}/events")));
        v.push(get(format!("/tasks/{e}")));
        v.push(get(format!("/tasks/{e}/output")));
        v.push(get(format!("/tasks/{e}/events")));
        let strides: Vec<serde_json::Value> = if *is_known && full { vec![json!(null), json!(0), json!(1), json!(2), json!(3), json!(u64::MAX)] } else { vec![json!(null), json!(2), json!(0)] };
        for st in &strides {
            v.push(post(format!("/threads/{e}/compaction-status"), json!({"stride_messages": st}), true));
            for lim in [json!(null), json!(0), json!(1), json!(33)] {
                v.push(post(format!("/threads/{e}/compaction-cut-points"), json!({"stride_messages": st, "limit": lim}), true));
            }
            let maxes: Vec<serde_json::Value> = if *is_known && full { vec![json!(null), json!(0), json!(2), json!(33)] } else { vec![json!(null)] };
            for mx in &maxes {
                v.push(post(format!("/threads/{e}/compaction-auto"), with(json!({"stride_messages": st, "max_new_checkpoints": mx, "dry_run": true})), true));
                let tri: Vec<serde_json::Value> = if *is_known { vec![json!(null), json!(true), json!(false)] } else { vec![json!(null)] };
                for bl in &tri {
                    for ex in &tri {
                        v.push(post(format!("/threads/{e}/compaction-auto-schedule"), with(json!({"stride_messages": st, "max_new_checkpoints": mx, "dry_run": true, "block_on_inflight": bl, "execute": ex})), true));
                    }
                }
            }
        }
        // nothing to do by the truth log: no dry_run, still nothing may be added
        if *is_known {
            for st in noop_strides {
                for mx in [json!(null), json!(33)] {
                    v.push(post(format!("/threads/{e}/compaction-auto"), with(json!({"stride_messages": st, "max_new_checkpoints": mx})), true));
                    v.push(post(format!("/threads/{e}/compaction-auto"), with(json!({"stride_messages": st, "max_new_checkpoints": mx, "dry_run": false})), true));
                    for (bl, ex) in [(json!(null), json!(null)), (json!(false), json!(true)), (json!(true), json!(false)), (json!(false), json!(false))] {
                        v.push(post(format!("/threads/{e}/compaction-auto-schedule"), with(json!({"stride_messages": st, "max_new_checkpoints": mx, "block_on_inflight": bl, "execute": ex})), true));
                    }
                }
            }
        }
        // the no-op: stride 0 without dry_run
        v.push(post(format!("/threads/{e}/compaction-auto"), with(json!({"stride_messages": 0})), true));
        v.push(post(format!("/threads/{e}/compaction-auto-schedule"), with(json!({"stride_messages": 0})), true));
        v.push(post(format!("/threads/{e}/provider-cursor-status"), json!({}), true));
        for lim in [json!(null), json!(0), json!(1), json!(u32::MAX)] {
            v.push(post(format!("/threads/{e}/context-selection-status"), json!({"limit": lim}), true));
        }
        // malformed bodies
        for route in ["compaction-status", "compaction-cut-points", "compaction-auto", "compaction-auto-schedule", "context-selection-status", "provider-cursor-status"] {
            v.push(Req { method: "POST", uri: format!("/threads/{e}/{route}"), body: Some("{not json".into()), silent: true, unknown_id: false });
            v.push(post(format!("/threads/{e}/{route}"), json!({"stride_messages": -1, "limit": "x"}), true));
        }
        if !*is_known {
            // writers aimed at an id that names no thread: must fail without writing
            v.push(post(format!("/threads/{e}/messages"), json!({"content": "hello"}), true));
            v.push(post(format!("/threads/{e}/branch"), json!({"actor_id": "user", "origin": "harness"}), true));
            v.push(post(format!("/threads/{e}/handoff"), json!({"summary_markdown": "# s", "actor_id": "user", "origin": "harness"}), true));
            v.push(post(format!("/threads/{e}/compaction-checkpoint"), json!({"summary_markdown": "# s", "stride_messages": 2, "actor_id": "user", "origin": "harness"}), true));
            v.push(post(format!("/threads/{e}/provider-cursor-rotate"), json!({"actor_id": "user", "origin": "harness"}), true));
            v.push(post(format!("/threads/{e}/compaction-auto"), with(json!({"stride_messages": 2})), true));
            v.push(post(format!("/threads/{e}/compaction-auto-schedule"), with(json!({"stride_messages": 2})), true));
            v.push(post(format!("/sessions/{e}/input"), json!({"input": "x"}), true));
            v.push(post(format!("/sessions/{e}/cancel"), json!({}), true));
            v.push(post(format!("/tasks/{e}/cancel"), json!({}), true));
            for r in &mut v[first_of_id..] {
                r.unknown_id = true;
            }
        }
    }
    v
}

/// states for the router cases only: cursor frames with and without endpoint / model; index.json damaged or behind
/// the log when the authority starts (the last call of the setup decides which workspace the router is built for)
fn router_extra_states() -> Vec<(&'static str, Vec<Call>)> {
    let ensure = || cap(Cp::EnsureDefault, 0, Params::default());
    let cur = |rec: [u8; 3]| cap(Cp::Append(8), 0, Params { rec: Some(rec), ..Default::default() });
    let mut cursors = vec![ensure()];
    cursors.extend(msgs(0, 2));
    cursors.extend([cur([1, 1, 0]), cur([1, 0, 1]), cur([2, 0, 0])]);
    let mut two = vec![ensure()];
    two.extend(msgs(0, 1));
    two.extend([Call::Reopen { ws: 1 }, ensure()]);
    two.extend(msgs(1, 1));
    let with = |b: &Vec<Call>, extra: Vec<Call>| {
        let mut c = b.clone();
        c.extend(extra);
        c
    };
    vec![
        ("cursors_without_endpoint_or_model", cursors.clone()),
        ("index_garbage_at_start", with(&cursors, vec![Call::IndexFault { kind: IKind::Garbage }])),
        ("index_other_version_at_start", with(&cursors, vec![Call::IndexFault { kind: IKind::WrongVersion(0) }])),
        ("index_empty_backup_at_start", with(&cursors, vec![Call::IndexFault { kind: IKind::EmptyValid }])),
        ("index_zero_length_at_start", with(&cursors, vec![Call::IndexFault { kind: IKind::ZeroLength }])),
        ("index_deleted_at_start", with(&cursors, vec![Call::IndexFault { kind: IKind::Deleted }])),
        ("two_workspaces_index_behind_the_log_at_start", with(&two, vec![Call::IndexFault { kind: IKind::Snapshot(1) }])),
        ("two_workspaces_index_behind_with_tmp_at_start", with(&two, vec![Call::IndexFault { kind: IKind::SnapshotWithTmp(1) }])),
    ]
}

/// provider-cursor-rotate with every combination of the optional filters, and /threads/ensure twice: silent exactly
/// when the truth log says so (no recorded cursor passes the filters; the workspace has its thread)
fn router_decision_requests(known: Option<&String>, hs: &[Hdr], ws_key: &str) -> Vec<Req> {
    let mut v = vec![];
    let has_thread = log_has_default_thread(hs, ws_key);
    for _ in 0..2 {
        v.push(Req { method: "POST", uri: "/threads/ensure".into(), body: None, silent: has_thread, unknown_id: false });
    }
    if let Some(id) = known {
        let stream: Vec<&Hdr> = hs.iter().filter(|h| h.kind == rip_kernel::StreamKind::Continuity && &h.sid == id).collect();
        for fp in 0..3u8 {
            for fe in 0..4u8 {
                for fm in 0..4u8 {
                    let mut body = json!({"actor_id": "user", "origin": "harness"});
                    for (k, val) in [("provider", opt_str(fp, &CUR_PROVIDERS)), ("endpoint", opt_str(fe, &CUR_ENDPOINTS)), ("model", opt_str(fm, &CUR_MODELS))] {
                        if let Some(x) = val {
                            body[k] = json!(x);
                        } else if (fp + fe + fm) % 2 == 1 {
                            body[k] = json!(null); // absent and explicit null alike
                        }
                    }
                    v.push(Req { method: "POST", uri: format!("/threads/{}/provider-cursor-rotate", pct(id)), body: Some(body.to_string()), silent: !ref_rotate_has_target(&stream, [fp, fe, fm]), unknown_id: false });
                }
            }
        }
    }
    v.push(Req { method: "POST", uri: "/threads/ensure".into(), body: None, silent: has_thread, unknown_id: false });
    v
}

fn router_cases(a: &Args, res: &mut RunResult, base_id: i64) {
    let mut states = sweep_states();
    states.extend(router_extra_states());
    let pick: &[&str] = if a.thorough() {
        &["empty_store", "base", "inflight_job", "inflight_job_caches_deleted_restart", "backlog_larger_than_max_new", "all_cut_points_checkpointed", "base_torn_sidecar_restart", "children_inflight_on_child", "all_cut_points_checkpointed_comp_sidecar_torn_restart", "inflight_job_aged_1h", "all_cut_points_checkpointed_aged_1h", "base_cursor_and_checkpoint_aged_400d"]
    } else {
        &["base", "inflight_job", "inflight_job_caches_deleted_restart", "all_cut_points_checkpointed_comp_sidecar_torn_restart", "inflight_job_aged_1h"]
    };
    let extra_names: Vec<&str> = router_extra_states().iter().map(|s| s.0).collect();
    let pick: Vec<&str> = pick.iter().copied().chain(extra_names.iter().copied()).collect();
    let rt = tokio::runtime::Builder::new_multi_thread().worker_threads(2).enable_all().build().expect("runtime");
    for (k, name) in pick.iter().enumerate() {
        let setup = &states.iter().find(|s| s.0 == *name).expect("state").1;
        let sc = Scratch::new("c02http");
        let mut env = Env::open(sc.path());
        let mut out = new_outcome();
        mon_set_path(Some(env.log_path()));
        for call in setup {
            apply_call(&mut env, call, &mut out, &mut None);
        }
        let (root, data, ws, log_path) = (env.root.clone(), env.data_dir.clone(), env.ws.clone(), env.log_path());
        let known = created_ids(&parse_log(&env.log_bytes()).unwrap_or_default()).first().cloned();
        drop(env);
        let before_build = std::fs::read(&log_path).unwrap_or_default();
        // strides for which the default thread has nothing to do, by the harness's planner on the truth log
        let hs_now = parse_log(&before_build).unwrap_or_default();
        let noop_strides: Vec<u64> = match &known {
            Some(id) => {
                let stream: Vec<&Hdr> = hs_now.iter().filter(|h| h.kind == rip_kernel::StreamKind::Continuity && &h.sid == id).collect();
                [1u64, 2, 3, 4, 10_000].iter().copied().filter(|st| ref_unplanned(&stream, Some(*st)) == 0).collect()
            }
            None => vec![],
        };
        res.bump_by("router_nothing_to_do_strides", noop_strides.len() as u64);
        let second_round = name.contains("aged") || name.contains("comp_sidecar");
        let third_round = extra_names.contains(name);
        // the decisions first: they must meet the index as the restart found it
        let mut reqs = router_decision_requests(known.as_ref(), &hs_now, &ws.to_string_lossy());
        res.bump_by("router_decision_requests", reqs.len() as u64);
        res.bump_by("router_decision_requests_that_must_add_nothing", reqs.iter().filter(|r| r.silent).count() as u64);
        if !third_round || a.thorough() {
            reqs.extend(router_requests(known.as_ref(), k == 0 || a.thorough() || *name == "inflight_job" || second_round, (second_round || third_round) && !a.thorough(), &noop_strides));
        }
        let case_id = base_id + k as i64;
        let mut viol: Vec<(String, String, serde_json::Value)> = vec![];
        let mut checks = 0u64;
        let mut statuses: std::collections::BTreeMap<u16, u64> = Default::default();
        let r = std::panic::catch_unwind(std::panic::AssertUnwindSafe(|| {
            rt.block_on(async {
                use http_body_util::BodyExt;
                use tower::ServiceExt;
                let app = ripd::verif::build_app(data.clone(), ws.clone(), None);
                let after_build = std::fs::read(&log_path).unwrap_or_default();
                checks += 1;
                if after_build != before_build {
                    viol.push(("building the router (authority start) changed the truth log".into(), "log_changed_by_restart".into(), json!({"kind": "router", "state": name})));
                }
                for rq in &reqs {
                    let before = std::fs::read(&log_path).unwrap_or_default();
                    let tree_before = if rq.unknown_id { tree_snapshot(&root) } else { Default::default() };
                    let b = axum::http::Request::builder().method(rq.method).uri(rq.uri.as_str());
                    let built = match &rq.body {
                        Some(t) => b.header("content-type", "application/json").body(axum::body::Body::from(t.clone())),
                        None => b.body(axum::body::Body::empty()),
                    };
                    let Ok(req) = built else {
                        *statuses.entry(0).or_default() += 1;
                        continue;
                    };
                    let resp = app.clone().oneshot(req).await.expect("infallible");
                    let st = resp.status().as_u16();
                    *statuses.entry(st).or_default() += 1;
                    // read what is there (an SSE body never ends: stop at the first quiet 150 ms)
                    let mut body = resp.into_body();
                    let mut got = 0usize;
                    while let Ok(Some(Ok(fr))) = tokio::time::timeout(std::time::Duration::from_millis(150), body.frame()).await {
                        got += fr.data_ref().map(|d| d.len()).unwrap_or(0);
                        if got > 4_000_000 {
                            break;
                        }
                    }
                    drop(body);
                    let after = std::fs::read(&log_path).unwrap_or_default();
                    checks += 1;
                    let replay = json!({"kind": "router", "state": name, "method": rq.method, "uri": rq.uri.chars().take(300).collect::<String>(), "body": rq.body, "status": st});
                    let label = format!("{} {} -> {st}", rq.method, rq.uri.chars().take(120).collect::<String>());
                    if after.len() < before.len() || after[..before.len()] != before[..] {
                        viol.push((format!("{label}: previous log content is no longer a prefix ({} -> {} bytes)", before.len(), after.len()), "log_prefix_changed".into(), replay));
                    } else if parse_log(&after[before.len()..]).is_err() {
                        viol.push((format!("{label}: appended bytes are not whole frames"), "partial_frame_appended".into(), replay));
                    } else if rq.silent && after.len() != before.len() {
                        let first = parse_log(&after[before.len()..]).ok().and_then(|f| f.first().map(|h| ETYPES[h.code as usize]));
                        viol.push((format!("{label}: a read-only / dry-run / no-op / failing request appended {} bytes (first frame: {first:?})", after.len() - before.len()), "silent_request_appended".into(), replay));
                    } else if rq.unknown_id {
                        if let Some(d) = tree_diff(&tree_before, &tree_snapshot(&root)) {
                            viol.push((format!("{label}: a request aimed at an id that names no thread {d} outside data/continuity_streams/"), "thread_id_escapes_cache_dir".into(), replay));
                        }
                    }
                    if viol.len() >= 5 {
                        break;
                    }
                }
            })
        }));
        mon_set_path(None);
        res.evaluations += 1;
        res.oracle_checks += checks;
        res.bump_by("router_requests", checks.saturating_sub(1));
        for (st, n) in statuses {
            res.bump_by(&format!("router_status={st}"), n);
        }
        if r.is_err() {
            res.impl_panics += 1;
            push_violation(res, case_id, format!("router case {name}: panic"), "panic", json!({"kind": "router", "state": name}));
        }
        for (what, class, replay) in viol {
            push_violation(res, case_id, format!("router/{name}: {what}"), &class, replay);
        }
    }
}

// =====================================================================================
// live cases: the session and task emitters of the real authority (router in-process): runs with
// inputs of 10 B / 9 kB / 100 kB (ack frames larger than the BufWriter), a thread post (message, run
// frames, session frames), a pipes task printing 20 kB; the hook monitor watches every append; after
// all producers have ended: prefix + whole frames, then the read-only routes of sessions / tasks add
// nothing.  No verdict depends on a deadline: a producer that has not ended in time only skips checks.
// =====================================================================================
fn live_cases(_a: &Args, res: &mut RunResult, base_id: i64) {
    let sc = Scratch::new("c02live");
    let data = sc.path().join("data");
    let ws = sc.path().join("ws");
    std::fs::create_dir_all(&data).unwrap();
    std::fs::create_dir_all(&ws).unwrap();
    let log_path = data.join("events.jsonl");
    mon_set_path(Some(log_path.clone()));
    let rt = tokio::runtime::Builder::new_multi_thread().worker_threads(3).enable_all().build().expect("runtime");
    let mut viol: Vec<(String, String, serde_json::Value)> = vec![];
    let mut checks = 0u64;
    let mut notes: Vec<String> = vec![];
    let mut counts: std::collections::BTreeMap<String, u64> = Default::default();
    let r = std::panic::catch_unwind(std::panic::AssertUnwindSafe(|| {
        rt.block_on(async {
            use http_body_util::BodyExt;
            use tower::ServiceExt;
            let app = ripd::verif::build_app(data.clone(), ws.clone(), None);
            let call = |method: &'static str, uri: String, body: Option<serde_json::Value>| {
                let app = app.clone();
                async move {
                    let b = axum::http::Request::builder().method(method).uri(uri.as_str());
                    let req = match body {
                        Some(v) => b.header("content-type", "application/json").body(axum::body::Body::from(v.to_string())).unwrap(),
                        None => b.body(axum::body::Body::empty()).unwrap(),
                    };
                    let resp = app.oneshot(req).await.expect("infallible");
                    let st = resp.status().as_u16();
                    let mut body = resp.into_body();
                    let mut bytes = vec![];
                    while let Ok(Some(Ok(fr))) = tokio::time::timeout(std::time::Duration::from_millis(200), body.frame()).await {
                        if let Some(d) = fr.data_ref() {
                            bytes.extend_from_slice(d);
                        }
                        if bytes.len() > 4_000_000 {
                            break;
                        }
                    }
                    (st, serde_json::from_slice::<serde_json::Value>(&bytes).unwrap_or(serde_json::Value::Null))
                }
            };
            // waits until `done(frames)` holds and the log has been quiet for 500 ms (bounded: 40 s)
            let settle = |done: Box<dyn Fn(&[serde_json::Value]) -> bool + Send>| {
                let log_path = log_path.clone();
                async move {
                    let t0 = std::time::Instant::now();
                    let mut last_len = u64::MAX;
                    let mut quiet_since = std::time::Instant::now();
                    loop {
                        let len = std::fs::metadata(&log_path).map(|m| m.len()).unwrap_or(0);
                        if len != last_len {
                            last_len = len;
                            quiet_since = std::time::Instant::now();
                        }
                        if quiet_since.elapsed() >= std::time::Duration::from_millis(500) {
                            let text = std::fs::read(&log_path).unwrap_or_default();
                            let frames: Vec<serde_json::Value> = text.split(|b| *b == b'\n').filter_map(|l| serde_json::from_slice(l).ok()).collect();
                            if done(&frames) {
                                return true;
                            }
                        }
                        if t0.elapsed() > std::time::Duration::from_secs(40) {
                            return false;
                        }
                        tokio::time::sleep(std::time::Duration::from_millis(25)).await;
                    }
                }
            };
            let has = |frames: &[serde_json::Value], sid: &str, ty: &str| frames.iter().any(|f| f.get("session_id").and_then(|x| x.as_str()) == Some(sid) && f.get("type").and_then(|x| x.as_str()) == Some(ty));
            let mut all_ended = true;
            let mut session_ids: Vec<String> = vec![];
            let mut task_ids: Vec<String> = vec![];
            // every step: (label, request(s)) then settle, then prefix / whole frames against the snapshot before
            let mut snapshot = std::fs::read(&log_path).unwrap_or_default();
            let check_step = |label: &str, viol: &mut Vec<(String, String, serde_json::Value)>, checks: &mut u64, snapshot: &mut Vec<u8>| {
                let after = std::fs::read(&log_path).unwrap_or_default();
                *checks += 1;
                let replay = json!({"kind": "live", "step": label});
                if after.len() < snapshot.len() || after[..snapshot.len()] != snapshot[..] {
                    viol.push((format!("live/{label}: previous log content is no longer a prefix ({} -> {} bytes)", snapshot.len(), after.len()), "log_prefix_changed".into(), replay));
                } else if let Err(e) = parse_log(&after[snapshot.len()..]) {
                    viol.push((format!("live/{label}: appended bytes are not whole frames: {e}"), "partial_frame_appended".into(), replay));
                }
                *snapshot = after;
            };
            for n in [10usize, 9000, 100_000] {
                let (st, v) = call("POST", "/sessions".into(), None).await;
                let Some(sid) = v.get("session_id").and_then(|x| x.as_str()).map(|x| x.to_string()) else {
                    notes.push(format!("POST /sessions -> {st}: no session id"));
                    continue;
                };
                let input = "a\n\"".repeat(n / 3 + 1);
                let (st2, _) = call("POST", format!("/sessions/{sid}/input"), Some(json!({"input": input}))).await;
                let sid2 = sid.clone();
                let ended = settle(Box::new(move |fr| has(fr, &sid2, "session_ended"))).await;
                *counts.entry(format!("live_session_input_{n}_status_{st2}_ended_{ended}")).or_default() += 1;
                all_ended &= ended;
                session_ids.push(sid);
                check_step(&format!("session run, input of {n} bytes"), &mut viol, &mut checks, &mut snapshot);
            }
            let (_, v) = call("POST", "/threads/ensure".into(), None).await;
            if let Some(tid) = v.get("thread_id").and_then(|x| x.as_str()).map(|x| x.to_string()) {
                check_step("threads/ensure", &mut viol, &mut checks, &mut snapshot);
                for n in [20usize, 30_000] {
                    let (st, v) = call("POST", format!("/threads/{tid}/messages"), Some(json!({"content": "m\t\"".repeat(n / 3 + 1), "actor_id": "user", "origin": "harness"}))).await;
                    let run = v.get("session_id").and_then(|x| x.as_str()).map(|x| x.to_string());
                    let tid2 = tid.clone();
                    let ended = match run.clone() {
                        Some(rid) => settle(Box::new(move |fr| has(fr, &rid, "session_ended") && fr.iter().any(|f| f.get("session_id").and_then(|x| x.as_str()) == Some(tid2.as_str()) && f.get("type").and_then(|x| x.as_str()) == Some("continuity_run_ended") && f.get("run_session_id").and_then(|x| x.as_str()) == Some(rid.as_str())))).await,
                        None => false,
                    };
                    *counts.entry(format!("live_thread_post_{n}_status_{st}_ended_{ended}")).or_default() += 1;
                    all_ended &= ended;
                    if let Some(r) = run {
                        session_ids.push(r);
                    }
                    check_step(&format!("thread post, content of {n} bytes"), &mut viol, &mut checks, &mut snapshot);
                }
            } else {
                notes.push("POST /threads/ensure: no thread id".into());
            }
            let (st, v) = call("POST", "/tasks".into(), Some(json!({"tool": "bash", "args": {"command": "i=0; while [ $i -lt 400 ]; do echo 0123456789012345678901234567890123456789012345678; i=$((i+1)); done; echo err 1>&2"}}))).await;
            if let Some(task) = v.get("task_id").and_then(|x| x.as_str()).map(|x| x.to_string()) {
                let t2 = task.clone();
                let ended = settle(Box::new(move |fr| fr.iter().any(|f| f.get("session_id").and_then(|x| x.as_str()) == Some(t2.as_str()) && f.get("type").and_then(|x| x.as_str()) == Some("tool_task_status") && matches!(f.get("status").and_then(|x| x.as_str()), Some("exited") | Some("failed") | Some("cancelled"))))).await;
                *counts.entry(format!("live_task_status_{st}_ended_{ended}")).or_default() += 1;
                all_ended &= ended;
                task_ids.push(task);
                check_step("pipes task printing 20 kB", &mut viol, &mut checks, &mut snapshot);
            } else {
                notes.push(format!("POST /tasks -> {st}: no task id"));
            }
            if !all_ended {
                notes.push("live case: a producer had not ended after 40 s; the read-only phase was skipped".into());
                return;
            }
            // every producer has written its last frame: read-only routes add nothing
            let mut uris = vec!["/tasks".to_string(), "/threads".to_string()];
            for s in &session_ids {
                uris.push(format!("/sessions/{s}/events"));
            }
            for t in &task_ids {
                uris.push(format!("/tasks/{t}"));
                uris.push(format!("/tasks/{t}/output"));
                uris.push(format!("/tasks/{t}/output?stream=stderr"));
                uris.push(format!("/tasks/{t}/events"));
                // every combination of the optional query parameters of the range reader (absent, valid, out of range, malformed)
                for stream in ["", "stream=stdout", "stream=stderr", "stream=bogus"] {
                    for off in ["", "offset_bytes=0", "offset_bytes=5", "offset_bytes=1000000000", "offset_bytes=18446744073709551615", "offset_bytes=-1"] {
                        for mx in ["", "max_bytes=0", "max_bytes=1", "max_bytes=1000000000"] {
                            let q: Vec<&str> = [stream, off, mx].into_iter().filter(|x| !x.is_empty()).collect();
                            uris.push(format!("/tasks/{t}/output?{}", q.join("&")));
                        }
                    }
                }
            }
            for u in uris {
                let before = std::fs::read(&log_path).unwrap_or_default();
                let (st, _) = call("GET", u.clone(), None).await;
                let after = std::fs::read(&log_path).unwrap_or_default();
                checks += 1;
                *counts.entry("live_read_only_requests".into()).or_default() += 1;
                if after != before {
                    viol.push((format!("live: GET {u} -> {st}: a read-only request changed the truth log ({} -> {} bytes)", before.len(), after.len()), "silent_request_appended".into(), json!({"kind": "live", "method": "GET", "uri": u})));
                }
            }
        })
    }));
    let (hv, hp) = mon_drain();
    mon_set_path(None);
    res.evaluations += 1;
    res.oracle_checks += checks + hp;
    res.bump_by("hook_points_checked_inside_append", hp);
    res.bump_by("live_hook_points", hp);
    for (k, n) in counts {
        res.bump_by(&k, n);
    }
    res.notes.extend(notes);
    if r.is_err() {
        res.impl_panics += 1;
        push_violation(res, base_id, "live case: panic".into(), "panic", json!({"kind": "live"}));
    }
    for (what, class) in hv {
        push_violation(res, base_id, format!("live (session / task emitters): {what}"), &class, json!({"kind": "live"}));
    }
    for (what, class, replay) in viol {
        push_violation(res, base_id, what, &class, replay);
    }
}

fn main() {
    let a = parse_args();
    let mut res = RunResult::new("C02", &a);
    let t_start = std::time::Instant::now();
    res.rule = "case = history of ContinuityStore capability calls (17 capabilities, 7 append kinds, every selector / summary / stride / limit / dry_run / execute / block_on_inflight combination, 40 unknown / malformed / path-shaped thread ids, frames of 8190..100000 bytes), sidecar faults (delete all caches, torn tail, empty, stale prefix) and restarts; 16 named store states (in-flight job, backlog > max_new, all checkpointed, caches deleted / corrupt, restart, children, > 256 KiB thread) x every parameter combination of the read-only / dry-run / no-op invocations on a known id (a fault state is re-created before every call) and on `../events`; 5 thread contents x 9 (fault, restart) combinations x 42 core invocations; events.jsonl is read before and after EVERY call and at every log.* hook point inside EventLog::append; non-trivial = at least one appending call, one silent call and one fault or restart; distinct by hash of the call list; plus byte-level cases (EventLog::append alone, lines of 200..250000 bytes, file growth at the hook points compared with the BufWriter model), a second O_APPEND handle race, router-level cases (percent-encoded ids through the real axum router) and a live case (session runs, thread posts, a pipes task through the router), oracle only".into();
    let n = if a.thorough() { 1500 } else { 110 };
    let mut r = Rng::new(a.seed);
    let mut w = CaseWriter::new(&a.out, "Model.Frames Model.Log Model.ContStore Model.LogBytes Model.NoopPlan Model.C02Decide Model.LogFile Model.C02Cases Gen.Effects", "check_case_c02g", "model_obs_c02g", 8);
    let mut distinct = Distinct::default();
    install_hook();
    let mut plan_seen: std::collections::HashSet<String> = Default::default();
    let mut plan_terms: Vec<(String, String)> = vec![];
    let mut all: Vec<(String, Vec<Call>)> = sweep_cases(a.thorough());
    all.extend(torn_history_cases(a.thorough()));
    for i in 0..n {
        let mut c = gen_case(&mut r, i % 8 == 7);
        // one random history in ten goes on over a torn log: a tail of a random size and kind + a restart somewhere in it
        if i % 10 == 9 {
            let at = 1 + r.below(c.len() as u64) as usize;
            let n = *r.pick(&[1usize, 2, 39, 64, 1023, 5000, 8191, 8192, 8193, 65_535, 65_536, 65_537, 70_001, 100_000, 262_145]);
            c.insert(at.min(c.len()), Call::TornTail { n, kind: *r.pick(&torn::TAILKINDS) });
            c.insert((at + 1).min(c.len()), Call::Restart);
        }
        all.push((format!("random/{i}"), c));
    }
    for (i, (label, calls)) in all.iter().enumerate() {
        let got = std::panic::catch_unwind(std::panic::AssertUnwindSafe(|| run_case(calls, Some(&mut res))));
        res.evaluations += 1;
        match got {
            Err(_) => {
                res.impl_panics += 1;
                res.oracle_violations.push(OracleViolation { case_id: i as i64, what: format!("{label}: a capability panicked"), class: "panic".into(), replay: json!(calls.iter().map(call_json).collect::<Vec<_>>()) });
            }
            Ok(o) => {
                res.oracle_checks += o.oracle_checks + o.hook_points;
                res.bump_by("hook_points_checked_inside_append", o.hook_points);
                res.bump_by("frames_in_final_logs", o.final_frames as u64);
                for l in &o.big_lines {
                    res.bump(&format!("frame_line_bytes={}", if *l > 50_000 { "100000".to_string() } else { l.to_string() }));
                }
                // the first violation of every class the case shows (a known class must not hide another one)
                let mut seen_classes: Vec<String> = vec![];
                for (what, class) in &o.violations {
                    let cls = class.clone();
                    if seen_classes.contains(&cls) {
                        continue;
                    }
                    seen_classes.push(cls.clone());
                    if res.oracle_violations.iter().filter(|v| v.class == cls).count() >= 4 {
                        res.bump(&format!("violations_of_class={cls}"));
                        continue;
                    }
                    // shrinking re-runs the history: skip it for the long sweeps once a few are reported
                    let shrunk = if res.oracle_violations.len() < 6 {
                        shrink_vec(calls.clone(), |cs| {
                            std::panic::catch_unwind(std::panic::AssertUnwindSafe(|| run_case(cs, None))).map(|o| o.violations.iter().any(|v| v.1 == cls)).unwrap_or(false)
                        })
                    } else {
                        calls.clone()
                    };
                    push_violation(&mut res, i as i64, format!("{label}: {what}"), class, json!(shrunk.iter().map(call_json).collect::<Vec<_>>()));
                }
                for t in &o.plan_cases {
                    if plan_seen.insert(t.clone()) && plan_terms.len() < 1500 {
                        plan_terms.push((t.clone(), label.clone()));
                    }
                }
                res.bump_by("planner_calls_compared_with_model_before_dedup", o.plan_cases.len() as u64);
                if o.unmodelled {
                    res.bump("cases_with_failed_job_not_compared");
                } else if o.torn {
                    res.bump("store_histories_with_a_torn_tail_oracle_only");
                } else if !a.oracle_only() {
                    let term = format!("CDecide {{| c3_calls := [{}]; c3_expect := {} |}}", o.coq_calls.join("; "), coq_list_n(&o.obs));
                    let id = w.push(term);
                    if res.case_index.len() < 3000 {
                        let shown: Vec<_> = if calls.len() > 60 { vec![json!(format!("{label} ({} calls; see sweep_cases in harness/src/bin/c02.rs)", calls.len()))] } else { calls.iter().map(call_json).collect() };
                        res.case_index.insert(id.to_string(), json!(shown));
                    }
                }
                let has_fault = calls.iter().any(|c| !matches!(c, Call::Cap { .. }));
                if has_fault && o.final_frames > 1 {
                    distinct.add(&format!("{calls:?}"));
                }
                if res.samples.len() < 2 && label.starts_with("random/") {
                    res.samples.push(json!(calls.iter().take(8).map(call_json).collect::<Vec<_>>()));
                }
            }
        }
        if res.distribution.iter().filter(|(k, _)| k.starts_with("violations_of_class=")).map(|(_, n)| *n).sum::<u64>() >= 60 {
            res.notes.push("history loop stopped after 60 oracle violations".into());
            break;
        }
    }
    // planner cases (Model/NoopPlan.v): distinct (thread shape, checkpoint cache state, stride, max_new, answer)
    if !a.oracle_only() {
        w.flush();
        w.per_file = 150;
        for (t, label) in &plan_terms {
            let id = w.push(t.clone());
            if res.case_index.len() < 4000 {
                res.case_index.insert(id.to_string(), json!({"kind": "planner", "from_history": label, "case": t.chars().take(600).collect::<String>()}));
            }
        }
        w.flush();
        w.per_file = 8;
    }
    res.bump_by("planner_cases_distinct", plan_terms.len() as u64);
    let base = res.evaluations as i64;
    let t_hist = std::time::Instant::now();
    log_level_cases(&a, &mut res, base, &mut w);
    w.flush();
    let t_log = t_hist.elapsed().as_millis() as u64;
    let t_torn0 = std::time::Instant::now();
    torn::torn_cases(&a, &mut res, base + 3000, &mut w);
    w.flush();
    let t_torn = t_torn0.elapsed().as_millis() as u64;
    let t_hist = t_hist + t_torn0.elapsed();
    router_cases(&a, &mut res, base + 1000);
    let t_router = t_hist.elapsed().as_millis() as u64 - t_log;
    live_cases(&a, &mut res, base + 2000);
    let t_live = t_hist.elapsed().as_millis() as u64 - t_log - t_router;
    res.notes.push(format!("wall ms: histories {}, log-level {t_log}, torn-tail restarts {t_torn}, router {t_router}, live {t_live}", t_start.elapsed().as_millis() as u64 - t_log - t_router - t_live - t_torn));
    rip_kernel::verif::set_hook(None);
    res.distinct_nontrivial = distinct.count();
    res.case_files = w.files.iter().map(|p| p.display().to_string()).collect();
    res.write(&a.out);
    println!("c02: {} cases, {} oracle checks, {} oracle violations, {} panics", res.evaluations, res.oracle_checks, res.oracle_violations.len(), res.impl_panics);
}
