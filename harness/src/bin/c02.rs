//! C02 — the truth log is append-only; read-only / dry-run / no-op capabilities never write.
//! Runs random histories of the public ContinuityStore capabilities (every request-parameter
//! combination of the read-only ones, unknown / malformed thread ids, cache faults, restarts) on the
//! real crates.  Independent oracle: bytes of events.jsonl before each call are an exact prefix of the
//! bytes after it, the suffix is whole newline-terminated frames, silent invocations add nothing.
//! Correspondence: frames in the log after every call + the final log (canonical) vs
//! coq/Model/ContStore.v (`check_case_c02`).
#[path = "../contlib/mod.rs"]
mod contlib;
use contlib::*;
use ripd::*;
use rv::*;
use serde_json::json;

#[derive(Clone, Copy, Debug, PartialEq, Eq)]
enum Cp {
    List,
    Get,
    Subscribe,
    Replay,
    CutPoints,
    CompactionStatus,
    CursorStatus,
    SelectionStatus,
    EnsureDefault,
    Append(u64),
    Branch,
    Handoff,
    Checkpoint,
    CursorRotate,
    Auto,
    AutoSchedule,
}
impl Cp {
    fn coq(&self) -> String {
        match self {
            Cp::Append(t) => format!("(CapAppend {})", coq_etype(*t)),
            other => format!("Cap{other:?}"),
        }
    }
    fn read_only(&self) -> bool {
        matches!(self, Cp::List | Cp::Get | Cp::Subscribe | Cp::Replay | Cp::CutPoints | Cp::CompactionStatus | Cp::CursorStatus | Cp::SelectionStatus)
    }
}

#[derive(Clone, Debug, Default)]
struct Params {
    stride: Option<u64>,
    limit: Option<u32>,
    max_new: Option<u32>,
    dry_run: Option<bool>,
    execute: Option<bool>,
    block: Option<bool>,
    sel: u8,     // 0 none, 1 from_seq in range, 2 from_seq out of range, 3 message id known, 4 unknown id, 5 id of a non-message frame, 6 both
    summary: u8, // 0 markdown, 1 artifact id, 2 both, 3 neither
    pick: u64,
}

#[derive(Clone, Debug)]
enum Call {
    Cap { cp: Cp, th: usize, p: Params },
    Fault { x: Fault, th: usize },
    Restart,
}

#[derive(Clone, Debug, Default)]
struct Facts {
    ok: bool,
    stride0: bool,
    dry: bool,
    planned: u64,
    inflight: bool,
    execute: bool,
    created: u64,
    ended: bool,
    unmodelled: bool,
    resp_silent: bool,
}
impl Facts {
    fn coq(&self) -> String {
        format!(
            "{{| cf_ok := {}; cf_stride0 := {}; cf_dry := {}; cf_planned := {}; cf_inflight := {}; cf_execute := {}; cf_created := {}; cf_ended := {} |}}",
            coq_bool(self.ok), coq_bool(self.stride0), coq_bool(self.dry), coq_nat(self.planned), coq_bool(self.inflight),
            coq_bool(self.execute), coq_nat(self.created), coq_bool(self.ended)
        )
    }
}

const UNKNOWN_IDS: [&str; 4] = ["00000000-0000-4000-8000-00000000dead", "not a uuid", "", "%2e%2e%2fx"];

fn thread_id(hs: &[Hdr], th: usize, pick: u64) -> String {
    let ids = created_ids(hs);
    ids.get(th).cloned().unwrap_or_else(|| UNKNOWN_IDS[(pick % 4) as usize].to_string())
}

fn do_cap(env: &Env, hs: &[Hdr], cp: Cp, th: usize, p: &Params) -> Facts {
    let id = thread_id(hs, th, p.pick);
    let st = &env.store;
    let mut f = Facts::default();
    let stream: Vec<&Hdr> = hs.iter().filter(|h| h.kind == rip_kernel::StreamKind::Continuity && h.sid == id).collect();
    let msgs: Vec<&&Hdr> = stream.iter().filter(|h| h.code == 4).collect();
    let (a, o) = ("user".to_string(), "harness".to_string());
    match cp {
        Cp::List => {
            let _ = st.list();
        }
        Cp::Get => {
            let _ = st.get(&id);
        }
        Cp::Subscribe => {
            let _ = st.subscribe();
        }
        Cp::Replay => {
            let _ = st.replay_events(&id);
        }
        Cp::CutPoints => {
            let _ = st.compaction_cut_points_v1(&id, CompactionCutPointsV1Request { stride_messages: p.stride, limit: p.limit });
        }
        Cp::CompactionStatus => {
            let _ = st.compaction_status_v1(&id, CompactionStatusV1Request { stride_messages: p.stride });
        }
        Cp::CursorStatus => {
            let _ = st.provider_cursor_status_v1(&id, ProviderCursorStatusV1Request {});
        }
        Cp::SelectionStatus => {
            let _ = st.context_selection_status_v1(&id, ContextSelectionStatusV1Request { limit: p.limit });
        }
        Cp::EnsureDefault => {
            if let Ok(got) = st.ensure_default() {
                f.ok = !created_ids(hs).contains(&got);
            }
        }
        Cp::Append(t) => {
            let mid = msgs.last().map(|h| h.id.clone()).unwrap_or_else(|| "m0".into());
            let r = match t {
                4 => st.append_message(&id, a, o, format!("msg {}", p.pick)),
                5 => st.append_run_spawned(&id, &mid, "run-1", a, o),
                13 => st.append_run_ended(&id, &mid, "run-1", "completed".into(), a, o),
                14 => st.append_tool_side_effects(
                    &ContinuityRunLink { continuity_id: id.clone(), message_id: mid, actor_id: a, origin: o },
                    "run-1",
                    ToolSideEffects { tool_id: "t1".into(), tool_name: "write".into(), affected_paths: Some(vec!["a.txt".into()]), checkpoint_id: None },
                ),
                6 => ripd::verif::append_context_selection_decided(st, &id, "run-1".into(), mid, "recent_messages_v1".into(), vec![], a, o),
                7 => ripd::verif::append_context_compiled(st, &id, "run-1".into(), "art".into(), "recent_messages_v1".into(), 0, None, a, o),
                _ => ripd::verif::append_provider_cursor_updated(st, &id, "openresponses".into(), Some("http://e".into()), Some(format!("m{}", p.pick % 2)), Some(json!({"previous_response_id": "r"})), "set".into(), Some("run-1".into()), a, o),
            };
            f.ok = r.is_ok();
        }
        Cp::Branch | Cp::Handoff => {
            let head = stream.last().map(|h| h.seq).unwrap_or(0);
            let known = msgs.get((p.pick as usize) % msgs.len().max(1)).map(|h| h.id.clone());
            let nonmsg = stream.iter().find(|h| h.code != 4).map(|h| h.id.clone());
            let (from_mid, from_seq) = match p.sel {
                0 => (None, None),
                1 => (None, Some(p.pick % (head + 1))),
                2 => (None, Some(head + 1 + p.pick % 3)),
                3 => (known, None),
                4 => (Some("no-such-message".to_string()), None),
                5 => (nonmsg, None),
                _ => (Some("x".to_string()), Some(0)),
            };
            let r = if cp == Cp::Branch {
                st.branch(&id, Some("t".into()), from_mid, from_seq, a, o)
            } else {
                let summary = match p.summary {
                    0 => (Some("# summary".to_string()), None),
                    1 => (None, Some("artifact-x".to_string())),
                    2 => (Some("# s".to_string()), Some("artifact-y".to_string())),
                    _ => (None, None),
                };
                st.handoff(&id, None, summary, from_mid, from_seq, (a, o))
            };
            f.ok = r.is_ok();
        }
        Cp::Checkpoint => {
            let (to_mid, to_seq, stride) = match p.sel {
                0 => (None, None, p.stride),
                1 => (None, msgs.last().map(|h| h.seq), None),
                2 => (None, Some(stream.last().map(|h| h.seq).unwrap_or(0) + 5), None),
                3 => (msgs.first().map(|h| h.id.clone()), None, None),
                4 => (Some("no-such".to_string()), None, None),
                5 => (None, stream.iter().find(|h| h.code != 4).map(|h| h.seq), None),
                _ => (Some("x".to_string()), Some(1), None),
            };
            let r = st.compaction_checkpoint_cumulative_v1(
                &id,
                CompactionCheckpointCumulativeV1Request {
                    summary_markdown: if p.summary == 3 { None } else { Some("# cp".into()) },
                    summary_artifact_id: if p.summary == 1 { Some("nope".into()) } else { None },
                    to_message_id: to_mid,
                    to_seq,
                    stride_messages: stride,
                    actor_id: a,
                    origin: o,
                },
            );
            f.ok = r.is_ok();
        }
        Cp::CursorRotate => {
            let r = st.provider_cursor_rotate_v1(
                &id,
                ProviderCursorRotateV1Request { provider: if p.pick % 3 == 0 { Some("other".into()) } else { None }, endpoint: None, model: if p.pick % 5 == 0 { Some("m0".into()) } else { None }, reason: None, actor_id: a, origin: o },
            );
            f.ok = matches!(&r, Ok(x) if x.rotated);
            f.resp_silent = matches!(&r, Ok(x) if !x.rotated);
        }
        Cp::Auto => {
            f.stride0 = p.stride == Some(0);
            f.dry = p.dry_run == Some(true);
            match st.compaction_auto_v1(&id, CompactionAutoV1Request { stride_messages: p.stride, max_new_checkpoints: p.max_new, dry_run: p.dry_run, actor_id: a, origin: o }) {
                Err(_) => f.planned = 0,
                Ok(r) => {
                    f.planned = r.planned.len() as u64;
                    f.created = r.result.len() as u64;
                    f.ended = r.status == "completed";
                    f.resp_silent = r.status == "noop";
                    f.unmodelled = r.status == "failed";
                }
            }
        }
        Cp::AutoSchedule => {
            f.stride0 = p.stride == Some(0);
            f.dry = p.dry_run == Some(true);
            match st.compaction_auto_schedule_v1(
                &id,
                CompactionAutoScheduleV1Request { stride_messages: p.stride, max_new_checkpoints: p.max_new, block_on_inflight: p.block, execute: p.execute, dry_run: p.dry_run, actor_id: a, origin: o },
            ) {
                Err(_) => f.planned = 0,
                Ok(r) => {
                    f.planned = r.planned.len() as u64;
                    f.created = r.result.len() as u64;
                    f.execute = r.execute;
                    f.inflight = r.decision == "skipped_inflight";
                    f.ended = r.decision == "completed";
                    f.resp_silent = r.decision == "noop" || r.decision == "dry_run";
                    if r.decision == "noop" {
                        f.planned = 0;
                    }
                    f.unmodelled = r.decision == "failed";
                }
            }
        }
    }
    f
}

struct Outcome {
    obs: Vec<u64>,
    coq_calls: Vec<String>,
    violations: Vec<(String, String)>, // (what, class)
    unmodelled: bool,
    appended_by_silent: u64,
    oracle_checks: u64,
    final_frames: usize,
}

fn run_case(calls: &[Call], dist: Option<&mut RunResult>) -> Outcome {
    let scratch = Scratch::new("c02");
    let mut env = Env::open(scratch.path());
    let mut out = Outcome { obs: vec![], coq_calls: vec![], violations: vec![], unmodelled: false, appended_by_silent: 0, oracle_checks: 0, final_frames: 0 };
    let mut dist = dist;
    for call in calls {
        let before = env.log_bytes();
        let hs = parse_log(&before).unwrap_or_default();
        let mut silent_req = false;
        let mut name = String::new();
        match call {
            Call::Cap { cp, th, p } => {
                let f = do_cap(&env, &hs, *cp, *th, p);
                out.unmodelled |= f.unmodelled;
                silent_req = cp.read_only() || (matches!(cp, Cp::Auto | Cp::AutoSchedule) && (f.dry || f.stride0)) || f.resp_silent;
                name = format!("{cp:?}").split('(').next().unwrap().to_string();
                out.coq_calls.push(format!("KCap {} {} {}", cp.coq(), coq_nat((*th).min(99) as u64), f.coq()));
                if let Some(d) = dist.as_deref_mut() {
                    d.bump(&format!("cap={name}"));
                    if silent_req {
                        d.bump("silent_invocations");
                    }
                    if *th >= created_ids(&hs).len() {
                        d.bump("unknown_thread_id");
                    }
                }
            }
            Call::Fault { x, th } => {
                let ids = created_ids(&hs);
                if let Some(id) = ids.get(*th) {
                    apply_fault(&env, id, *x);
                }
                let xs = match x {
                    Fault::Delete => "XDelete",
                    Fault::CutLine => "XCutLine",
                    Fault::TearTail => "XTearTail",
                    _ => "XEmpty",
                };
                out.coq_calls.push(format!("KFault {xs} {}", coq_nat((*th).min(99) as u64)));
                if let Some(d) = dist.as_deref_mut() {
                    d.bump(&format!("fault={}", x.name()));
                }
            }
            Call::Restart => {
                env.restart();
                out.coq_calls.push("KRestart".into());
                if let Some(d) = dist.as_deref_mut() {
                    d.bump("restart");
                }
            }
        }
        // ---- independent oracle
        let after = env.log_bytes();
        out.oracle_checks += 1;
        if after.len() < before.len() || after[..before.len()] != before[..] {
            out.violations.push((format!("{name}: previous log content is no longer a prefix ({} -> {} bytes)", before.len(), after.len()), "log_prefix_changed".into()));
            out.obs.push(0);
            continue;
        }
        let suffix = &after[before.len()..];
        match parse_log(suffix) {
            Err(e) => out.violations.push((format!("{name}: appended bytes are not whole frames: {e}"), "partial_frame_appended".into())),
            Ok(fs) => {
                if silent_req && !fs.is_empty() {
                    out.appended_by_silent += 1;
                    out.violations.push((format!("{name}: a read-only / dry-run / no-op invocation appended {} frame(s) (first: {})", fs.len(), ETYPES[fs[0].code as usize]), format!("silent_invocation_appended_{name}")));
                }
            }
        }
        out.obs.push(parse_log(&after).map(|h| h.len() as u64).unwrap_or(0));
    }
    let fin = parse_log(&env.log_bytes()).unwrap_or_default();
    out.final_frames = fin.len();
    out.obs.extend(canon_log(&fin));
    out
}

fn gen_params(r: &mut Rng) -> Params {
    Params {
        stride: *r.pick(&[None, Some(0), Some(1), Some(2), Some(3), Some(u64::MAX), Some(1), Some(2)]),
        limit: *r.pick(&[None, Some(0), Some(1), Some(32), Some(33), Some(u32::MAX)]),
        max_new: *r.pick(&[None, Some(0), Some(1), Some(2), Some(33)]),
        dry_run: *r.pick(&[None, Some(true), Some(false), Some(false)]),
        execute: *r.pick(&[None, Some(true), Some(false)]),
        block: *r.pick(&[None, Some(true), Some(false)]),
        sel: r.below(7) as u8,
        summary: *r.pick(&[0u8, 0, 0, 1, 2, 3]),
        pick: r.below(1000),
    }
}

fn gen_case(r: &mut Rng, long: bool) -> Vec<Call> {
    let n = if long { r.range(18, 30) } else { r.range(4, 14) };
    let mut calls = vec![Call::Cap { cp: Cp::EnsureDefault, th: 0, p: Params::default() }];
    let mut threads = 1usize;
    for _ in 0..n {
        let th = if r.chance(1, 8) { 99 } else { r.below(threads as u64) as usize };
        let p = gen_params(r);
        let c = match r.below(40) {
            0..=8 => Call::Cap { cp: Cp::Append(4), th, p },
            9 => Call::Cap { cp: Cp::Append(5), th, p },
            10 => Call::Cap { cp: Cp::Append(13), th, p },
            11 => Call::Cap { cp: Cp::Append(14), th, p },
            12 => Call::Cap { cp: Cp::Append(6), th, p },
            13 => Call::Cap { cp: Cp::Append(7), th, p },
            14 | 15 => Call::Cap { cp: Cp::Append(8), th, p },
            16 => {
                threads += 1;
                Call::Cap { cp: Cp::Branch, th, p }
            }
            17 => {
                threads += 1;
                Call::Cap { cp: Cp::Handoff, th, p }
            }
            18 | 19 => Call::Cap { cp: Cp::Checkpoint, th, p },
            20 => Call::Cap { cp: Cp::CursorRotate, th, p },
            21..=23 => Call::Cap { cp: Cp::Auto, th, p },
            24..=26 => Call::Cap { cp: Cp::AutoSchedule, th, p },
            27 => Call::Cap { cp: Cp::CutPoints, th, p },
            28 => Call::Cap { cp: Cp::CompactionStatus, th, p },
            29 => Call::Cap { cp: Cp::CursorStatus, th, p },
            30 => Call::Cap { cp: Cp::SelectionStatus, th, p },
            31 => Call::Cap { cp: Cp::Replay, th, p },
            32 => Call::Cap { cp: *r.pick(&[Cp::List, Cp::Get, Cp::Subscribe]), th, p },
            33 => Call::Cap { cp: Cp::EnsureDefault, th: 0, p },
            34 | 35 => Call::Restart,
            _ => Call::Fault { x: *r.pick(&[Fault::Delete, Fault::TearTail, Fault::Empty, Fault::Delete]), th },
        };
        calls.push(c);
    }
    calls
}

/// every request-parameter combination of the read-only capabilities on one fixed history
fn sweep_cases() -> Vec<Vec<Call>> {
    let mut base = vec![Call::Cap { cp: Cp::EnsureDefault, th: 0, p: Params::default() }];
    for i in 0..5 {
        base.push(Call::Cap { cp: Cp::Append(4), th: 0, p: Params { pick: i, ..Default::default() } });
    }
    base.push(Call::Cap { cp: Cp::Append(8), th: 0, p: Params::default() });
    base.push(Call::Cap { cp: Cp::Checkpoint, th: 0, p: Params { stride: Some(2), ..Default::default() } });
    let mut out = vec![];
    for fault in [None, Some(Fault::Delete), Some(Fault::TearTail), Some(Fault::Empty)] {
        for th in [0usize, 99] {
            let mut c = base.clone();
            if let Some(x) = fault {
                c.push(Call::Fault { x, th: 0 });
                c.push(Call::Restart);
            }
            for stride in [None, Some(0), Some(1), Some(2), Some(3), Some(u64::MAX)] {
                for limit in [None, Some(0), Some(1), Some(32), Some(33), Some(u32::MAX)] {
                    let p = Params { stride, limit, ..Default::default() };
                    c.push(Call::Cap { cp: Cp::CutPoints, th, p: p.clone() });
                    if limit.is_none() {
                        c.push(Call::Cap { cp: Cp::CompactionStatus, th, p: p.clone() });
                        for dry in [Some(true)] {
                            for mx in [None, Some(0), Some(2), Some(33)] {
                                let q = Params { stride, dry_run: dry, max_new: mx, ..Default::default() };
                                c.push(Call::Cap { cp: Cp::Auto, th, p: q.clone() });
                                c.push(Call::Cap { cp: Cp::AutoSchedule, th, p: q });
                            }
                        }
                    }
                    if stride.is_none() {
                        c.push(Call::Cap { cp: Cp::SelectionStatus, th, p: p.clone() });
                        c.push(Call::Cap { cp: Cp::CursorStatus, th, p: p.clone() });
                        c.push(Call::Cap { cp: Cp::Replay, th, p });
                    }
                }
            }
            out.push(c);
        }
    }
    out
}

fn call_json(c: &Call) -> serde_json::Value {
    json!(format!("{c:?}"))
}

fn main() {
    let a = parse_args();
    let mut res = RunResult::new("C02", &a);
    res.rule = "case = history of ContinuityStore capability calls (17 capabilities, 7 append kinds, every selector / summary / stride / limit / dry_run / execute combination, unknown + malformed thread ids), sidecar faults (delete all caches, torn tail, empty) and restarts; events.jsonl is read before and after EVERY call; non-trivial = at least one appending call, one silent call and one fault or restart; distinct by hash of the call list".into();
    let n = if a.thorough() { 1500 } else { 110 };
    let mut r = Rng::new(a.seed);
    let mut w = CaseWriter::new(&a.out, "Model.Frames Model.Log Model.ContStore", "check_case_c02", "model_obs_c02", 12);
    let mut distinct = Distinct::default();
    let mut all: Vec<Vec<Call>> = sweep_cases();
    for i in 0..n {
        all.push(gen_case(&mut r, i % 8 == 7));
    }
    for (i, calls) in all.iter().enumerate() {
        let got = std::panic::catch_unwind(std::panic::AssertUnwindSafe(|| run_case(calls, Some(&mut res))));
        res.evaluations += 1;
        match got {
            Err(_) => {
                res.impl_panics += 1;
                res.oracle_violations.push(OracleViolation { case_id: i as i64, what: "a capability panicked".into(), class: "panic".into(), replay: json!(calls.iter().map(call_json).collect::<Vec<_>>()) });
            }
            Ok(o) => {
                res.oracle_checks += o.oracle_checks;
                res.bump_by("frames_in_final_logs", o.final_frames as u64);
                for (what, class) in &o.violations {
                    let cls = class.clone();
                    let shrunk = shrink_vec(calls.clone(), |cs| {
                        std::panic::catch_unwind(std::panic::AssertUnwindSafe(|| run_case(cs, None))).map(|o| o.violations.iter().any(|v| v.1 == cls)).unwrap_or(false)
                    });
                    res.oracle_violations.push(OracleViolation { case_id: i as i64, what: what.clone(), class: class.clone(), replay: json!(shrunk.iter().map(call_json).collect::<Vec<_>>()) });
                    break;
                }
                if o.unmodelled {
                    res.bump("cases_with_failed_job_not_compared");
                } else if !a.oracle_only() {
                    let term = format!("{{| c2_calls := [{}]; c2_expect := {} |}}", o.coq_calls.join("; "), coq_list_n(&o.obs));
                    let id = w.push(term);
                    if res.case_index.len() < 3000 {
                        res.case_index.insert(id.to_string(), json!(calls.iter().map(call_json).collect::<Vec<_>>()));
                    }
                }
                let has_fault = calls.iter().any(|c| !matches!(c, Call::Cap { .. }));
                if has_fault && o.final_frames > 1 {
                    distinct.add(&format!("{calls:?}"));
                }
                if res.samples.len() < 2 && i >= 8 {
                    res.samples.push(json!(calls.iter().take(8).map(call_json).collect::<Vec<_>>()));
                }
            }
        }
    }
    w.flush();
    res.distinct_nontrivial = distinct.count();
    res.case_files = w.files.iter().map(|p| p.display().to_string()).collect();
    res.write(&a.out);
    println!("c02: {} cases, {} oracle checks, {} oracle violations, {} panics", res.evaluations, res.oracle_checks, res.oracle_violations.len(), res.impl_panics);
}
