//! C06 — a stream subscriber sees every frame exactly once, in order.
//!
//! Drives the REAL router (`ripd::verif::build_app`) in-process.  One producer actor (the request that
//! makes a session / task / thread emit frames) and 1..k subscriber actors (GET …/events) each run on
//! their own OS thread with their own `current_thread` tokio runtime; the controlled scheduler
//! (`rv::sched`) parks them at the `rip_verif` points between publish and record in the emitters and
//! between subscribe and snapshot in the handlers, so every attach position × gap state is FORCED.
//! Observed: the seqs in each subscriber's SSE body.  Compared with (a) the model
//! (`Model/Subscribe.v`, evaluated in Coq on the schedule of publish/record/subscribe/snapshot events
//! that really happened) and (b) the independent oracle: received seqs = 0..n-1 once each, ascending,
//! where n = number of frames of that stream in events.jsonl; a subscriber that reads while the stream is
//! produced must have, after each read, every frame published so far.
use rv::provider::{sse_event, Scripted, ScriptedProvider, SSE_DONE};
use rv::sched::Sched;
use rv::*;
use serde_json::json;
use std::collections::{BTreeMap, BTreeSet};
use std::path::{Path, PathBuf};
use std::sync::{Arc, Mutex};
use std::time::{Duration, Instant};
use tower::ServiceExt;

#[path = "c06/agent.rs"]
mod agent;

#[derive(Clone, Copy, Debug, PartialEq, Eq, PartialOrd, Ord)]
enum Kind {
    Session,
    Task,
    Thread,
}
impl Kind {
    fn name(self) -> &'static str {
        match self {
            Kind::Session => "session",
            Kind::Task => "task",
            Kind::Thread => "thread",
        }
    }
    fn code(self) -> u64 {
        match self {
            Kind::Session => 0,
            Kind::Task => 1,
            Kind::Thread => 2,
        }
    }
    fn pub_point(self) -> &'static str {
        match self {
            Kind::Session => "sess.sent",
            Kind::Task => "task.sent",
            Kind::Thread => "cont.bcast",
        }
    }
    fn rec_point(self) -> &'static str {
        match self {
            Kind::Session => "sess.recorded",
            Kind::Task => "task.recorded",
            Kind::Thread => "cont.sidecar",
        }
    }
    fn sub_point(self) -> &'static str {
        match self {
            Kind::Session => "sse.session.subscribed",
            Kind::Task => "sse.task.subscribed",
            Kind::Thread => "sse.thread.subscribed",
        }
    }
    fn snap_point(self) -> &'static str {
        match self {
            Kind::Session => "sse.session.snapshotted",
            Kind::Task => "sse.task.snapshotted",
            Kind::Thread => "sse.thread.snapshotted",
        }
    }
}

/// what makes the stream produce frames
#[derive(Clone, Debug, PartialEq)]
enum Load {
    /// session, prompt input, no provider: started, output, ended (3 frames)
    Prompt,
    /// session, checkpoint envelope (4 frames)
    Checkpoint,
    /// session, tool envelope (`ls`): started, tool frames, output, ended
    Tool,
    /// session, prompt through a scripted provider emitting `k` text deltas
    Provider(u64),
    /// task: bash command (0 = `true`, 1 = printf to stdout, 2 = stdout+stderr), 3 = invalid args (1 frame)
    TaskCmd(u64),
    /// thread: post `m` messages (1 + 3m continuity frames; runs execute without a provider)
    Messages(u64),
    /// thread: post `m` messages of 9000 bytes each: a line of that size bypasses the 8 KiB BufWriter of a sidecar rewrite,
    /// so the file on disk holds frames 0..k while `rebuild_best_effort` stands between two lines
    BigMessages(u64),
    /// task: TWO concurrent producers (actors 0 and PROD_B, as the stdout and stderr pumps of a pipes task are) emit `k`
    /// output frames each through clones of one real `TaskEmitter` (`ripd::verif::build_app_with_task_driver`)
    TwoProducers(u64),
    /// thread: TWO producers (actors 0 and PROD_B) post one message each to the SAME thread.  There is no try_lock probe
    /// for the continuity seq mutex behind the router, so these cases PROBE it: PROD_B is granted at `cont.before_lock`
    /// even while producer 0 sits inside its append.  With today's lock span PROD_B just blocks (the scheduler reports it
    /// in flight after its step timeout and goes on; the case is then oracle-only); with a narrowed span it overtakes.
    MessagesTwo,
    /// session, HOOK-FREE: the router on a multi-thread runtime, a `bash` tool printing `k` lines (k + 5 frames, so the
    /// snapshot write at the end of the run takes a while), subscribers on their own OS threads attaching before the
    /// run, in the middle of it, and in a tight loop from the moment the snapshot file appears (the window between the
    /// last frame and the end of run_session).  No scheduler, no points: oracle only.
    EndRace(u64),
    /// session, prompt through a scripted provider under one configuration of the switches that change which frames the
    /// run emits (`agent::Conf`, as bits): request capture, stateless / stateful, tool calls (read-only / workspace /
    /// refused / none), tool_choice, how the provider round ends, started directly or by a thread message
    Agent(u64),
}
impl Load {
    fn label(&self) -> String {
        match self {
            Load::Prompt => "prompt".into(),
            Load::Checkpoint => "checkpoint".into(),
            Load::Tool => "tool".into(),
            Load::Provider(k) => format!("provider{k}"),
            Load::TaskCmd(k) => format!("taskcmd{k}"),
            Load::Messages(m) => format!("messages{m}"),
            Load::BigMessages(m) => format!("bigmessages{m}"),
            Load::TwoProducers(k) => format!("twoproducers{k}"),
            Load::MessagesTwo => "messagestwo".into(),
            Load::EndRace(k) => format!("endrace{k}"),
            Load::Agent(b) => format!("agent:{}", agent::Conf::from_bits(*b).label()),
        }
    }
    fn to_json(&self) -> serde_json::Value {
        match self {
            Load::Prompt => json!({"load": "prompt"}),
            Load::Checkpoint => json!({"load": "checkpoint"}),
            Load::Tool => json!({"load": "tool"}),
            Load::Provider(k) => json!({"load": "provider", "k": k}),
            Load::TaskCmd(k) => json!({"load": "taskcmd", "k": k}),
            Load::Messages(m) => json!({"load": "messages", "k": m}),
            Load::BigMessages(m) => json!({"load": "bigmessages", "k": m}),
            Load::TwoProducers(k) => json!({"load": "twoproducers", "k": k}),
            Load::MessagesTwo => json!({"load": "messagestwo"}),
            Load::EndRace(k) => json!({"load": "endrace", "k": k}),
            Load::Agent(b) => json!({"load": "agent", "k": b, "conf": format!("{:?}", agent::Conf::from_bits(*b))}),
        }
    }
    fn from_json(v: &serde_json::Value) -> Option<Load> {
        let k = v.get("k").and_then(|x| x.as_u64()).unwrap_or(0);
        Some(match v.get("load")?.as_str()? {
            "prompt" => Load::Prompt,
            "checkpoint" => Load::Checkpoint,
            "tool" => Load::Tool,
            "provider" => Load::Provider(k),
            "taskcmd" => Load::TaskCmd(k),
            "messages" => Load::Messages(k),
            "bigmessages" => Load::BigMessages(k),
            "twoproducers" => Load::TwoProducers(k),
            "messagestwo" => Load::MessagesTwo,
            "endrace" => Load::EndRace(k),
            "agent" => Load::Agent(k),
            _ => return None,
        })
    }
}

#[derive(Clone, Debug)]
struct Case {
    kind: Kind,
    load: Load,
    subs: usize,
    /// schedule prefix: 0 = producer, i>=1 = subscriber i, OTHER = the producer of another stream on the same
    /// channel.  After the prefix: subscribers run to the end of their handler, then the other producer, then the producer.
    sched: Vec<usize>,
    /// thread kind only: number of `POST /threads/{id}/branch` calls made by the OTHER actor; each creates a new
    /// thread, i.e. publishes two frames of ANOTHER stream on the shared continuity channel
    others: usize,
    /// each subscriber reads its body this many times WHILE the stream is being produced (scheduled like any other
    /// step: point `c06.read`), and once more after everything ended
    reads: usize,
    /// thread kind: the actor LOSS deletes the (rebuildable) continuity sidecar cache while the store is alive, at the
    /// place the schedule gives it: 1 = the whole directory data/continuity_streams, 2 = this thread's full sidecar file.
    /// 3 = the thread's full sidecar loses the second half of its last line (what a reader sees that reads the line while it
    /// is being appended, left on disk); 4 / 5 = NOTHING on disk is touched: the next 1 / 2 calls of `try_replay` answer as a
    /// read that fell inside the append of the last line does (fail point `cache.replay.torn`), so the reader goes to the log
    /// and rebuilds the sidecar of a healthy store.  With 3..5 the schedule stops that reader INSIDE the rebuild while the
    /// producer appends and other subscribers attach (the rebuild family).
    loss: usize,
    /// grant a subscriber's snapshot step even when the harness believes the producer holds the history buffer's lock
    /// (end of run_session / finalize_snapshot: the lock is held across the snapshot write).  On today's code the
    /// subscriber blocks (in flight after the scheduler's step timeout), the producer finishes, the subscriber gets
    /// the whole history; code that releases the buffer there lets the subscriber in.
    probe: bool,
    /// 0 = the channels of the real size; cap > 0 (a power of two: tokio rounds up): the event channels created for this
    /// case hold `cap` frames (hook `ripd::verif::set_event_channel_capacity`), so receivers lag after a handful of frames
    /// and the handlers' refill path runs at every attach position; compared with the model `rfinal LagRefill cap`
    cap: usize,
}
/// actor id of the foreign producer (subscribers are 1..=4)
const OTHER: usize = 9;
/// actor id of the cache-loss step (thread kind)
const LOSS: usize = 7;
/// actor id of the second producer of the SAME stream (Load::TwoProducers)
const PROD_B: usize = 8;
fn case_json(c: &Case) -> serde_json::Value {
    json!({"kind": c.kind.name(), "load": c.load.to_json(), "subs": c.subs, "sched": c.sched, "others": c.others, "reads": c.reads, "loss": c.loss, "probe": c.probe, "cap": c.cap})
}
fn case_from_json(v: &serde_json::Value) -> Option<Case> {
    let kind = match v.get("kind")?.as_str()? {
        "session" => Kind::Session,
        "task" => Kind::Task,
        "thread" => Kind::Thread,
        _ => return None,
    };
    Some(Case {
        kind,
        load: Load::from_json(v.get("load")?)?,
        subs: v.get("subs")?.as_u64()? as usize,
        sched: v.get("sched")?.as_array()?.iter().filter_map(|x| x.as_u64().map(|y| y as usize)).collect(),
        others: v.get("others").and_then(|x| x.as_u64()).unwrap_or(0) as usize,
        reads: v.get("reads").and_then(|x| x.as_u64()).unwrap_or(0) as usize,
        loss: v.get("loss").and_then(|x| x.as_u64()).unwrap_or(0) as usize,
        probe: v.get("probe").and_then(|x| x.as_bool()).unwrap_or(false),
        cap: v.get("cap").and_then(|x| x.as_u64()).unwrap_or(0) as usize,
    })
}

/// model-level event that really happened (in real time order; only one actor runs at a time)
#[derive(Clone, Copy, Debug, PartialEq)]
enum Ev {
    Pub,
    Rec,
    Sub(usize),
    Snap(usize),
    /// a frame of another stream was published on the same channel
    Oth,
    /// subscriber i read everything that was pending (mid-run read)
    Drain(usize),
    /// subscriber i, stopped at `sse.live.refilled` (its receiver had lagged, the history has been re-read), moves on
    Resume(usize),
    /// two-producer load: producer j (0 = actor 0, 1 = PROD_B) took its seq number / recorded / published
    MChoose(usize),
    MRec(usize),
    MPub(usize),
}

#[derive(Debug, Default)]
struct Outcome {
    /// per subscriber (index 0 = subscriber 1): HTTP status and the seqs of the data frames of its body
    delivered: Vec<(u16, Vec<u64>)>,
    /// per subscriber: number of body frames whose session_id is not the stream's id
    foreign: Vec<u64>,
    /// per subscriber: number of frames it had received after each mid-run read
    marks: Vec<Vec<usize>>,
    /// seqs of the stream's frames in events.jsonl, file order
    truth: Vec<u64>,
    /// their ids, and per subscriber the ids of the frames of its body
    truth_ids: Vec<String>,
    delivered_ids: Vec<Vec<String>>,
    events: Vec<Ev>,
    in_flight: u64,
    deadlock: bool,
    panicked: Vec<usize>,
    producer_trace: Vec<&'static str>,
    /// the stream had frames before the case started (thread kind)
    pre_existing: bool,
    /// the producer ran to its end (terminal artefact seen) and every actor finished: `truth` is the whole stream
    complete: bool,
}

fn req(method: &str, uri: &str, body: Option<serde_json::Value>) -> axum::http::Request<axum::body::Body> {
    let b = axum::http::Request::builder().method(method).uri(uri);
    match body {
        Some(v) => b.header("content-type", "application/json").body(axum::body::Body::from(v.to_string())).unwrap(),
        None => b.body(axum::body::Body::empty()).unwrap(),
    }
}
async fn call_json(app: &axum::Router, r: axum::http::Request<axum::body::Body>) -> (u16, serde_json::Value) {
    use http_body_util::BodyExt;
    let resp = app.clone().oneshot(r).await.expect("infallible");
    let st = resp.status().as_u16();
    let bytes = resp.into_body().collect().await.map(|b| b.to_bytes()).unwrap_or_default();
    (st, serde_json::from_slice(&bytes).unwrap_or(serde_json::Value::Null))
}
fn new_rt() -> tokio::runtime::Runtime {
    tokio::runtime::Builder::new_current_thread().enable_all().build().expect("runtime")
}

fn stream_frames(data: &Path, id: &str, continuity: bool) -> Vec<(u64, String)> {
    let mut out = vec![];
    let Ok(text) = std::fs::read_to_string(data.join("events.jsonl")) else { return out };
    for line in text.lines() {
        let Ok(v) = serde_json::from_str::<serde_json::Value>(line) else { continue };
        if v.get("session_id").and_then(|x| x.as_str()) != Some(id) {
            continue;
        }
        let ty = v.get("type").and_then(|x| x.as_str()).unwrap_or("").to_string();
        if ty.starts_with("continuity_") != continuity {
            continue;
        }
        out.push((v.get("seq").and_then(|x| x.as_u64()).unwrap_or(u64::MAX), ty));
    }
    out
}

/// the `id` of every frame of the stream in events.jsonl, file order
fn stream_ids(data: &Path, id: &str, continuity: bool) -> Vec<String> {
    let mut out = vec![];
    let Ok(text) = std::fs::read_to_string(data.join("events.jsonl")) else { return out };
    for line in text.lines() {
        let Ok(v) = serde_json::from_str::<serde_json::Value>(line) else { continue };
        if v.get("session_id").and_then(|x| x.as_str()) != Some(id) {
            continue;
        }
        if v.get("type").and_then(|x| x.as_str()).unwrap_or("").starts_with("continuity_") != continuity {
            continue;
        }
        out.push(v.get("id").and_then(|x| x.as_str()).unwrap_or("").to_string());
    }
    out
}

fn provider_script(k: u64) -> Vec<Scripted> {
    let mut body = String::new();
    body.push_str(&sse_event("response.created", &json!({"type": "response.created", "sequence_number": 0, "response": {"id": "resp_1"}})));
    for i in 0..k {
        body.push_str(&sse_event(
            "response.output_text.delta",
            &json!({"type": "response.output_text.delta", "sequence_number": i + 1, "item_id": "m1", "output_index": 0, "content_index": 0, "delta": format!("d{i}")}),
        ));
    }
    body.push_str(SSE_DONE);
    vec![Scripted::sse_text(&body)]
}

struct Ctl {
    kind: Kind,
    prefix: Vec<usize>,
    pos: usize,
    prev: Option<usize>,
    guard: bool,
    /// two producers on one stream (Load::TwoProducers): mutexes are handled by the probes in `enabled`
    multi: bool,
    /// Load::MessagesTwo: do not defer an actor parked at `cont.before_lock` to the believed holder of the mutex
    probe_locks: bool,
    /// Case::probe
    probe_buffer: bool,
    /// Case::cap > 0
    refill_reads: bool,
    /// continuity seq mutex: who is between `cont.locked` and the return that follows `cont.advanced` / `cont.setnext`
    holder: Option<usize>,
    releasing: Option<usize>,
    /// EventLog writer mutex: who is between `log.locked` and the return after `log.flushed`
    log_holder: Option<usize>,
    events: Vec<Ev>,
    p_trace: Vec<&'static str>,
}
impl Ctl {
    fn arrived(&mut self, actor: usize, point: Option<&'static str>) {
        if self.releasing == Some(actor) {
            // `cont.setnext` also occurs inside create_continuity_locked while branch / handoff still hold the mutex
            // for their second frame: the mutex is free only once the actor shows up outside the locked region
            // (the locked region is full of log.* / cache.* / index points: only points known to lie outside release)
            let outside = match point {
                None => true,
                Some(p) => p == "cont.before_lock" || ["sess.", "sse.", "task.", "snap.", "ws."].iter().any(|pre| p.starts_with(pre)),
            };
            let still_inside = !outside;
            if !still_inside {
                self.releasing = None;
                self.holder = None;
            }
        }
        if self.log_holder == Some(actor) && !matches!(point, Some(p) if p.starts_with("log.") && p != "log.before_lock") {
            self.log_holder = None;
        }
        if point == Some("log.locked") {
            self.log_holder = Some(actor);
        }
        match point {
            Some("cont.locked") => self.holder = Some(actor),
            Some("cont.advanced") | Some("cont.setnext") if self.holder == Some(actor) => self.releasing = Some(actor),
            None if self.holder == Some(actor) => self.holder = None,
            _ => {}
        }
        let Some(p) = point else {
            if actor == 0 {
                self.guard = false;
            }
            return;
        };
        if self.multi && (actor == 0 || actor == PROD_B) {
            let j = usize::from(actor == PROD_B);
            match p {
                "task.seq_chosen" => self.events.push(Ev::MChoose(j)),
                "task.recorded" => {
                    self.events.push(Ev::MRec(j));
                    self.events.push(Ev::Rec);
                }
                "task.sent" => {
                    self.events.push(Ev::MPub(j));
                    self.events.push(Ev::Pub);
                }
                _ => {}
            }
            if actor == 0 {
                self.p_trace.push(p);
            }
            return;
        }
        if actor == 0 {
            self.p_trace.push(p);
            if p == self.kind.pub_point() {
                self.events.push(Ev::Pub);
            } else if p == self.kind.rec_point() {
                self.events.push(Ev::Rec);
            }
            // the emitter holds the history buffer's async mutex from `*.recorded` to the end of emit
            if self.kind != Kind::Thread {
                if p.ends_with(".recorded") && p == self.kind.rec_point() {
                    self.guard = true;
                } else if p.ends_with(".before_emit") || p.starts_with("cont.") {
                    self.guard = false;
                }
            }
        } else if actor == OTHER {
            if p == "cont.bcast" {
                self.events.push(Ev::Oth);
            }
        } else if p == self.kind.sub_point() {
            self.events.push(Ev::Sub(actor));
        } else if p == self.kind.snap_point() {
            self.events.push(Ev::Snap(actor));
        }
    }
    /// `en` = the enabled parked actors, `all` = every parked actor (an actor that is parked at a point but not enabled
    /// right now has still ARRIVED there)
    fn pick(&mut self, en: &[(usize, &'static str)], all: &BTreeMap<usize, &'static str>) -> Option<usize> {
        if let Some(a) = self.prev.take() {
            let at = en.iter().find(|(x, _)| *x == a).map(|(_, p)| *p).or_else(|| all.get(&a).cloned());
            self.arrived(a, at);
        }
        let parked = |a: usize| en.iter().find(|(x, _)| *x == a).map(|(_, p)| *p);
        let choice = loop {
            let want = if self.pos < self.prefix.len() {
                self.prefix[self.pos]
            } else {
                // default: subscribers first, then the other producer, then the producer
                en.iter().map(|(a, _)| *a).filter(|a| *a != 0).min().unwrap_or(0)
            };
            match parked(want) {
                None => {
                    if self.pos < self.prefix.len() {
                        self.pos += 1; // that actor is finished (or not startable yet): skip the entry
                        continue;
                    }
                    // default chose the producer but it is not parked: pick anything parked
                    match en.first() {
                        Some((a, _)) => break *a,
                        None => return None,
                    }
                }
                Some(p) => {
                    if want != 0 && p == self.kind.sub_point() && self.guard && !self.probe_buffer && parked(0).is_some() {
                        break 0; // snapshot would block on the buffer mutex: let the producer leave the critical section
                    }
                    if p == "log.before_lock" {
                        if let Some(h) = self.log_holder {
                            if h != want && parked(h).is_some() {
                                break h; // the EventLog writer mutex is taken: let its holder finish the append
                            }
                        }
                    }
                    if p == "cont.before_lock" && !self.probe_locks {
                        if let Some(h) = self.holder {
                            if h != want && parked(h).is_some() {
                                break h; // the continuity seq mutex is taken: let its holder leave the critical section
                            }
                        }
                    }
                    if self.pos < self.prefix.len() {
                        self.pos += 1;
                    }
                    break want;
                }
            }
        };
        // small channels: a read may have to refill from the history, i.e. needs the buffer lock (try_lock, asked again
        // until it answers): while the producer is parked inside its emit the read could not complete, so the producer
        // leaves its critical section first
        let choice = if self.refill_reads && !self.probe_buffer && choice != 0 && self.guard && en.iter().any(|(a, p)| *a == choice && *p == "c06.read") && en.iter().any(|(a, _)| *a == 0) {
            if self.pos > 0 && self.pos <= self.prefix.len() && self.prefix[self.pos - 1] == choice {
                self.pos -= 1; // the read stays next in line
            }
            0
        } else {
            choice
        };
        if en.iter().any(|(a, p)| *a == choice && *p == "c06.read") {
            self.events.push(Ev::Drain(choice));
        }
        if en.iter().any(|(a, p)| *a == choice && *p == "sse.live.refilled") {
            self.events.push(Ev::Resume(choice));
        }
        self.prev = Some(choice);
        Some(choice)
    }
}

/// incremental reader of one SSE body (a client that reads while the stream is being produced, and again at the end)
struct Reader {
    body: axum::body::Body,
    buf: String,
    seqs: Vec<u64>,
    /// the `id` of every frame received (which frame it is, whatever number it carries)
    ids: Vec<String>,
    foreign: u64,
    terminal: bool,
}
impl Reader {
    fn new(resp: axum::response::Response) -> Reader {
        Reader { body: resp.into_body(), buf: String::new(), seqs: vec![], ids: vec![], foreign: 0, terminal: false }
    }
    /// reads every frame that is available now.  Whatever was published or replayed is already queued in this
    /// receiver / history iterator, so `frame()` is ready on its first poll (tokio's `timeout` polls the future before
    /// it looks at the clock: a descheduled thread cannot turn an available frame into a timeout); the wait only
    /// bounds how long we sit on an empty channel before concluding that nothing more is pending.
    fn drain(&mut self, rt: &tokio::runtime::Runtime, idle_ms: u64, kind: Kind, last_seq: Option<u64>, stream_id: &str) {
        use http_body_util::BodyExt;
        rt.block_on(async {
            loop {
                let wait = if self.terminal { 3 } else { idle_ms };
                let fr = tokio::time::timeout(Duration::from_millis(wait), self.body.frame()).await;
                let Ok(Some(Ok(frame))) = fr else { break };
                let Ok(data) = frame.into_data() else { continue };
                self.buf.push_str(&String::from_utf8_lossy(&data));
                while let Some(i) = self.buf.find("\n\n") {
                    let msg: String = self.buf[..i].to_string();
                    self.buf = self.buf[i + 2..].to_string();
                    for line in msg.lines() {
                        if let Some(d) = line.strip_prefix("data:") {
                            if let Ok(v) = serde_json::from_str::<serde_json::Value>(d.trim()) {
                                let sq = v.get("seq").and_then(|x| x.as_u64()).unwrap_or(u64::MAX);
                                self.seqs.push(sq);
                                self.ids.push(v.get("id").and_then(|x| x.as_str()).unwrap_or("").to_string());
                                if v.get("session_id").and_then(|x| x.as_str()) != Some(stream_id) {
                                    self.foreign += 1;
                                }
                                if Some(sq) == last_seq {
                                    self.terminal = true; // the producer is finished: nothing can follow the stream's last frame
                                }
                                let ty = v.get("type").and_then(|x| x.as_str()).unwrap_or("");
                                let st = v.get("status").and_then(|x| x.as_str()).unwrap_or("");
                                if (kind == Kind::Session && ty == "session_ended")
                                    || (kind == Kind::Task && ty == "tool_task_status" && matches!(st, "exited" | "failed" | "cancelled"))
                                {
                                    self.terminal = true;
                                }
                            }
                        }
                    }
                }
            }
        });
    }
}

/// one real router over one store, reused for a bounded number of cases (a new session / task per
/// case; the thread kind keeps appending to the same thread, so later cases attach to a longer history)
struct Env {
    scratch: Scratch,
    app: axum::Router,
    _provider: Option<ScriptedProvider>,
    main_rt: tokio::runtime::Runtime,
    uses: usize,
    key: String,
    driver: Option<ripd::verif::tasks::TaskStreamDriver>,
}
const ENV_MAX_USES: usize = 40;
impl Env {
    fn new(c: &Case) -> Env {
        let scratch = Scratch::new("c06");
        let data = scratch.path().join("data");
        let ws = scratch.path().join("ws");
        std::fs::create_dir_all(&ws).unwrap();
        std::fs::write(ws.join("a.txt"), "hello\n").unwrap();
        let mut endpoint: Option<String> = None;
        let provider = match c.load {
            Load::Agent(b) => {
                std::fs::create_dir_all(ws.join("m")).unwrap();
                let (p, url) = agent::start_provider(agent::Conf::from_bits(b));
                endpoint = Some(url);
                p
            }
            Load::Provider(k) => {
                let one = provider_script(k);
                let mut all = vec![];
                // (a very long script is used by a single case: the lag witness)
                for _ in 0..(if k >= 1000 { 2 } else { ENV_MAX_USES + 2 }) {
                    all.extend(one.clone());
                }
                Some(ScriptedProvider::start(all))
            }
            _ => None,
        };
        let conf = match c.load {
            Load::Agent(b) => Some(agent::Conf::from_bits(b)),
            _ => None,
        };
        let cfg = endpoint.or_else(|| provider.as_ref().map(|p| p.url.clone())).map(|endpoint| ripd::verif::OpenResponsesConfig {
            endpoint,
            api_key: None,
            model: Some("fixture-model".into()),
            headers: vec![],
            tool_choice: conf.map(|c| c.tool_choice()).unwrap_or_else(rip_provider_openresponses::ToolChoiceParam::auto),
            followup_user_message: conf.and_then(|c| if c.followup { Some("go on".to_string()) } else { None }),
            stateless_history: conf.map(|c| c.stateless).unwrap_or(false),
            parallel_tool_calls: conf.map(|c| c.parallel).unwrap_or(false),
        });
        let (app, driver) = match c.load {
            Load::TwoProducers(_) => {
                let (app, d) = ripd::verif::build_app_with_task_driver(data, ws);
                (app, Some(d))
            }
            _ => (ripd::verif::build_app(data, ws, cfg), None),
        };
        Env { scratch, app, _provider: provider, main_rt: new_rt(), uses: 0, key: Env::key_of(c), driver }
    }
    fn key_of(c: &Case) -> String {
        // cases with a foreign producer get a fresh store each (uses limit below): the main thread is then short, so a
        // frame of another thread (seq 0, 1) that leaks through the handler is not hidden by the `seq > last` filter
        format!("{:?}/{:?}/{}/{}/{}", c.kind, c.load, c.others > 0, c.loss > 0, c.cap)
    }
    fn data(&self) -> PathBuf {
        self.scratch.path().join("data")
    }
}
fn env_for<'a>(slot: &'a mut Option<Env>, c: &Case) -> &'a mut Env {
    // the capacity of every event channel created from here on (session: POST /sessions of the case; task: POST /tasks;
    // thread: the store's channel, created with the router); 0 = the compiled-in EVENT_CHANNEL_CAPACITY
    ripd::verif::set_event_channel_capacity(c.cap);
    // the process environment the run reads (request capture); everything but an Agent load runs with capture off
    agent::Conf::apply_env(match c.load {
        Load::Agent(b) => Some(agent::Conf::from_bits(b)),
        _ => None,
    });
    let stale = match slot {
        Some(e) => e.key != Env::key_of(c) || e.uses >= ENV_MAX_USES || c.others > 0 || c.loss > 0 || matches!(c.load, Load::TwoProducers(_) | Load::Agent(_)),
        None => true,
    };
    if stale {
        *slot = None; // drop the old store first
        *slot = Some(Env::new(c));
    }
    let e = slot.as_mut().unwrap();
    e.uses += 1;
    e
}

fn run_case(env: &mut Env, c: &Case) -> Outcome {
    let data = env.data();
    let app = env.app.clone();
    let main_rt = &env.main_rt;
    let mut out = Outcome::default();

    // ---- setup (not an actor: passes straight through every point)
    let stream_id: Arc<Mutex<Option<String>>> = Arc::new(Mutex::new(None));
    let via_thread = matches!(c.load, Load::Agent(b) if agent::Conf::from_bits(b).via_thread);
    let mut run_thread: Option<String> = None;
    match c.kind {
        Kind::Session if via_thread => {
            // the session is minted by POST /threads/{id}/messages (the producer's first call)
            let (st, v) = main_rt.block_on(call_json(&app, req("POST", "/threads/ensure", None)));
            assert_eq!(st, 200);
            run_thread = Some(v["thread_id"].as_str().unwrap().to_string());
        }
        Kind::Session => {
            let (st, v) = main_rt.block_on(call_json(&app, req("POST", "/sessions", None)));
            assert_eq!(st, 201);
            *stream_id.lock().unwrap() = Some(v["session_id"].as_str().unwrap().to_string());
        }
        Kind::Thread => {
            let (st, v) = main_rt.block_on(call_json(&app, req("POST", "/threads/ensure", None)));
            assert_eq!(st, 200);
            *stream_id.lock().unwrap() = Some(v["thread_id"].as_str().unwrap().to_string());
        }
        Kind::Task => {
            if let Some(d) = &env.driver {
                *stream_id.lock().unwrap() = Some(d.task_id());
            }
        }
    }
    let driver = env.driver.clone();

    out.pre_existing = c.kind == Kind::Thread;
    let sched = Sched::new();
    sched.install();
    let (tx, rx) = std::sync::mpsc::channel::<(usize, tokio::runtime::Runtime, u16, Option<Reader>, Vec<usize>)>();
    let producer_done = Arc::new(std::sync::atomic::AtomicBool::new(false));
    let producer_b_done = Arc::new(std::sync::atomic::AtomicBool::new(driver.is_none()));

    // the number of `try_replay` calls still to be answered as a torn read (Case::loss 4 / 5; armed by the LOSS actor)
    let torn_reads = Arc::new(std::sync::atomic::AtomicUsize::new(0));
    if c.loss >= 4 {
        let torn = torn_reads.clone();
        rip_kernel::verif::set_fail_hook(Some(Arc::new(move |name: &'static str| {
            name == "cache.replay.torn" && torn.fetch_update(std::sync::atomic::Ordering::SeqCst, std::sync::atomic::Ordering::SeqCst, |k| k.checked_sub(1)).is_ok()
        })));
    }

    // ---- producer actor
    {
        let app = app.clone();
        let sid = stream_id.clone();
        let load = c.load.clone();
        let kind = c.kind;
        let data = data.clone();
        let producer_done = producer_done.clone();
        let driver_a = driver.clone();
        let run_thread = run_thread.clone();
        sched.spawn(0, move || {
            let rt = new_rt();
            let finished = rt.block_on(async move {
                // generous: only reached when the machine is overloaded; the case is then inconclusive, never an alarm
                let deadline = Instant::now() + Duration::from_secs(120);
                match kind {
                    Kind::Session if run_thread.is_some() => {
                        let tid = run_thread.clone().unwrap();
                        let (st, v) = call_json(&app, req("POST", &format!("/threads/{tid}/messages"), Some(json!({"content": "hello"})))).await;
                        assert_eq!(st, 202);
                        let id = v["session_id"].as_str().unwrap().to_string();
                        *sid.lock().unwrap() = Some(id.clone());
                        let snap = data.join("snapshots").join(format!("{id}.json"));
                        loop {
                            let ended = snap.exists() && stream_frames(&data, &tid, true).iter().any(|(_, t)| t == "continuity_run_ended");
                            if ended || Instant::now() >= deadline {
                                break ended;
                            }
                            tokio::time::sleep(Duration::from_millis(1)).await;
                        }
                    }
                    Kind::Session => {
                        let id = sid.lock().unwrap().clone().unwrap();
                        let input = match load {
                            Load::Checkpoint => json!({"checkpoint": {"action": "create", "label": "l", "files": ["a.txt"]}}).to_string(),
                            Load::Tool => json!({"tool": "ls", "args": {"path": "."}}).to_string(),
                            _ => "hello".to_string(),
                        };
                        let (st, _) = call_json(&app, req("POST", &format!("/sessions/{id}/input"), Some(json!({"input": input})))).await;
                        assert_eq!(st, 202);
                        let snap = data.join("snapshots").join(format!("{id}.json"));
                        while !snap.exists() && Instant::now() < deadline {
                            tokio::time::sleep(Duration::from_millis(1)).await;
                        }
                        snap.exists()
                    }
                    Kind::Task if matches!(load, Load::TwoProducers(_)) => {
                        let n = match load {
                            Load::TwoProducers(n) => n,
                            _ => 0,
                        };
                        let d = driver_a.expect("driver");
                        for i in 0..n {
                            d.emit_output(false, &format!("o{i}")).await;
                        }
                        true
                    }
                    Kind::Task => {
                        let k = match load {
                            Load::TaskCmd(k) => k,
                            _ => 1,
                        };
                        let args = match k {
                            0 => json!({"command": "true"}),
                            1 => json!({"command": "printf 'out\\n'"}),
                            2 => json!({"command": "printf 'out\\n'; printf 'err\\n' >&2"}),
                            _ => json!({"command": 5}),
                        };
                        let (st, v) = call_json(&app, req("POST", "/tasks", Some(json!({"tool": "bash", "args": args, "title": "t", "execution_mode": "pipes"})))).await;
                        assert_eq!(st, 201);
                        let id = v["task_id"].as_str().unwrap().to_string();
                        *sid.lock().unwrap() = Some(id.clone());
                        let snap = data.join("task_snapshots").join(format!("{id}.json"));
                        while !snap.exists() && Instant::now() < deadline {
                            tokio::time::sleep(Duration::from_millis(1)).await;
                        }
                        snap.exists()
                    }
                    Kind::Thread => {
                        let id = sid.lock().unwrap().clone().unwrap();
                        let (m, pad) = match load {
                            Load::Messages(m) => (m, 0),
                            Load::BigMessages(m) => (m, 9000),
                            _ => (1, 0),
                        };
                        for i in 0..m {
                            let (st, _) = call_json(&app, req("POST", &format!("/threads/{id}/messages"), Some(json!({"content": format!("m{i}{}", "x".repeat(pad))})))).await;
                            assert_eq!(st, 202);
                        }
                        loop {
                            let frames = stream_frames(&data, &id, true);
                            let posted = frames.iter().filter(|(_, t)| t == "continuity_message_appended").count() as u64;
                            let ended = frames.iter().filter(|(_, t)| t == "continuity_run_ended").count() as u64;
                            if ended >= posted && posted > 0 {
                                break true;
                            }
                            if Instant::now() >= deadline {
                                break false;
                            }
                            tokio::time::sleep(Duration::from_millis(1)).await;
                        }
                    }
                }
            });
            producer_done.store(finished, std::sync::atomic::Ordering::SeqCst);
        });
    }
    // ---- the second producer of the SAME task stream (the stderr pump next to the stdout pump)
    if let (Some(d), Load::TwoProducers(n)) = (driver.clone(), c.load.clone()) {
        let done = producer_b_done.clone();
        sched.spawn(PROD_B, move || {
            let rt = new_rt();
            rt.block_on(async move {
                for i in 0..n {
                    d.emit_output(true, &format!("e{i}")).await;
                }
            });
            done.store(true, std::sync::atomic::Ordering::SeqCst);
        });
    }
    // ---- a second producer on the SAME thread (Load::MessagesTwo)
    if c.kind == Kind::Thread && c.load == Load::MessagesTwo {
        let app = app.clone();
        let sid = stream_id.clone();
        let data = data.clone();
        let done = producer_b_done.clone();
        done.store(false, std::sync::atomic::Ordering::SeqCst);
        sched.spawn(PROD_B, move || {
            let rt = new_rt();
            let finished = rt.block_on(async move {
                let deadline = Instant::now() + Duration::from_secs(120);
                let id = sid.lock().unwrap().clone().unwrap();
                let (st, _) = call_json(&app, req("POST", &format!("/threads/{id}/messages"), Some(json!({"content": "b"})))).await;
                assert_eq!(st, 202);
                loop {
                    let frames = stream_frames(&data, &id, true);
                    let posted = frames.iter().filter(|(_, t)| t == "continuity_message_appended").count() as u64;
                    let ended = frames.iter().filter(|(_, t)| t == "continuity_run_ended").count() as u64;
                    if ended >= posted && posted > 0 {
                        break true;
                    }
                    if Instant::now() >= deadline {
                        break false;
                    }
                    tokio::time::sleep(Duration::from_millis(1)).await;
                }
            });
            done.store(finished, std::sync::atomic::Ordering::SeqCst);
        });
    }
    // ---- the producer of OTHER streams on the same channel (thread kind: every thread shares the continuity channel)
    if c.kind == Kind::Thread && c.others > 0 {
        let app = app.clone();
        let sid = stream_id.clone();
        let n = c.others;
        sched.spawn(OTHER, move || {
            let rt = new_rt();
            rt.block_on(async move {
                let id = sid.lock().unwrap().clone().unwrap();
                for _ in 0..n {
                    let (st, _) = call_json(&app, req("POST", &format!("/threads/{id}/branch"), Some(json!({"title": "other"})))).await;
                    assert!(st == 200 || st == 201, "branch status {st}");
                }
            });
        });
    }
    // ---- cache loss: the rebuildable sidecar cache is deleted while the store is alive (one step, wherever the schedule puts it)
    if c.kind == Kind::Thread && c.loss > 0 {
        let sid = stream_id.clone();
        let data = data.clone();
        let how = c.loss;
        let torn = torn_reads.clone();
        sched.spawn(LOSS, move || {
            let dir = data.join("continuity_streams");
            let id = sid.lock().unwrap().clone();
            match (how, id) {
                (1, _) => {
                    let _ = std::fs::remove_dir_all(&dir);
                }
                (2, Some(id)) => {
                    let _ = std::fs::remove_file(dir.join(format!("{id}.jsonl")));
                }
                (3, Some(id)) => {
                    let path = dir.join(format!("{id}.jsonl"));
                    if let Ok(bytes) = std::fs::read(&path) {
                        let body = &bytes[..bytes.len().saturating_sub(1)];
                        let start = body.iter().rposition(|b| *b == b'\n').map(|i| i + 1).unwrap_or(0);
                        let keep = start + (bytes.len() - start) / 2;
                        let _ = std::fs::write(&path, &bytes[..keep]);
                    }
                }
                (4, _) => torn.store(1, std::sync::atomic::Ordering::SeqCst),
                (5, _) => torn.store(2, std::sync::atomic::Ordering::SeqCst),
                _ => {}
            }
        });
    }
    // ---- subscriber actors
    for i in 1..=c.subs {
        let app = app.clone();
        let sid = stream_id.clone();
        let kind = c.kind;
        let tx = tx.clone();
        let reads = c.reads;
        sched.spawn(i, move || {
            let rt = new_rt();
            let id = sid.lock().unwrap().clone().unwrap_or_else(|| "none".into());
            let uri = match kind {
                Kind::Session => format!("/sessions/{id}/events"),
                Kind::Task => format!("/tasks/{id}/events"),
                Kind::Thread => format!("/threads/{id}/events"),
            };
            let resp = rt.block_on(async { app.clone().oneshot(req("GET", &uri, None)).await.expect("infallible") });
            let status = resp.status().as_u16();
            let mut marks = vec![];
            let reader = if status == 200 {
                let mut rd = Reader::new(resp);
                for _ in 0..reads {
                    rip_kernel::verif::point("c06.read");
                    rd.drain(&rt, 15, kind, None, &id);
                    marks.push(rd.seqs.len());
                }
                Some(rd)
            } else {
                None
            };
            let _ = tx.send((i, rt, status, reader, marks));
        });
    }
    drop(tx);

    let ctl = std::cell::RefCell::new(Ctl { kind: c.kind, prefix: c.sched.clone(), pos: 0, prev: None, guard: false, multi: matches!(c.load, Load::TwoProducers(_)), probe_locks: c.load == Load::MessagesTwo, probe_buffer: c.probe, refill_reads: c.cap > 0, holder: None, releasing: None, log_holder: None, events: vec![], p_trace: vec![] });
    let sid_probe = stream_id.clone();
    let probe = driver.clone();
    let sub_point = c.kind.sub_point();
    // every parked actor of the current scheduling round (the scheduler asks `enabled` for each of them, then calls pick)
    let seen: std::rc::Rc<std::cell::RefCell<BTreeMap<usize, &'static str>>> = Default::default();
    let seen_w = seen.clone();
    let enabled = move |actor: usize, point: &'static str| -> bool {
        seen_w.borrow_mut().insert(actor, point);
        // two-producer load: nobody is granted into a mutex that is held right now (try_lock probes on the real emitter).
        // With the seq mutex spanning the whole emit the second producer is simply not enabled while the first is inside;
        // if the span is narrowed the probe says "free" and the overtaking interleaving becomes a real schedule.
        if let Some(d) = &probe {
            if point == "task.before_emit" && !d.seq_free() {
                return false;
            }
            if (point == "task.seq_chosen" || point == sub_point) && !d.buffer_free() {
                return false;
            }
        }
        // a subscriber cannot be started before the stream's id exists (task ids are minted by POST /tasks)
        !(actor != 0 && point == "start" && sid_probe.lock().unwrap().is_none())
    };
    let trace = sched.run(
        |en| {
            let all = std::mem::take(&mut *seen.borrow_mut());
            ctl.borrow_mut().pick(en, &all)
        },
        &enabled,
    );
    Sched::uninstall();
    if c.loss >= 4 {
        rip_kernel::verif::set_fail_hook(None);
    }
    {
        let mut ctl = ctl.borrow_mut();
        if let Some(a) = ctl.prev.take() {
            ctl.arrived(a, None);
        }
        out.events = ctl.events.clone();
        out.producer_trace = ctl.p_trace.clone();
    }
    if std::env::var("C06_TRACE").is_ok() {
        eprintln!("steps: {:?}", trace.steps);
    }
    out.in_flight = trace.in_flight_timeouts;
    out.deadlock = trace.deadlock;
    out.panicked = trace.panicked.clone();
    out.complete = !trace.deadlock && producer_done.load(std::sync::atomic::Ordering::SeqCst) && producer_b_done.load(std::sync::atomic::Ordering::SeqCst);

    let id = stream_id.lock().unwrap().clone().unwrap_or_default();
    out.truth = stream_frames(&data, &id, c.kind == Kind::Thread).into_iter().map(|(s, _)| s).collect();
    let last = out.truth.last().cloned();
    out.truth_ids = stream_ids(&data, &id, c.kind == Kind::Thread);
    let mut got: BTreeMap<usize, (u16, Vec<u64>, u64, Vec<usize>, Vec<String>)> = BTreeMap::new();
    while let Ok((i, rt, status, reader, marks)) = rx.recv_timeout(Duration::from_secs(5)) {
        match reader {
            Some(mut rd) => {
                rd.drain(&rt, 40, c.kind, last, &id);
                got.insert(i, (status, rd.seqs, rd.foreign, marks, rd.ids));
            }
            None => {
                got.insert(i, (status, vec![], 0, marks, vec![]));
            }
        }
        drop(rt);
    }
    for i in 1..=c.subs {
        let (st, seqs, fo, marks, ids) = got.remove(&i).unwrap_or((0, vec![], 0, vec![], vec![]));
        out.delivered_ids.push(ids);
        out.delivered.push((st, seqs));
        out.foreign.push(fo);
        out.marks.push(marks);
    }
    out
}

/// HOOK-FREE end-of-run race (Load::EndRace): the real router on a multi-thread runtime, one long session, subscribers
/// on their own OS threads attaching (0) before the input is sent, (1) in the middle of the run, (2..) back to back from
/// the moment the snapshot file appears - i.e. while run_session is between its last frame and its end.  Bodies are read
/// only after the run is known to be over (a later subscriber has received `session_ended` from the history), so every
/// frame a correct server owes them is already queued: the idle waits below only ever elapse on a broken server.
fn run_end_race(c: &Case, lines: u64) -> Outcome {
    use std::sync::atomic::{AtomicBool, Ordering};
    let mut out = Outcome::default();
    let scratch = Scratch::new("c06race");
    let data = scratch.path().join("data");
    let ws = scratch.path().join("ws");
    std::fs::create_dir_all(&ws).unwrap();
    let app = ripd::verif::build_app(data.clone(), ws, None);
    let main_rt = tokio::runtime::Builder::new_multi_thread().worker_threads(3).enable_all().build().expect("runtime");
    let (st, v) = main_rt.block_on(call_json(&app, req("POST", "/sessions", None)));
    assert_eq!(st, 201);
    let id = v["session_id"].as_str().unwrap().to_string();
    let snap = data.join("snapshots").join(format!("{id}.json"));
    let log = data.join("events.jsonl");
    let deadline = Instant::now() + Duration::from_secs(180);
    let first_attached = Arc::new(AtomicBool::new(false));
    let attachers = c.subs.max(3);
    let per_late = 5usize;
    let mut handles = vec![];
    for j in 0..attachers {
        let app = app.clone();
        let id = id.clone();
        let snap = snap.clone();
        let log = log.clone();
        let first_attached = first_attached.clone();
        handles.push(std::thread::spawn(move || {
            let rt = new_rt();
            let uri = format!("/sessions/{id}/events");
            let mut got: Vec<(u16, Option<Reader>)> = vec![];
            let attach = |rt: &tokio::runtime::Runtime| {
                let resp = rt.block_on(async { app.clone().oneshot(req("GET", &uri, None)).await.expect("infallible") });
                let st = resp.status().as_u16();
                (st, if st == 200 { Some(Reader::new(resp)) } else { None })
            };
            match j {
                0 => {
                    got.push(attach(&rt));
                    first_attached.store(true, Ordering::SeqCst);
                }
                1 => {
                    // about the middle of the run: the log has grown to half its final size (each tool_stdout line is > 150 bytes)
                    while std::fs::metadata(&log).map(|m| m.len()).unwrap_or(0) < lines * 75 && !snap.exists() && Instant::now() < deadline {
                        std::thread::yield_now();
                    }
                    got.push(attach(&rt));
                }
                _ => {
                    while !snap.exists() && Instant::now() < deadline {
                        std::hint::spin_loop();
                    }
                    for _ in 0..per_late {
                        got.push(attach(&rt));
                    }
                }
            }
            (rt, got)
        }));
    }
    while !first_attached.load(Ordering::SeqCst) && Instant::now() < deadline {
        std::thread::sleep(Duration::from_millis(1));
    }
    let tool = json!({"tool": "bash", "args": {"command": format!("seq 1 {lines}")}}).to_string();
    let (st, _) = main_rt.block_on(call_json(&app, req("POST", &format!("/sessions/{id}/input"), Some(json!({"input": tool})))));
    assert_eq!(st, 202);
    let mut all: Vec<(tokio::runtime::Runtime, Vec<(u16, Option<Reader>)>)> = vec![];
    for h in handles {
        if let Ok(x) = h.join() {
            all.push(x);
        } else {
            out.panicked.push(0);
        }
    }
    // the run is over once a subscriber that attaches now is handed `session_ended` by the history
    let rt = new_rt();
    let mut over = false;
    while !over && Instant::now() < deadline {
        if snap.exists() {
            let resp = rt.block_on(async { app.clone().oneshot(req("GET", &format!("/sessions/{id}/events"), None)).await.expect("infallible") });
            if resp.status().as_u16() == 200 {
                let mut rd = Reader::new(resp);
                rd.drain(&rt, 300, Kind::Session, None, &id);
                over = rd.terminal;
            }
        }
        if !over {
            std::thread::sleep(Duration::from_millis(20));
        }
    }
    // let the runtime finish the run task (append_run_ended etc.) before the store is read
    std::thread::sleep(Duration::from_millis(50));
    out.truth = stream_frames(&data, &id, false).into_iter().map(|(s, _)| s).collect();
    out.truth_ids = stream_ids(&data, &id, false);
    out.complete = over && out.panicked.is_empty();
    let last = out.truth.last().cloned();
    for (art, got) in all {
        for (st, rd) in got {
            match rd {
                Some(mut rd) => {
                    // generous: elapses only when the server owes frames it will never send
                    rd.drain(&art, 3000, Kind::Session, last, &id);
                    out.delivered_ids.push(rd.ids);
                    out.delivered.push((st, rd.seqs));
                    out.foreign.push(rd.foreign);
                }
                None => {
                    out.delivered_ids.push(vec![]);
                    out.delivered.push((st, vec![]));
                    out.foreign.push(0);
                }
            }
            out.marks.push(vec![]);
        }
        drop(art);
    }
    drop(main_rt);
    out
}

/// EVENT_CHANNEL_CAPACITY of the stream kind's broadcast channel, read from the source the harness was built against
fn channel_capacity(repo: &Path, kind: Kind) -> usize {
    let rel = match kind {
        Kind::Session => "crates/ripd/src/runner.rs",
        Kind::Task => "crates/ripd/src/tasks/mod.rs",
        Kind::Thread => "crates/ripd/src/continuities.rs",
    };
    let text = std::fs::read_to_string(repo.join(rel)).unwrap_or_default();
    let key = "const EVENT_CHANNEL_CAPACITY: usize =";
    text.find(key)
        .and_then(|i| {
            let rest = &text[i + key.len()..];
            let end = rest.find(';')?;
            rest[..end].trim().replace('_', "").parse::<usize>().ok()
        })
        .unwrap_or(16_384)
}

/// The signature of a receiver that overflowed (tokio broadcast: `RecvError::Lagged`) whose handler did not refill and
/// was read only after the producer stopped: ascending, no duplicate, exactly ONE gap, and what follows the gap is
/// exactly the last `cap` frames of the stream (the receiver resumes at the oldest frame the channel still holds).
/// A frame lost at the join (S8) does not look like this unless the stream is longer than the capacity and the lost
/// frame happens to be frame n-cap-1.
fn is_lag_signature(seqs: &[u64], n: u64, cap: usize) -> bool {
    if n as usize <= cap || seqs.is_empty() || !seqs.windows(2).all(|w| w[0] < w[1]) || seqs.last() != Some(&(n - 1)) {
        return false;
    }
    // first element after each gap (a body that does not start at 0 has a leading gap)
    let mut resume: Vec<u64> = seqs.windows(2).filter(|w| w[1] != w[0] + 1).map(|w| w[1]).collect();
    if seqs[0] != 0 {
        resume.insert(0, seqs[0]);
    }
    // tokio resumes at the oldest retained slot: capacity or capacity-1 frames before the end
    resume.len() == 1 && ((n - resume[0]) as usize == cap || (n - resume[0]) as usize + 1 == cap)
}

/// independent oracle: what the property says, on the implementation alone
fn oracle(c: &Case, o: &Outcome, cap: usize) -> Option<(String, String)> {
    if !o.panicked.is_empty() {
        return Some((format!("actor(s) {:?} panicked", o.panicked), "panic".into()));
    }
    let n = o.truth.len() as u64;
    let want: Vec<u64> = (0..n).collect();
    if o.truth != want {
        // what the producer recorded is not numbered 0,1,2,..: either two producers overtook each other (the numbers are a
        // permutation) or a frame did not consume its number / consumed two (a number twice, a number skipped)
        let dup = o.truth.iter().collect::<BTreeSet<_>>().len() != o.truth.len();
        let shown = &o.truth[..o.truth.len().min(40)];
        return Some((
            format!("{} stream ({}) as recorded in events.jsonl is not numbered 0..n-1{}: {:?}{}", c.kind.name(), c.load.label(), if dup { " (a seq number is carried by two frames: a replaying subscriber sees it twice, a live subscriber's `seq <= last` filter drops the second frame)" } else { "" }, shown, if o.truth.len() > 40 { " .." } else { "" }),
            "truth_not_contiguous".into(),
        ));
    }
    for (i, fo) in o.foreign.iter().enumerate() {
        if *fo > 0 {
            return Some((format!("{} stream, subscriber {}: {} frame(s) of ANOTHER stream in the body (seqs {:?})", c.kind.name(), i + 1, fo, o.delivered[i].1), "foreign_frame_delivered".into()));
        }
    }
    // mid-run reads: at the moment of its j-th read subscriber i must have received every frame published so far
    // (the theorem's `published <= k`), frames that were in the stream before the case started included
    {
        let total_pubs = o.events.iter().filter(|e| **e == Ev::Pub).count();
        let pre = o.truth.len().saturating_sub(total_pubs);
        let mut pubs = 0usize;
        let mut nth: BTreeMap<usize, usize> = BTreeMap::new();
        // (a probing small-channel case reads while the producer may be inside its emit: such a read cannot refill yet)
        if o.in_flight == 0 && !o.deadlock && !(c.probe && c.cap > 0) {
            for e in &o.events {
                match e {
                    Ev::Pub => pubs += 1,
                    Ev::Drain(i) => {
                        let j = *nth.entry(*i).or_insert(0);
                        nth.insert(*i, j + 1);
                        if let Some(got) = o.marks.get(*i - 1).and_then(|m| m.get(j)) {
                            if *got < pre + pubs {
                                return Some((
                                    format!("{} stream, subscriber {}: read #{} returned {} frames although {} had been published (and recorded) by then", c.kind.name(), i, j + 1, got, pre + pubs),
                                    "published_frame_not_available_to_reader".into(),
                                ));
                            }
                        }
                    }
                    _ => {}
                }
            }
        }
    }
    for (i, (st, seqs)) in o.delivered.iter().enumerate() {
        if *st != 200 {
            // a subscriber that attached before the stream exists may be refused (task id unknown); that is not a delivery
            continue;
        }
        if !o.complete {
            // the producer was cut short (overloaded machine / scheduler gave up): `truth` may be a strict prefix of the
            // stream, so only what holds at EVERY moment is checked: the body is 0..k-1, once each, ascending
            let k = seqs.len() as u64;
            if *seqs != (0..k).collect::<Vec<u64>>() {
                return Some((format!("{} stream, subscriber {}: body {:?} is not a gap-free ascending prefix from seq 0", c.kind.name(), i + 1, seqs), "body_not_a_prefix".into()));
            }
            continue;
        }
        if *seqs != want && is_lag_signature(seqs, n, cap) {
            let first_missing = (0..n).find(|s| seqs.binary_search(s).is_err()).unwrap_or(0);
            return Some((
                format!(
                    "{} stream of {} frames, subscriber {} (attached early, read late): {} frames from seq {} on were skipped silently - the receiver overflowed the {}-frame channel (RecvError::Lagged) and the handler's recovery did not deliver them (the history was not re-read, or a frame emitted while it recovered is in neither the re-read history nor the receiver it carried on with); body = 0..{} then the last {} frames",
                    c.kind.name(), n, i + 1, n as usize - seqs.len(), first_missing, cap, first_missing, n - first_missing - (n - seqs.len() as u64)
                ),
                // the class names the capacity: the known finding is "lag beyond 16384 pending frames"; the same loss with
                // a smaller channel is a different (unknown) class
                format!("frames_skipped_after_lag_cap{cap}"),
            ));
        }
        if *seqs != want {
            let set: BTreeSet<u64> = seqs.iter().cloned().collect();
            let missing: Vec<u64> = want.iter().cloned().filter(|s| !set.contains(s)).collect();
            let dup = seqs.iter().collect::<BTreeSet<_>>().len() != seqs.len();
            let sorted = seqs.windows(2).all(|w| w[0] < w[1]);
            let class = if !missing.is_empty() {
                "frame_missing_at_join"
            } else if dup {
                "frame_delivered_twice"
            } else if !sorted {
                "frames_out_of_order"
            } else {
                "unexpected_frames"
            };
            return Some((
                format!(
                    "{} stream, subscriber {}: received {} frames {:?}{}, stream has 0..{} ({} missing: {:?}{})",
                    c.kind.name(),
                    i + 1,
                    seqs.len(),
                    &seqs[..seqs.len().min(24)],
                    if seqs.len() > 24 { " .." } else { "" },
                    n,
                    missing.len(),
                    &missing[..missing.len().min(24)],
                    if missing.len() > 24 { " .." } else { "" }
                ),
                class.into(),
            ));
        }
        // the same FRAMES, not only the same numbers: body = the log's frames of this stream, each once, in the log's order
        // (so any two subscribers agree with each other as well)
        if !o.truth_ids.is_empty() && o.delivered_ids.get(i).map(|d| !d.is_empty() && *d != o.truth_ids).unwrap_or(false) {
            let d = &o.delivered_ids[i];
            let at = d.iter().zip(o.truth_ids.iter()).position(|(a, b)| a != b).unwrap_or(d.len().min(o.truth_ids.len()));
            return Some((format!("{} stream, subscriber {}: the body's seqs are 0..{} but its frame #{} is not frame #{} of the log (ids differ)", c.kind.name(), i + 1, n, at, at), "frame_identity_mismatch".into()));
        }
    }
    None
}

fn coq_case(c: &Case, o: &Outcome) -> String {
    // order observed on the real code: does the first Pub precede the first Rec?
    let first_pub = o.events.iter().position(|e| *e == Ev::Pub);
    let first_rec = o.events.iter().position(|e| *e == Ev::Rec);
    let pub_first = match (first_pub, first_rec) {
        (Some(p), Some(r)) => p < r,
        _ => false,
    };
    let single: Vec<Ev> = model_events(o).into_iter().filter(|e| !matches!(e, Ev::MChoose(_) | Ev::MRec(_) | Ev::MPub(_))).collect();
    let evs = coq_list(&single, |e| match e {
        Ev::Pub | Ev::Rec => "AP".to_string(),
        Ev::Sub(i) | Ev::Snap(i) => format!("(AS {})", coq_nat(*i as u64 - 1)),
        Ev::Oth => "AO".to_string(),
        Ev::Drain(i) | Ev::Resume(i) => format!("(AS {})", coq_nat(*i as u64 - 1)),
        Ev::MChoose(_) | Ev::MRec(_) | Ev::MPub(_) => unreachable!(),
    });
    let mut expect = vec![];
    for (st, seqs) in &o.delivered {
        expect.push(if *st == 200 { 1 } else { 0 });
        enc_list(&mut expect, seqs);
    }
    format!(
        "{{| c_kind := {}; c_porder := {}; c_n := {}; c_subs := {}; c_sched := {}; c_expect := {}; c_lagcap := {} |}}",
        c.kind.code(),
        if pub_first { "PubThenRec" } else { "RecThenPub" },
        coq_nat(o.truth.len() as u64),
        coq_nat(c.subs as u64),
        evs,
        coq_list_n(&expect),
        coq_nat(c.cap as u64)
    )
}

/// frames that were already in the stream when the case's actors started (thread kind: the created
/// frame and whatever earlier cases appended) were recorded and published before any subscriber step
fn model_events(o: &Outcome) -> Vec<Ev> {
    let pubs = o.events.iter().filter(|e| **e == Ev::Pub).count();
    let pre = o.truth.len().saturating_sub(pubs);
    let mut v = vec![];
    for _ in 0..pre {
        v.push(Ev::Rec);
        v.push(Ev::Pub);
    }
    v.extend(o.events.iter().cloned());
    v
}
/// the observed events must account for every frame for the model schedule to be meaningful
fn events_wellformed(o: &Outcome) -> bool {
    let pubs = o.events.iter().filter(|e| **e == Ev::Pub).count();
    let recs = o.events.iter().filter(|e| **e == Ev::Rec).count();
    pubs == recs && pubs <= o.truth.len() && (pubs == o.truth.len() || o.pre_existing) && o.in_flight == 0 && !o.deadlock && o.complete
}

fn corpus(repo_root: &Path) -> Vec<Case> {
    let mut v = vec![];
    let dir = repo_root.join("corpus").join("C06");
    if let Ok(rd) = std::fs::read_dir(&dir) {
        let mut files: Vec<PathBuf> = rd.filter_map(|e| e.ok().map(|e| e.path())).filter(|p| p.extension().map(|e| e == "json").unwrap_or(false)).collect();
        files.sort();
        for f in files {
            if let Ok(t) = std::fs::read_to_string(&f) {
                if let Ok(j) = serde_json::from_str::<serde_json::Value>(&t) {
                    let cj = j.get("case").cloned().unwrap_or(j);
                    if let Some(c) = case_from_json(&cj) {
                        v.push(c);
                    }
                }
            }
        }
    }
    v
}

/// the producer's point trace for a load (dry run without subscribers)
fn producer_points(kind: Kind, load: &Load) -> Vec<&'static str> {
    let c = Case { kind, load: load.clone(), subs: 0, sched: vec![], others: 0, reads: 0, loss: 0, probe: false, cap: 0 };
    ripd::verif::set_event_channel_capacity(0);
    let mut env = Env::new(&c);
    run_case(&mut env, &c).producer_trace
}

/// schedule prefix of a matrix case: the producer runs `start` steps (the run exists from there on), subscriber 1 attaches
/// and then reads after every `stride` producer steps; each `(sub, a, d)` of `mids` subscribes when the producer has made
/// `a` steps and snapshots `d` producer steps later; subscriber `late` (0 = none) attaches after the producer finished
fn agent_sched(start: usize, t: usize, early: bool, mids: &[(usize, usize, usize)], late: usize, reads: usize, stride: usize) -> Vec<usize> {
    let mut s = vec![0; start];
    if early {
        s.extend([1, 1]);
    }
    let mut reads_left = reads;
    for pos in start..=(t + 2) {
        for (sub, a_, d) in mids {
            if pos == *a_ {
                s.push(*sub);
            }
            if pos == *a_ + *d {
                s.push(*sub);
            }
        }
        if early && reads_left > 0 && stride > 0 && pos > start && (pos - start) % stride == 0 {
            s.push(1);
            reads_left -= 1;
        }
        s.push(0);
    }
    if late > 0 {
        s.extend([late, late]);
    }
    s
}

fn main() {
    // the run's configuration comes from build_app and from the variables the matrix sets: nothing from the caller's environment
    for (k, _) in std::env::vars() {
        if k.starts_with("RIP_") {
            std::env::remove_var(&k);
        }
    }
    std::env::set_var("NO_PROXY", "127.0.0.1,localhost");
    let home = Scratch::new("c06home");
    std::env::set_var("HOME", home.path());
    let a = parse_args();
    let mut res = RunResult::new("C06", &a);
    res.rule = "case = (stream kind, load, number of subscribers, schedule prefix over {0 = producer, i = subscriber i, 9 = producer of ANOTHER thread on the shared continuity channel}); the schedule is forced on the real axum router through the rip_verif points (record/publish in the emitters and continuity appends incl. the file-system steps of log and sidecar, subscribe/snapshot in the handlers); enumeration per load: every pair (a, b) of relevant producer positions with a <= b (b at most 4 positions after a in quick, 7 in thorough, or the end of the run): the subscriber subscribes after a producer steps and snapshots after b; plus position 0 (before the stream starts) and after the run ended; plus seeded random interleavings of 2-4 concurrent subscribers; plus fast consumers that read their body 1-6 times WHILE the stream is produced (point c06.read; each read must return every frame published so far); thread kind in addition: a foreign producer (POST /threads/{id}/branch) before the attach / between subscribe and snapshot / randomly interleaved; session / task kinds in addition: attach AFTER the last frame, inside the snapshot write at the end of the run (producer parked at snap.created / snap.written / snap.flushed; the subscriber's snapshot step is granted although the buffer lock is believed held); thread kind in addition: the sidecar cache is deleted (whole directory / the thread's file) after a producer steps, the producer goes on for d steps, then a subscriber attaches; hook-free: one long `bash seq 1 k` session on a multi-thread runtime with subscribers attaching before the input, in the middle of the run and 15 times back to back from the moment the snapshot file appears (oracle only); corpus first (S8 witnesses, the 18007-frame lag witness, end-of-run attach, cache loss); non-trivial = the subscriber attaches strictly inside the run (after the first and before the last producer record/publish step)".into();
    let verif_root = std::env::current_exe().ok().and_then(|p| p.ancestors().nth(4).map(|x| x.to_path_buf())).unwrap_or_else(|| PathBuf::from("/verif"));
    let mut cases: Vec<Case> = vec![];
    if let Some(rp) = &a.replay {
        if let Ok(t) = std::fs::read_to_string(rp) {
            if let Ok(j) = serde_json::from_str::<serde_json::Value>(&t) {
                let cj = j.get("case").cloned().unwrap_or(j);
                if let Some(c) = case_from_json(&cj) {
                    cases.push(c);
                }
            }
        }
    }
    cases.extend(corpus(&verif_root));
    let n_corpus = cases.len();

    let thorough = a.thorough();
    let mut loads: Vec<(Kind, Load)> = vec![
        (Kind::Session, Load::Prompt),
        (Kind::Session, Load::Checkpoint),
        (Kind::Task, Load::TaskCmd(3)),
        (Kind::Task, Load::TaskCmd(1)),
        (Kind::Thread, Load::Messages(1)),
    ];
    if thorough {
        loads.extend(vec![
            (Kind::Session, Load::Tool),
            (Kind::Session, Load::Provider(2)),
            (Kind::Session, Load::Provider(14)),
            (Kind::Task, Load::TaskCmd(0)),
            (Kind::Task, Load::TaskCmd(2)),
            (Kind::Thread, Load::Messages(2)),
            (Kind::Thread, Load::Messages(4)),
            // (last: the first to go when the time budget is reached) every record / publish attach position of a captured
            // stateless run with a tool call
            (Kind::Session, Load::Agent(agent::Conf { capture: 1, stateless: true, tools: 1, choice: 0, outcome: 0, followup: true, parallel: false, via_thread: false }.bits())),
        ]);
    }
    let repo_root = a.repo();
    let mut r = Rng::new(a.seed);
    // ---- hook-free: attach around the end of a long run on a multi-thread runtime
    // (20 000 lines: more frames than the channel holds - the subscribers attached before / during the run lag and refill)
    for k in if thorough { vec![6000u64, 3000, 1500, 20000] } else { vec![3000u64] } {
        cases.push(Case { kind: Kind::Session, load: Load::EndRace(k), subs: 5, sched: vec![], others: 0, reads: 0, loss: 0, probe: false, cap: 0 });
    }
    // ---- THE REBUILD FAMILY (thread kind): a reader's `try_replay` is refused although the store is healthy (torn read:
    // loss 4 / 5) or because the sidecar's last line is cut (loss 3) or the file is gone (loss 2); that reader (subscriber 1)
    // goes to the log and rebuilds the sidecar, and the schedule stops it INSIDE `rebuild_best_effort` (`r` grants: 2 = at
    // cache.rebuild.created, 3 = after the first line's body, ...), while the producer completes its next append (log,
    // sidecar, broadcast) and subscriber 2 attaches (before that append / after it / subscribing before and reading the
    // history after); then the rebuild finishes and subscriber 3 attaches.  Every subscriber must get the log's stream.
    {
        let mut n_rebuild = 0;
        for load in [Load::Messages(2), Load::BigMessages(2)] {
            let trace = producer_points(Kind::Thread, &load);
            // adv[j]: after that many grants the producer has completed j + 1 appends and left the seq mutex
            let adv: Vec<usize> = trace.iter().enumerate().filter(|(_, p)| **p == "cont.advanced").map(|(i, _)| i + 2).collect();
            if adv.len() < 3 {
                res.notes.push(format!("rebuild family: {} appends in the dry run of {} (skipped)", adv.len(), load.label()));
                continue;
            }
            let big = matches!(load, Load::BigMessages(_));
            let js: Vec<usize> = if thorough { (0..adv.len() - 1).collect() } else if big { vec![adv.len() - 2] } else { vec![1, adv.len() - 2] };
            for j in js {
                let frames = j + 2; // what the rebuilding reader finds in the log
                let d = adv[j + 1] - adv[j];
                let mut rs: Vec<usize> = vec![2, 3, 2 + frames, 2 + 2 * frames + 1];
                if thorough {
                    rs.extend([4, 2 + 2 * frames - 1, 2 + 2 * frames, 2 + 2 * frames + 2, 2 + 2 * frames + 4]);
                }
                let losses: &[usize] = if thorough { &[2, 3, 4, 5] } else if big { &[4] } else { &[3, 4] };
                for r_ in &rs {
                    for (il, loss) in losses.iter().enumerate() {
                        for mode in 0..3usize {
                            // quick: a covering half of a small grid; thorough: a seeded quarter of the full grid (~650 cases)
                            if !thorough && (r_ + il + mode) % 2 == 1 && !(big && mode == 0) {
                                continue;
                            }
                            for whole in [false, true] {
                                if whole && !thorough {
                                    continue;
                                }
                                if thorough && r.below(4) != 0 {
                                    continue;
                                }
                                let d = if whole { trace.len() + 2 - adv[j] } else { d };
                                let mut s = vec![0; adv[j]];
                                s.push(LOSS);
                                s.extend(vec![1; *r_]);
                                match mode {
                                    0 => {
                                        s.extend([2, 2, 2, 2]);
                                        s.extend(vec![0; d]);
                                    }
                                    1 => {
                                        s.extend(vec![0; d]);
                                        s.extend([2, 2, 2, 2]);
                                    }
                                    _ => {
                                        s.push(2);
                                        s.extend(vec![0; d]);
                                        s.extend([2, 2, 2]);
                                    }
                                }
                                s.extend(vec![1; 2 * frames + 20]);
                                s.extend([3, 3, 3, 3]);
                                cases.push(Case { kind: Kind::Thread, load: load.clone(), subs: 3, sched: s, others: 0, reads: 0, loss: *loss, probe: false, cap: 0 });
                                n_rebuild += 1;
                            }
                        }
                    }
                }
            }
        }
        res.notes.push(format!("thread: {n_rebuild} rebuild-family cases (a reader parked inside the sidecar rebuild while the producer appends and others attach)"));
    }

    // ---- THE CONFIGURATION MATRIX: provider-backed session runs under every switch that changes which frames a run emits
    // (agent::Conf), subscribers attached before the run, reading along, attaching inside it and after it
    {
        for (name, how) in agent::switches_in_source(&repo_root) {
            match how {
                Some(h) => res.notes.push(format!("switch {name}: {h}")),
                None => res.notes.push(format!("switch {name}: found in crates/ripd/src, NOT in the harness's table (no case drives it)")),
            }
        }
        let confs = agent::confs(thorough);
        let mut n_matrix = 0;
        for conf in &confs {
            let load = Load::Agent(conf.bits());
            let trace = producer_points(Kind::Session, &load);
            let t = trace.len();
            // the run exists (its session id is known) once the producer stands in front of its first frame
            let start = if conf.via_thread { trace.iter().position(|p| *p == "sess.before_emit").map(|i| i + 1).unwrap_or(0) } else { 0 };
            let recs: Vec<usize> = trace.iter().enumerate().filter(|(_, p)| **p == "sess.recorded").map(|(i, _)| i + 1).collect();
            if recs.len() < 2 {
                res.notes.push(format!("{}: the dry run produced {} frames (skipped)", load.label(), recs.len()));
                continue;
            }
            let at = |f: usize| recs[f.min(recs.len() - 1)];
            // (1) attached before the first frame and reading along; one joins between record and publish of frame 1 (the
            // frame a request capture puts in front of the first request); one joins after the end
            let stride = (t / 5).max(1);
            cases.push(Case { kind: Kind::Session, load: load.clone(), subs: 3, sched: agent_sched(start, t, true, &[(2, at(1), 1)], 3, 3, stride), others: 0, reads: 3, loss: 0, probe: false, cap: 0 });
            // (2) two subscribers join inside the run (at the frame after the capture frame; two thirds in, snapshot one frame
            // later), a third after the end; nobody reads before the end
            cases.push(Case { kind: Kind::Session, load: load.clone(), subs: 3, sched: agent_sched(start, t, false, &[(1, at(2), 0), (2, at(recs.len() * 2 / 3), 9)], 3, 0, 0), others: 0, reads: 0, loss: 0, probe: false, cap: 0 });
            n_matrix += 2;
            for _ in 0..(if thorough { 2 } else { 0 }) {
                let a1 = r.range(start as u64, t as u64) as usize;
                let a2 = r.range(start as u64, t as u64) as usize;
                let reads = r.range(0, 3) as usize;
                cases.push(Case { kind: Kind::Session, load: load.clone(), subs: 4, sched: agent_sched(start, t, true, &[(2, a1, r.range(0, 12) as usize), (3, a2, r.range(0, 3) as usize)], 4, reads, r.range(1, 30) as usize), others: 0, reads, loss: 0, probe: false, cap: 0 });
                n_matrix += 1;
            }
            // small channels: the early subscriber lags behind the run and refills
            if thorough || conf.tools == 1 {
                cases.push(Case { kind: Kind::Session, load: load.clone(), subs: 2, sched: agent_sched(start, t, true, &[(2, at(3), 2)], 0, 2, (t / 3).max(1)), others: 0, reads: 2, loss: 0, probe: false, cap: 2 });
                n_matrix += 1;
            }
        }
        res.notes.push(format!("configuration matrix: {} configurations, {} cases", confs.len(), n_matrix));
    }
    // ---- a task stream longer than its channel (2 x 8500 frames through the real TaskEmitter): the subscriber attaches
    // first and reads last, so its receiver lags and the task handler has to refill from the history
    if thorough {
        cases.push(Case { kind: Kind::Task, load: Load::TwoProducers(8500), subs: 1, sched: vec![1, 1], others: 0, reads: 0, loss: 0, probe: false, cap: 0 });
    }
    // ---- a thread subscriber lags because of OTHER threads' frames (the continuity channel is shared): it attaches, the
    // thread gets its message (3 live frames), then 8300 branch calls put 16 600 foreign frames on the channel, then it
    // reads: its own 3 frames were pushed out of the receiver and must come back from the history
    if thorough {
        let mut s = vec![1, 1];
        s.extend(vec![0; 160]);
        cases.push(Case { kind: Kind::Thread, load: Load::Messages(1), subs: 1, sched: s, others: 8300, reads: 0, loss: 0, probe: false, cap: 0 });
    }
    // ---- two producers on one task stream (stdout pump / stderr pump): one emit = 9 points
    // (before_emit, seq_chosen, recorded, sent, log.before_lock, log.locked, log.body_written, log.nl_written, log.flushed)
    {
        let kind = Kind::Task;
        let load = Load::TwoProducers(2);
        // producer A advances `a` steps (a = 2: parked right after taking its seq number), then producer B tries to run
        // `b` steps (a whole emit and more), then the subscriber attaches, then everybody finishes
        let a_steps: Vec<usize> = if thorough { (0..=12).collect() } else { vec![0, 1, 2, 3, 6] };
        let b_steps: Vec<usize> = if thorough { vec![0, 1, 2, 3, 4, 5, 9, 10, 11, 12, 19] } else { vec![0, 3, 10, 19] };
        for a_ in &a_steps {
            for b_ in &b_steps {
                let mut s = vec![0; *a_];
                s.extend(vec![PROD_B; *b_]);
                s.extend([1, 1]);
                cases.push(Case { kind, load: load.clone(), subs: 1, sched: s, others: 0, reads: 0, loss: 0, probe: false, cap: 0 });
                // the subscriber is attached before both and reads as it goes
                let mut s = vec![1, 1];
                s.extend(vec![0; *a_]);
                s.extend(vec![PROD_B; *b_]);
                s.push(1);
                s.extend(vec![0; 9]);
                s.push(1);
                cases.push(Case { kind, load: load.clone(), subs: 1, sched: s, others: 0, reads: 2, loss: 0, probe: false, cap: 0 });
            }
        }
        let n_rand = if thorough { 300 } else { 24 };
        for _ in 0..n_rand {
            let subs = r.range(1, 3) as usize;
            let len = r.range(4, 60) as usize;
            let mut s = vec![];
            for _ in 0..len {
                s.push(match r.range(0, 9) {
                    0..=3 => 0,
                    4..=6 => PROD_B,
                    _ => r.range(1, subs as u64) as usize,
                });
            }
            cases.push(Case { kind, load: Load::TwoProducers(r.range(1, 3)), subs, sched: s, others: 0, reads: r.range(0, 2) as usize, loss: 0, probe: false, cap: 0 });
        }
    }

    for (kind, load) in &loads {
        let trace = producer_points(*kind, load);
        let t = trace.len();
        // positions worth attaching at: the producer parked at a point of this stream kind's emitter
        // (before / between / after publish and record), plus "before the producer starts" and "after it finished"
        let relevant = |p: &str| match kind {
            // (a provider-backed run has 12 - 50 frames: the positions between record and publish and after the publish)
            Kind::Session if matches!(load, Load::Agent(_)) => p == "sess.recorded" || p == "sess.sent",
            Kind::Session => p.starts_with("sess."),
            Kind::Task => p.starts_with("task."),
            // incl. the file-system steps of the truth log and of the sidecar `replay_events` reads (a snapshot taken
            // between the body and the newline of the line being appended must still give a consistent history)
            Kind::Thread => p.starts_with("cont.") || p.starts_with("log.") || p.starts_with("cache.side."),
        };
        let mut pos: Vec<usize> = vec![0];
        pos.extend(trace.iter().enumerate().filter(|(_, p)| relevant(p)).map(|(i, _)| i + 1));
        pos.push(t + 1);
        res.notes.push(format!("{} {}: {} producer points, {} attach positions", kind.name(), load.label(), t, pos.len()));
        let reach = if matches!(load, Load::Agent(_)) { 1 } else if thorough { 7 } else { 4 };
        for (ia, a_) in pos.iter().enumerate() {
            for ib in ia..pos.len() {
                // gap states: snapshot while the producer is at the same position, at one of the next few, or finished
                if ib - ia > reach && ib != pos.len() - 1 {
                    continue;
                }
                let d = pos[ib] - a_;
                let mut s = vec![0; *a_];
                s.push(1);
                s.extend(vec![0; d]);
                s.push(1);
                cases.push(Case { kind: *kind, load: load.clone(), subs: 1, sched: s, others: 0, reads: 0, loss: 0, probe: false, cap: 0 });
            }
        }
        // several concurrent subscribers, random interleavings
        let n_multi = if thorough { 60 } else { 8 };
        for _ in 0..n_multi {
            let subs = r.range(2, 4) as usize;
            let len = r.range(2, (t as u64 + 6).max(3)) as usize;
            let mut s = vec![];
            for _ in 0..len {
                s.push(if r.chance(3, 5) { 0 } else { r.range(1, subs as u64) as usize });
            }
            let reads = r.range(0, 3) as usize;
            cases.push(Case { kind: *kind, load: load.clone(), subs, sched: s, others: 0, reads, loss: 0, probe: false, cap: 0 });
        }
        // a client that keeps reading while the stream is produced: attach at position a, then read after every
        // `stride` producer steps
        for (ia, a_) in pos.iter().enumerate() {
            if !thorough && ia % 3 != 0 {
                continue;
            }
            let stride = 1 + (ia % 4);
            let mut s = vec![0; *a_];
            s.extend([1, 1]);
            let reads = 6;
            for _ in 0..reads {
                s.extend(vec![0; stride]);
                s.push(1);
            }
            cases.push(Case { kind: *kind, load: load.clone(), subs: 1, sched: s, others: 0, reads, loss: 0, probe: false, cap: 0 });
        }
        // SMALL CHANNELS: the event channels hold 1, 2 or 4 frames, so a subscriber that does not read between two frames
        // LAGS and the handler must refill from the history: attach at position a, snapshot d positions later, then read
        // after every `stride` producer steps (or not at all before the end)
        {
            let caps: &[usize] = if thorough { &[1, 2, 4] } else { &[1, 2] };
            let mut n_small = 0;
            for (ic, cap) in caps.iter().enumerate() {
                for (ia, a_) in pos.iter().enumerate() {
                    if !thorough && (ia + ic) % 3 != 0 {
                        continue;
                    }
                    let d = if ia + 1 < pos.len() && (ia + ic) % 2 == 0 { pos[ia + 1] - a_ } else { 0 };
                    let stride = [0usize, 3, 7, 1][(ia + ic) % 4];
                    let mut s = vec![0; *a_];
                    s.push(1);
                    s.extend(vec![0; d]);
                    s.push(1);
                    let mut reads = 0;
                    if stride > 0 {
                        reads = if thorough { 8 } else { 5 };
                        for _ in 0..reads {
                            s.extend(vec![0; stride]);
                            s.push(1);
                        }
                    }
                    let others = if *kind == Kind::Thread && (ia + ic) % 2 == 1 { 1 } else { 0 };
                    if others > 0 {
                        // foreign frames fill the small channel as well
                        let at = s.len().min(*a_ + 2);
                        for _ in 0..40 {
                            s.insert(at, OTHER);
                        }
                    }
                    // every other reading case: the reads are granted even while the producer is inside its emit (holding the
                    // buffer lock): the refill cannot get the history at that moment and must come back for it
                    let probe = reads > 0 && *kind != Kind::Thread && (ia / 2 + ic) % 2 == 0;
                    cases.push(Case { kind: *kind, load: load.clone(), subs: 1, sched: s, others, reads, loss: 0, probe, cap: *cap });
                    n_small += 1;
                }
                // several subscribers, random interleavings, random reads
                for _ in 0..(if thorough { 20 } else { 3 }) {
                    let subs = r.range(2, 3) as usize;
                    let len = r.range(4, (t as u64 + 10).max(5)) as usize;
                    let mut s = vec![];
                    for _ in 0..len {
                        s.push(if r.chance(3, 5) { 0 } else { r.range(1, subs as u64) as usize });
                    }
                    cases.push(Case { kind: *kind, load: load.clone(), subs, sched: s, others: 0, reads: r.range(0, 3) as usize, loss: 0, probe: false, cap: *cap });
                    n_small += 1;
                }
            }
            // THE WINDOW of the lag recovery: the subscriber attaches first and does not read while the producer emits more
            // frames than the channel holds; then it reads (recv says Lagged, the history is re-read, the handler stops at
            // `sse.live.refilled`); the producer records and publishes 1 frame (or capacity + 1 frames: the receiver lags
            // again) INSIDE the window; the subscriber moves on; everything finishes.  A frame emitted in the window is not
            // in the history that was re-read: it reaches the client only through the receiver that was subscribed before
            {
                let free: Vec<usize> = trace
                    .iter()
                    .enumerate()
                    .filter(|(_, p)| match kind {
                        Kind::Thread => **p == "cont.bcast",
                        _ => p.ends_with(".before_emit"),
                    })
                    .map(|(i, _)| i + 1)
                    .collect();
                let pubs_before = |x: usize| trace[..x.min(trace.len())].iter().filter(|p| **p == kind.pub_point()).count();
                let mut n_win = 0;
                for cap in caps {
                    let starts: Vec<usize> = free.iter().cloned().filter(|f| pubs_before(*f) >= cap + 1).collect();
                    let picks: Vec<usize> = if thorough || starts.len() <= 2 { starts.clone() } else { vec![starts[0], starts[starts.len() - 1]] };
                    for f in picks {
                        for in_window in [1usize, cap + 1] {
                            // the window closes at the first free position with `in_window` more frames published (or at the end)
                            let g = free.iter().cloned().find(|g| *g > f && pubs_before(*g) >= pubs_before(f) + in_window).unwrap_or(t + 1);
                            if pubs_before(g.min(t)) < pubs_before(f) + 1 {
                                continue;
                            }
                            let mut s = vec![1, 1, 1];
                            s.extend(vec![0; f]);
                            s.push(1);
                            s.extend(vec![0; g - f]);
                            s.push(1);
                            cases.push(Case { kind: *kind, load: load.clone(), subs: 1, sched: s, others: 0, reads: 1, loss: 0, probe: false, cap: *cap });
                            n_small += 1;
                            n_win += 1;
                        }
                    }
                }
                res.notes.push(format!("{} {}: {} lag-recovery window cases", kind.name(), load.label(), n_win));
            }
            // lagging AND the history busy: the subscriber attaches first and does not read while the producer emits
            // cap + 1 or more frames (its receiver overflows), then it reads while the producer is parked inside the emit
            // of the next frame (holding the buffer lock: the refill cannot have the history now and has to come back for
            // it), then everything finishes and it reads again
            if *kind != Kind::Thread {
                let recs: Vec<usize> = trace.iter().enumerate().filter(|(_, p)| **p == kind.rec_point()).map(|(i, _)| i + 1).collect();
                for cap in caps {
                    for (k, at) in recs.iter().enumerate() {
                        if k < cap + 1 {
                            continue;
                        }
                        let mut s = vec![1, 1];
                        s.extend(vec![0; *at]);
                        s.push(1);
                        cases.push(Case { kind: *kind, load: load.clone(), subs: 1, sched: s, others: 0, reads: 1, loss: 0, probe: true, cap: *cap });
                        n_small += 1;
                    }
                }
            }
            res.notes.push(format!("{} {}: {} small-channel cases (capacity {:?})", kind.name(), load.label(), n_small, caps));
        }
        // the END of the run: run_session / finalize_snapshot write the snapshot file from the history buffer after the last
        // frame (points snap.created / snap.written / snap.flushed inside rip_log::write_snapshot).  A subscriber that
        // attaches there is an "attach after the stream ended" subscriber and must get the whole history.
        if *kind != Kind::Thread {
            let at = |name: &str| trace.iter().position(|p| *p == name).map(|i| i + 1);
            let last_pub = trace.iter().rposition(|p| *p == kind.pub_point()).map(|i| i + 1);
            let mut ends: Vec<Vec<usize>> = vec![];
            for name in ["snap.created", "snap.written"] {
                if let Some(a_) = at(name) {
                    let mut s = vec![0; a_];
                    s.extend([1, 1]);
                    ends.push(s);
                }
            }
            if let (Some(a_), Some(b_)) = (last_pub, at("snap.flushed")) {
                let mut s = vec![0; a_];
                s.push(1);
                s.extend(vec![0; b_ - a_]);
                s.push(1);
                ends.push(s);
            }
            if thorough {
                if let (Some(a_), Some(b_)) = (at("snap.created"), at("snap.written")) {
                    let mut s = vec![0; a_];
                    s.push(1);
                    s.extend(vec![0; b_ - a_]);
                    s.push(1);
                    ends.push(s);
                }
                if let Some(a_) = at("snap.flushed") {
                    let mut s = vec![0; a_];
                    s.extend([1, 1]);
                    ends.push(s.clone());
                    s.extend([2, 2]);
                    ends.push(s);
                }
            }
            res.notes.push(format!("{} {}: {} end-of-run attach cases (inside the snapshot write)", kind.name(), load.label(), ends.len()));
            for s in ends {
                let subs = s.iter().cloned().max().unwrap_or(1).max(1);
                cases.push(Case { kind: *kind, load: load.clone(), subs, sched: s, others: 0, reads: 0, loss: 0, probe: true, cap: 0 });
            }
        }
        // thread kind: the sidecar cache (what replay_events, the handler's history source, prefers over the log) is LOST
        // while the store is alive: deleted after `a` producer steps, the producer goes on for `d` steps (appends re-create
        // the file holding only the newer frames), then the subscriber attaches (its whole handler in one go: its replay
        // rebuilds the cache, and a rebuild racing with an append is C04's subject, not this one's)
        if *kind == Kind::Thread {
            let step = if thorough { 2 } else { 7 };
            let ds: Vec<usize> = if thorough { vec![0, 1, 9, 25, 60, t + 1] } else { vec![0, 25, t + 1] };
            let mut n_loss = 0;
            for (ia, a_) in pos.iter().enumerate().step_by(step) {
                for (id, d) in ds.iter().enumerate() {
                    let mut s = vec![0; *a_];
                    s.push(LOSS);
                    s.extend(vec![0; *d]);
                    s.push(1);
                    cases.push(Case { kind: *kind, load: load.clone(), subs: 1, sched: s, others: 0, reads: 0, loss: 1 + (ia + id) % 2, probe: false, cap: 0 });
                    n_loss += 1;
                }
            }
            // a subscriber attached before the loss keeps reading, a second one attaches after it
            for a_ in pos.iter().step_by(step * 2) {
                let mut s = vec![1, 1];
                s.extend(vec![0; *a_]);
                s.push(LOSS);
                s.extend(vec![0; 30]);
                s.push(2);
                cases.push(Case { kind: *kind, load: load.clone(), subs: 2, sched: s, others: 0, reads: 0, loss: 1, probe: false, cap: 0 });
                n_loss += 1;
            }
            res.notes.push(format!("thread {}: {} cache-loss cases", load.label(), n_loss));
        }
        // thread kind: another thread's producer publishes on the shared continuity channel (the handler must drop
        // those frames; they sit in the receiver between the frames of this thread)
        if *kind == Kind::Thread {
            let step = if thorough { 1 } else { 3 };
            for a_ in pos.iter().step_by(step) {
                // the foreign frames arrive between subscribe and snapshot
                let mut s = vec![0; *a_];
                s.push(1);
                s.extend(vec![OTHER; 80]);
                s.push(1);
                cases.push(Case { kind: *kind, load: load.clone(), subs: 1, sched: s, others: 1, reads: 0, loss: 0, probe: false, cap: 0 });
                // one foreign thread before the attach, one inside the window, then the producer moves on before the snapshot
                let mut s = vec![OTHER; 30];
                s.extend(vec![0; *a_]);
                s.push(1);
                s.extend(vec![OTHER; 80]);
                s.extend(vec![0; 5]);
                s.push(1);
                cases.push(Case { kind: *kind, load: load.clone(), subs: 1, sched: s, others: 2, reads: 1, loss: 0, probe: false, cap: 0 });
            }
            for _ in 0..n_multi {
                let subs = r.range(1, 3) as usize;
                let len = r.range(4, (t as u64 + 40).max(5)) as usize;
                let mut s = vec![];
                for _ in 0..len {
                    s.push(match r.range(0, 9) {
                        0..=3 => 0,
                        4..=6 => OTHER,
                        _ => r.range(1, subs as u64) as usize,
                    });
                }
                cases.push(Case { kind: *kind, load: load.clone(), subs, sched: s, others: r.range(1, 2) as usize, reads: r.range(0, 2) as usize, loss: 0, probe: false, cap: 0 });
            }
        }
    }

    // ---- two producers on one THREAD, probing the continuity seq mutex (each probe costs one scheduler step timeout on
    // today's code, so only a few): producer 0 is parked inside its append (after `a` steps), PROD_B tries to append
    {
        let a_steps: Vec<usize> = if thorough { vec![2, 3, 8, 9, 20, 33, 34] } else { vec![2, 9, 34] };
        for a_ in a_steps {
            let mut s = vec![0; a_];
            s.extend(vec![PROD_B; 45]);
            s.extend([1, 1]);
            cases.push(Case { kind: Kind::Thread, load: Load::MessagesTwo, subs: 1, sched: s, others: 0, reads: 0, loss: 0, probe: false, cap: 0 });
        }
    }

    // `--only rebuild`: the rebuild family alone (development aid; the corpus stays in front)
    if a.extra.get("only").map(|v| v == "rebuild").unwrap_or(false) {
        let mut i = 0;
        cases.retain(|c| {
            i += 1;
            i <= n_corpus || (c.loss >= 2 && c.subs == 3)
        });
    }
    let mut w = CaseWriter::new(&a.out, "Model.Subscribe", "check_case", "model_obs", 200);
    let mut distinct = Distinct::default();
    let mut env_slot: Option<Env> = None;
    let mut rebuild_shrunk = false;
    let t0 = Instant::now();
    let budget = Duration::from_secs(if thorough { 1200 } else { 150 });
    let limit: usize = a.extra.get("limit").and_then(|v| v.parse().ok()).unwrap_or(usize::MAX);
    for (i, c) in cases.iter().enumerate() {
        if i >= limit {
            break;
        }
        if i >= n_corpus && t0.elapsed() > budget {
            res.notes.push(format!("time budget reached after {i} of {} cases", cases.len()));
            break;
        }
        let got = if let Load::EndRace(k) = c.load {
            env_slot = None;
            ripd::verif::set_event_channel_capacity(0);
            std::panic::catch_unwind(std::panic::AssertUnwindSafe(|| run_end_race(c, k)))
        } else {
            let e = env_for(&mut env_slot, c);
            std::panic::catch_unwind(std::panic::AssertUnwindSafe(|| run_case(e, c)))
        };
        res.evaluations += 1;
        res.bump(&format!("kind={}", c.kind.name()));
        res.bump(&format!("load={}", c.load.label()));
        res.bump(&format!("subs={}", c.subs));
        if c.others > 0 {
            res.bump(&format!("foreign_producer_calls={}", c.others));
        }
        if c.reads > 0 {
            res.bump("reads_while_producing");
        }
        if c.cap > 0 {
            res.bump(&format!("small_channel_cap={}", c.cap));
        }
        let o = match got {
            Err(_) => {
                Sched::uninstall();
                rip_kernel::verif::set_fail_hook(None);
                env_slot = None;
                res.impl_panics += 1;
                res.oracle_violations.push(OracleViolation { case_id: i as i64, what: "harness/implementation panicked while running the case".into(), class: "panic".into(), replay: case_json(c) });
                continue;
            }
            Ok(o) => o,
        };
        res.oracle_checks += 1;
        if a.extra.contains_key("debug") {
            eprintln!("t={:.1}s", t0.elapsed().as_secs_f64());
            eprintln!("case {i} {} {} subs={} sched={:?}\n   events={:?}\n   delivered={:?} marks={:?} truth={:?} in_flight={} deadlock={} ppoints={}", c.kind.name(), c.load.label(), c.subs, c.sched, o.events, o.delivered, o.marks, o.truth, o.in_flight, o.deadlock, o.producer_trace.len());
        }
        res.bump(&format!("frames={}", match o.truth.len() { 0..=3 => "1-3", 4..=6 => "4-6", 7..=12 => "7-12", _ => "13+" }));
        if o.in_flight > 0 || o.deadlock {
            res.bump("scheduler_in_flight_or_deadlock");
        }
        if !o.complete {
            res.bump("producer_incomplete(prefix oracle only)");
        }
        let attached_inside = {
            let first_p = o.events.iter().position(|e| matches!(e, Ev::Pub | Ev::Rec));
            let last_p = o.events.iter().rposition(|e| matches!(e, Ev::Pub | Ev::Rec));
            let sub = o.events.iter().position(|e| matches!(e, Ev::Sub(_)));
            matches!((first_p, last_p, sub), (Some(f), Some(l), Some(s)) if f < s && s < l)
        };
        if attached_inside {
            res.bump("attached_inside_run");
            distinct.add(&format!("{:?}|{:?}|{:?}", c.kind, c.load, o.events));
        }
        let cap_of = |c: &Case| if c.cap > 0 { c.cap } else { channel_capacity(&repo_root, c.kind) };
        if let Some((what, class)) = oracle(c, &o, cap_of(c)) {
            // shrink the schedule prefix while the same class keeps failing
            let base = c.clone();
            let cls = class.clone();
            // (the rebuild family's schedules are long and its violations shrink to the same witness: the first one is shrunk)
            let rebuild_shrink = c.loss >= 3 && c.sched.len() <= 400 && !std::mem::replace(&mut rebuild_shrunk, true);
            let sched = if (c.sched.len() <= 60 && c.loss < 3 || rebuild_shrink) && !class.starts_with("frames_skipped_after_lag") && !matches!(c.load, Load::EndRace(_)) {
                shrink_vec(c.sched.clone(), |s| {
                    let mut cc = base.clone();
                    cc.sched = s.to_vec();
                    let e = env_for(&mut env_slot, &cc);
                    let r = std::panic::catch_unwind(std::panic::AssertUnwindSafe(|| run_case(e, &cc)));
                    if r.is_err() {
                        Sched::uninstall();
                        env_slot = None;
                    }
                    r.ok().and_then(|o| oracle(&cc, &o, cap_of(&cc))).map(|f| f.1) == Some(cls.clone())
                })
            } else {
                c.sched.clone()
            };
            let mut cc = c.clone();
            cc.sched = sched;
            res.oracle_violations.push(OracleViolation { case_id: i as i64, what, class, replay: case_json(&cc) });
        }
        if !a.oracle_only() {
            if matches!(c.load, Load::EndRace(_)) {
                res.bump("not_compared_with_model(hook-free multi-thread run: no schedule observed)");
                res.bump(&format!("end_race_attaches={}", o.delivered.len()));
            } else if o.truth.len() > 4000 {
                // the lag witness: a stream longer than the channel capacity; the Coq side of this is c06_lag_refuted
                // (vm_compute over an 18 000-frame schedule is out of budget)
                res.bump("not_compared_with_model(stream longer than 4000 frames)");
            } else if events_wellformed(&o) {
                let id = w.push(coq_case(c, &o));
                if res.case_index.len() < 3000 {
                    res.case_index.insert(id.to_string(), case_json(c));
                }
            } else {
                res.bump("not_compared_with_model(events incomplete)");
            }
        }
        if res.samples.len() < 3 && attached_inside && o.truth.len() <= 40 {
            res.samples.push(json!({"case": case_json(c), "events": format!("{:?}", o.events), "delivered": o.delivered.iter().map(|d| d.1.clone()).collect::<Vec<_>>(), "frames": o.truth.len()}));
        }
    }
    w.flush();
    res.distinct_nontrivial = distinct.count();
    res.case_files = w.files.iter().map(|p| p.display().to_string()).collect();
    res.write(&a.out);
    println!(
        "c06: {} cases ({} corpus), {} distinct non-trivial, {} oracle violations, {} panics, {:.1}s",
        res.evaluations,
        n_corpus,
        res.distinct_nontrivial,
        res.oracle_violations.len(),
        res.impl_panics,
        t0.elapsed().as_secs_f64()
    );
}
