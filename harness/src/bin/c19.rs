//! C19 — secrets never reach frames, artifacts, caches, logs or diagnostics.
//!
//! Parent mode (default): generates scenarios (layered config files + environment + per-request
//! overrides + provider script), runs every scenario TWICE in a re-exec'd child process (environment
//! variables are process-global) with two different equal-length high-entropy canaries, and checks
//!   (i)  no canary form (raw core, base64 x3 alignments, hex) in any byte under the data dir, the
//!        workspace `.rip`, any HTTP/SSE response of the router, the child's stdout/stderr;
//!   (ii) the persisted bytes of the two runs are equal after canonicalisation;
//!   (+)  positive control: the canary DID reach the scripted provider's recorded request headers;
//!   (d)  the doctor summary reports presence + source only (recomputed independently).
//! The same observations (doctor summary, request headers/body as recorded by the provider, the
//! config-derived fields of the frames) are encoded as `list N` and compared in Coq with
//! Model/SecretFlow.v run on the same world (layers, env, overrides, outcome).
//!
//! Child mode (`--child <spec.json>`): builds the real router (`ripd::verif::build_app` with
//! `OpenResponsesConfig::from_env()` exactly as `serve` does) and drives it.
use rv::provider::{Recorded, Scripted, ScriptedProvider};
use rv::*;
use serde::{Deserialize, Serialize};
use serde_json::{json, Value};
use std::collections::BTreeMap;
use std::path::{Path, PathBuf};
use std::time::Duration;

// ------------------------------------------------------------------ scenario
#[derive(Clone, Serialize, Deserialize, Debug, PartialEq)]
enum KeySpec {
    Inline(String),
    Env(String),
}
#[derive(Clone, Serialize, Deserialize, Debug, Default)]
struct ProvSpec {
    id: String,
    endpoint: Option<String>,
    api_key: Option<KeySpec>,
    headers: Vec<(String, String)>,
}
/// slot = precedence: 0 global config.jsonc, 1 global config.json, 2 RIP_CONFIG, 3 outer rip.json,
/// 4 outer rip.jsonc, 5 workspace rip.json, 6 workspace rip.jsonc (find_project_configs collects jsonc before json per
/// directory and then REVERSES the whole list: inside a project directory rip.json is the lower layer, while in the
/// global directory config.jsonc is)
#[derive(Clone, Serialize, Deserialize, Debug, Default)]
struct Layer {
    slot: u8,
    providers: Vec<ProvSpec>,
    model: Option<String>,
    primary: Option<String>,
    stateless: Option<bool>,
    parallel: Option<bool>,
    followup: Option<String>,
    /// when set the file holds exactly this text (malformed configuration around a secret); such scenarios are
    /// oracle-only (the model has no malformed files)
    #[serde(default)]
    raw_text: Option<String>,
    /// write `roles.primary` in its object form {provider, model, variant} (same route string)
    #[serde(default)]
    primary_obj: bool,
    /// the file is valid JSON(C) of the WRONG SHAPE: one secret-bearing position of the first provider is
    /// mis-typed with the canary as the offending scalar (variant code: see `apply_misfit`)
    #[serde(default)]
    misfit: Option<u8>,
}
/// `rip run --provider P [--model M] [--stateless-history] [--parallel-tool-calls] [--followup-user-message F]`
#[derive(Clone, Serialize, Deserialize, Debug, Default)]
struct CliFlags {
    provider: String,
    model: Option<String>,
    stateless: bool,
    parallel: bool,
    followup: Option<String>,
}
impl CliFlags {
    fn args(&self) -> Vec<String> {
        let mut a = vec!["--provider".to_string(), self.provider.clone()];
        if let Some(m) = &self.model {
            a.extend(["--model".to_string(), m.clone()]);
        }
        if self.stateless {
            a.push("--stateless-history".into());
        }
        if self.parallel {
            a.push("--parallel-tool-calls".into());
        }
        if let Some(m) = &self.followup {
            a.extend(["--followup-user-message".to_string(), m.clone()]);
        }
        a
    }
    fn coq(&self) -> String {
        format!(
            "(Some (mkFlags {} {} {} {} {}))",
            if self.provider == "openai" { "POpenai" } else { "POpenrouter" },
            coq_ostr(&self.model),
            coq_bool(self.stateless),
            coq_bool(self.parallel),
            coq_ostr(&self.followup)
        )
    }
}
#[derive(Clone, Serialize, Deserialize, Debug, Default)]
struct Ovr {
    endpoint: Option<String>,
    model: Option<String>,
    stateless: Option<bool>,
    parallel: Option<bool>,
    followup: Option<String>,
}
/// outcome: 0 success, 1 http error echoing the body, 2 connection refused, 3 drop after headers,
/// 4 drop mid-stream, 5 malformed SSE (validation errors), 6 tool failure then completion,
/// 7 tool ok (ls) then http error echoing the follow-up body
#[derive(Clone, Serialize, Deserialize, Debug, Default)]
struct Scenario {
    layers: Vec<Layer>,
    env: Vec<(String, String)>,
    thread: bool,
    ovr: Option<Ovr>,
    outcome: u8,
    prompt: String,
    config_home: bool,
    /// channel label for the distribution histogram
    channel: String,
    /// run against the real `ripd` process (HTTP) instead of the in-process router
    #[serde(default)]
    real_authority: bool,
    /// not compared with the model (malformed files, secrets that cannot be sent): canary search + differential only
    #[serde(default)]
    oracle_only: bool,
    /// the secret cannot reach the provider in this scenario (positive control not applicable)
    #[serde(default)]
    secret_unsendable: bool,
    /// no run: only the diagnostic surface is exercised (model case = doctor summary only)
    #[serde(default)]
    doctor_only: bool,
    /// the diagnostic surface is the real `rip config doctor` (auto-spawned local authority whose stdout/stderr
    /// go to <data>/authority/authority.log), followed by GET /config/doctor on the authority it spawned
    #[serde(default)]
    cli: bool,
    /// (unused since the model has the JSON stage: whether the merged document fits the schema is decided by the model)
    #[serde(default)]
    misfit: Option<String>,
    /// after the run: POST /tasks {tool: bash, args: {command: "env"}} in this execution mode ("pipes" / "pty") and read
    /// its output - background tasks are tool subprocesses too (ripd tasks/pipes.rs, pty.rs)
    #[serde(default)]
    task_env_dump: Option<String>,
    /// the run goes through the real CLI: `rip run <prompt> <args>` (auto-spawned authority, thread path with the
    /// overrides the CLI derives from its environment / flags), then `rip config doctor`
    #[serde(default)]
    cli_run: Option<Vec<String>>,
    /// the provider flags of that `rip run` (the model derives the authority's environment and the overrides from them)
    #[serde(default)]
    cli_flags: Option<CliFlags>,
    /// SHAPE of this scenario's canaries (see `SHAPES`): 0 mixed-case high entropy, 1 upper-case + digits + underscore (the
    /// shape of an environment variable name / of AKIA..-style access keys), 2 digits only, 3 `sk-..`, 4 quotes / backslashes /
    /// unicode around the core, 5 short (8 chars), 6 surrounding whitespace / control characters (CRLF key files), 7 tiny (3
    /// chars: differential only, no canary search)
    #[serde(default)]
    shape: u8,
    /// a MULTI-STEP scenario on one authority process: [warm-up that spawns a tool subprocess] -> [configuration files
    /// edited: `phase2.layers` written] -> [the edited configuration loaded] -> [probe: a tool subprocess prints its environment]
    #[serde(default)]
    phase2: Option<Phase2>,
    /// the status of the HTTP-error outcomes (1, 7); 0 = 500.  rip treats every non-2xx alike - a leak that depends on the
    /// status (a 401 / 403 "debug aid" that shows the key, a 429 path) needs the status to occur
    #[serde(default)]
    http_status: u16,
    /// the SPAWN GRID: every way this authority spawns a subprocess x every argument that changes the spawn path; each probe
    /// prints its environment (see `SpawnProbe`).  Executed in order on ONE authority process.
    #[serde(default)]
    spawns: Vec<SpawnProbe>,
    /// the authority's PATH has no `bash`: the shell tool falls back to `$SHELL -c` / `sh -c` (rip-tools shell.rs run_bash ->
    /// run_shell_with_args, the second caller of run_command)
    #[serde(default)]
    nobash: bool,
}
/// One subprocess spawn of the authority.  The spawn sites of /repo: rip-tools builtins/shell.rs `run_command` (the `bash` tool and
/// its alias `shell`: by tool command envelope on the session path, or on the provider's request in a run), ripd tasks/pipes.rs
/// `run_pipes_task` and tasks/pty.rs `run_pty_task` (background tasks: POST /tasks, `rip tasks spawn`).  Each site: `cwd` given
/// (resolved below the workspace root; absolute paths and `..` are refused, a missing directory makes the spawn fail) or absent
/// (workspace root), then the credential variables are removed, then the call's own `env` is applied, then the spawn.
#[derive(Clone, Serialize, Deserialize, Debug, Default, PartialEq)]
struct SpawnProbe {
    /// "envelope" (tool command envelope on the session path), "provider" (the scripted provider asks for the tool in a run),
    /// "task" (POST /tasks), "cli-task" (`rip tasks spawn` through the real CLI)
    via: String,
    /// "bash" | "shell" (alias)
    tool: String,
    /// tasks: `execution_mode` absent (= pipes) | "pipes" | "pty"
    #[serde(default)]
    mode: Option<String>,
    /// the `cwd` argument ({{W}} = the workspace root, for the absolute form)
    #[serde(default)]
    cwd: Option<String>,
    /// whether `<workspace>/<cwd>` is a directory (a fact of the file system the generator arranges and the child re-checks)
    #[serde(default)]
    dir_exists: bool,
    /// the `env` argument of the call
    #[serde(default)]
    env: Option<Vec<(String, String)>>,
    #[serde(default)]
    title: Option<String>,
    /// further arguments that reach the spawn function: max_bytes, artifact_max_bytes, rows, cols (args); timeout_ms (envelope)
    #[serde(default)]
    extra: Vec<(String, u64)>,
    /// tasks: `origin_session_id` given
    #[serde(default)]
    origin: bool,
    /// what prints the environment besides the `env` of the view section: 0 nothing more, 1 `printenv <credential names>`,
    /// 2 `tr '\0' '\n' </proc/self/environ`, 3 `export -p`, 4 `sh -c env` (a grandchild), 5 `env | sort`, 6 `cat /proc/self/environ`
    /// ALONE (raw NUL-separated; no view tags)
    #[serde(default)]
    dump: u8,
}
impl SpawnProbe {
    fn refused(&self) -> bool {
        match &self.cwd {
            Some(c) => c.starts_with('/') || c.starts_with("{{W}}") || c.split('/').any(|p| p == ".."),
            None => false,
        }
    }
    /// a subprocess is expected to run
    fn spawns(&self) -> bool {
        // (a pty task whose directory is missing is spawned all the same: portable_pty falls back to the home directory)
        !self.refused() && (self.cwd.is_none() || self.dir_exists || self.is_pty())
    }
    fn is_pty(&self) -> bool {
        self.mode.as_deref() == Some("pty")
    }
    fn label(&self) -> String {
        format!(
            "via={} tool={} mode={} cwd={} env={} title={} extra={:?} dump={}",
            self.via,
            self.tool,
            self.mode.as_deref().unwrap_or("(absent)"),
            self.cwd.as_ref().map(|c| format!("{c:?}")).unwrap_or_else(|| "(absent)".into()),
            self.env.as_ref().map(|e| format!("{:?}", e.iter().map(|(k, _)| k.as_str()).collect::<Vec<_>>())).unwrap_or_else(|| "(absent)".into()),
            self.title.is_some(),
            self.extra,
            self.dump
        )
    }
    /// the shell command: a VIEW section (`env` between tags) and the probe's own way of printing the environment, written to
    /// stdout in ONE piece (a task's output frames follow the reads of the pipe: several writes would make their number depend on timing)
    fn command(&self, i: usize, names: &[String]) -> String {
        if self.dump % 7 == 6 {
            return "cat /proc/self/environ".to_string();
        }
        let extra = match self.dump % 7 {
            1 => format!("; printenv {}", names.join(" ")),
            2 => "; tr '\\0' '\\n' </proc/self/environ".to_string(),
            3 => "; export -p".to_string(),
            4 => "; sh -c env".to_string(),
            5 => "; env | sort".to_string(),
            _ => String::new(),
        };
        // (`dd obs=..` re-blocks: everything is written once, at the end)
        format!("{{ echo RVVIEW-{i}; env; echo RVEND-{i}{extra}; }} 2>&1 | dd obs=65536 2>/dev/null")
    }
    /// the `args` object of the tool call / task
    fn args(&self, i: usize, names: &[String]) -> Value {
        let mut a = serde_json::Map::new();
        a.insert("command".into(), json!(self.command(i, names)));
        if let Some(c) = &self.cwd {
            a.insert("cwd".into(), json!(c));
        }
        if let Some(e) = &self.env {
            a.insert("env".into(), Value::Object(e.iter().map(|(k, v)| (k.clone(), json!(v))).collect()));
        }
        for (k, v) in &self.extra {
            if k != "timeout_ms" {
                a.insert(k.clone(), json!(v));
            }
        }
        Value::Object(a)
    }
}
/// the VIEW of probe `i` in what a subprocess printed: (name, value) of every variable of its environment; None = no view
/// section (nothing was spawned, or the output is not the probe's)
fn probe_view(out: &str, i: usize, raw_dump: bool) -> Option<Vec<(String, String)>> {
    let lines: Vec<&str> = out.split(|c| c == '\n' || c == '\0').map(|l| l.trim_end_matches('\r')).collect();
    let body: Vec<&str> = if raw_dump {
        if !lines.iter().any(|l| l.starts_with("PATH=")) {
            return None;
        }
        lines
    } else {
        let start = lines.iter().position(|l| *l == format!("RVVIEW-{i}"))?;
        let len = lines[start + 1..].iter().position(|l| *l == format!("RVEND-{i}"))?;
        lines[start + 1..start + 1 + len].to_vec()
    };
    Some(body.iter().filter_map(|l| l.split_once('=')).map(|(k, v)| (k.to_string(), v.to_string())).collect())
}
#[derive(Clone, Serialize, Deserialize, Debug, Default)]
struct Phase2 {
    /// how a subprocess is spawned BEFORE the edit: "session-tool" (tool envelope `bash echo warmup` on the session path), "task"
    /// (pipes task), "provider-bash" (a run whose provider asks for `bash echo warmup`), "none"
    warmup: String,
    /// the files written after the warm-up (a file of `layers` in the same slot is overwritten)
    layers: Vec<Layer>,
    /// what loads the edited configuration before the probe: "doctor" (GET /config/doctor), "run" (the probe run itself: the thread
    /// path resolves the configuration per request), "none" (control: nothing has loaded it when the probe spawns)
    load: String,
    /// "provider-bash" (a run whose provider asks for `bash printenv NAME; env`), "session-tool" (tool envelope), "task" (pipes task)
    probe: String,
    /// the variable the edited configuration names as `{ "env": NAME }`
    name: String,
}

#[allow(dead_code)]
const PUBLIC_ENV: [&str; 8] = [
    "RIP_OPENRESPONSES_ENDPOINT",
    "RIP_OPENRESPONSES_MODEL",
    "RIP_OPENRESPONSES_STATELESS_HISTORY",
    "RIP_OPENRESPONSES_PARALLEL_TOOL_CALLS",
    "RIP_OPENRESPONSES_FOLLOWUP_USER_MESSAGE",
    "RIP_OPENRESPONSES_DUMP_REQUEST",
    "RIP_OPENRESPONSES_DUMP_REQUEST_MAX_BYTES",
    "RIP_OPENRESPONSES_TOOL_CHOICE",
];

fn subst(s: &str, m: &[(&str, &str)]) -> String {
    let mut o = s.to_string();
    for (k, v) in m {
        o = o.replace(k, v);
    }
    o
}
fn subst_opt(s: &Option<String>, m: &[(&str, &str)]) -> Option<String> {
    s.as_ref().map(|x| subst(x, m))
}
fn concretise(sc: &Scenario, m: &[(&str, &str)]) -> Scenario {
    let mut c = sc.clone();
    let p2: &mut [Layer] = match &mut c.phase2 {
        Some(p) => &mut p.layers,
        None => &mut [],
    };
    for l in c.layers.iter_mut().chain(p2.iter_mut()) {
        l.raw_text = subst_opt(&l.raw_text, m);
        for p in &mut l.providers {
            p.endpoint = subst_opt(&p.endpoint, m);
            p.api_key = p.api_key.as_ref().map(|k| match k {
                KeySpec::Inline(v) => KeySpec::Inline(subst(v, m)),
                KeySpec::Env(n) => KeySpec::Env(n.clone()),
            });
            for h in &mut p.headers {
                h.1 = subst(&h.1, m);
            }
        }
    }
    for e in &mut c.env {
        e.1 = subst(&e.1, m);
    }
    if let Some(o) = &mut c.ovr {
        o.endpoint = subst_opt(&o.endpoint, m);
    }
    c.misfit = subst_opt(&c.misfit, m);
    for p in &mut c.spawns {
        p.cwd = subst_opt(&p.cwd, m);
    }
    c
}

/// Wrong-shape variants: valid JSON that does not fit the config schema, with the secret AT the offending
/// position and every position that is deserialised before it (BTreeMap key order) well-typed, so that the
/// schema error serde reports is the one about the secret.  Returns (name, scalar quoted by serde's message).
/// `@@{{N}}@@` becomes an unquoted number in `layer_text`.
const N_MISFIT: u8 = 12;
fn misfit_info(v: u8) -> (&'static str, &'static str) {
    match v {
        0 => ("headers-as-string", "X-Api-Key: tok {{H}}"),
        1 => ("header-value-unquoted-number", "{{N}}"),
        2 => ("provider-as-string", "{{K}}"),
        3 => ("provider-entry-as-string", "{{K}}"),
        4 => ("provider-id-level-missing", "{{K}}"),
        5 => ("api-key-unquoted-number", ""),
        6 => ("api-key-wrong-object", ""),
        7 => ("header-value-nested", ""),
        8 => ("whole-file-is-a-string", "{{K}}"),
        9 => ("headers-as-array", ""),
        10 => ("header-value-negative-number", "-{{N}}"),
        _ => ("api-key-array", ""),
    }
}
fn apply_misfit(root: &mut Value, v: u8) {
    let pid = root["provider"].as_object().and_then(|o| o.keys().next().cloned()).unwrap_or_else(|| "acme".into());
    if !root["provider"].is_object() {
        root["provider"] = json!({});
    }
    if !root["provider"][&pid].is_object() {
        root["provider"][&pid] = json!({});
    }
    match v {
        0 => root["provider"][&pid]["headers"] = json!("X-Api-Key: tok {{H}}"),
        1 => root["provider"][&pid]["headers"] = json!({ "HTTP-Referer": "https://example.com/app", "X-Tenant-Token": "@@{{N}}@@" }),
        2 => root["provider"] = json!("{{K}}"),
        3 => root["provider"][&pid] = json!("{{K}}"),
        4 => {
            let ep = root["provider"][&pid]["endpoint"].clone();
            root["provider"] = json!({ "api_key": "{{K}}", "endpoint": ep });
        }
        5 => root["provider"][&pid]["api_key"] = json!("@@{{N}}@@"),
        6 => root["provider"][&pid]["api_key"] = json!({ "value": "{{K}}" }),
        7 => root["provider"][&pid]["headers"] = json!({ "HTTP-Referer": "https://example.com/app", "X-Api-Key": { "value": "tok {{H}}" } }),
        8 => *root = json!("{{K}}"),
        9 => root["provider"][&pid]["headers"] = json!(["X-Api-Key: tok {{H}}"]),
        10 => root["provider"][&pid]["headers"] = json!({ "X-Tenant-Token": "@@-{{N}}@@" }),
        _ => root["provider"][&pid]["api_key"] = json!(["{{K}}"]),
    }
}

fn layer_json(l: &Layer) -> Value {
    let mut root = serde_json::Map::new();
    root.insert("$schema".into(), json!("rip://config/v1"));
    if !l.providers.is_empty() {
        let mut provs = serde_json::Map::new();
        for p in &l.providers {
            let mut o = serde_json::Map::new();
            if let Some(e) = &p.endpoint {
                o.insert("endpoint".into(), json!(e));
            }
            match &p.api_key {
                Some(KeySpec::Inline(v)) => {
                    o.insert("api_key".into(), json!(v));
                }
                Some(KeySpec::Env(n)) => {
                    o.insert("api_key".into(), json!({ "env": n }));
                }
                None => {}
            }
            if !p.headers.is_empty() {
                let mut h = serde_json::Map::new();
                for (k, v) in &p.headers {
                    h.insert(k.clone(), json!(v));
                }
                o.insert("headers".into(), Value::Object(h));
            }
            provs.insert(p.id.clone(), Value::Object(o));
        }
        root.insert("provider".into(), Value::Object(provs));
    }
    if let Some(m) = &l.model {
        root.insert("model".into(), json!(m));
    }
    if let Some(p) = &l.primary {
        let obj = p.split_once('/').filter(|_| l.primary_obj).map(|(prov, rest)| match rest.split_once('#') {
            Some((m, v)) => json!({ "provider": prov, "model": m, "variant": v }),
            None => json!({ "provider": prov, "model": rest }),
        });
        root.insert("roles".into(), json!({ "primary": obj.unwrap_or_else(|| json!(p)) }));
    }
    if l.stateless.is_some() || l.parallel.is_some() || l.followup.is_some() {
        let mut o = serde_json::Map::new();
        if let Some(b) = l.stateless {
            o.insert("stateless_history".into(), json!(b));
        }
        if let Some(b) = l.parallel {
            o.insert("parallel_tool_calls".into(), json!(b));
        }
        if let Some(s) = &l.followup {
            o.insert("followup_user_message".into(), json!(s));
        }
        root.insert("openresponses".into(), Value::Object(o));
    }
    let mut v = Value::Object(root);
    if let Some(m) = l.misfit {
        apply_misfit(&mut v, m);
    }
    v
}
fn layer_text(l: &Layer) -> String {
    if let Some(t) = &l.raw_text {
        return t.clone();
    }
    let body = serde_json::to_string_pretty(&layer_json(l)).unwrap().replace("\"@@", "").replace("@@\"", "");
    if !body.trim_end().ends_with('}') {
        return body;
    }
    if l.slot == 0 || l.slot == 4 || l.slot == 6 {
        // JSONC: comments and a trailing comma
        let mut t = String::from("// generated by rv c19 /* not a block */\n");
        let trimmed = body.trim_end();
        let inner = &trimmed[..trimmed.len() - 1];
        t.push_str(inner.trim_end());
        t.push_str(",\n/* trailing comma above */ }\n");
        t
    } else {
        body
    }
}
fn layer_relpath(slot: u8, config_home: bool) -> &'static str {
    match (slot, config_home) {
        (0, true) => "cfghome/config.jsonc",
        (1, true) => "cfghome/config.json",
        (0, false) => "home/.rip/config.jsonc",
        (1, false) => "home/.rip/config.json",
        (2, _) => "custom/my-rip.jsonc",
        (3, _) => "outer/rip.json",
        (4, _) => "outer/rip.jsonc",
        (5, _) => "outer/ws/rip.json",
        _ => "outer/ws/rip.jsonc",
    }
}

// ------------------------------------------------------------------ child
#[derive(Serialize, Deserialize, Debug)]
struct ChildSpec {
    data_dir: String,
    workspace: String,
    thread: bool,
    ovr: Option<Value>,
    prompt: String,
    out_obs: String,
    out_raw: String,
    /// path of the real `ripd` binary: when set the child spawns it (with the child's own environment) and
    /// talks HTTP to it instead of building the router in-process
    #[serde(default)]
    ripd_bin: Option<String>,
    #[serde(default)]
    out_dir: String,
    #[serde(default)]
    doctor_only: bool,
    /// path of the real `rip` binary: when set the diagnostic surface is `rip config doctor` (which spawns
    /// `rip serve` as the local authority with its output redirected to <data>/authority/authority.log)
    #[serde(default)]
    rip_bin: Option<String>,
    #[serde(default)]
    task_env_dump: Option<String>,
    /// `rip run <prompt> <these args>` before the doctor calls (CLI surface only)
    #[serde(default)]
    cli_run: Option<Vec<String>>,
    #[serde(default)]
    phase2: Option<ChildPhase2>,
    /// the spawn grid: the probes and, per probe, the `args` object of the call
    #[serde(default)]
    spawns: Vec<SpawnProbe>,
    #[serde(default)]
    spawn_args: Vec<Value>,
}
#[derive(Serialize, Deserialize, Debug, Default)]
struct ChildPhase2 {
    warmup: String,
    /// (absolute path, text) written after the warm-up
    files: Vec<(String, String)>,
    load: String,
    probe: String,
    name: String,
}
#[derive(Serialize, Deserialize, Debug, Default)]
struct ChildObs {
    doctor: Value,
    doctor_after: Value,
    session_frames: Vec<Value>,
    thread_frames: Vec<Value>,
    statuses: Vec<(String, u16)>,
    errors: Vec<String>,
    /// `http://127.0.0.1:PORT` the real authority listened on
    #[serde(default)]
    authority: String,
    /// (label, body) of every non-SSE response, in call order
    #[serde(default)]
    bodies: Vec<(String, String)>,
    /// SSE reads that ended because the log on disk showed the terminal frame (the stream itself did not
    /// deliver it: a subscribe/replay gap of the SSE handlers, not a C19 matter)
    #[serde(default)]
    sse_gaps: u64,
    /// `rip config doctor` invocations: (exit code, stdout, stderr)
    #[serde(default)]
    cli_runs: Vec<(i32, String, String)>,
    /// invocations that failed only because the CLI's own 8 s wait for the authority it spawned expired (box load)
    #[serde(default)]
    cli_waits: u64,
    /// multi-step scenarios: what the probing subprocess printed (`printenv NAME; env`)
    #[serde(default)]
    probe_out: Option<String>,
    /// spawn grid: what the subprocess of probe i printed (None: nothing could be read)
    #[serde(default)]
    spawn_outs: Vec<Option<String>>,
}

/// state of a process that is not our child: gone (or a zombie nobody reaped yet) = true
fn pid_gone(pid: u32) -> bool {
    match std::fs::read_to_string(format!("/proc/{pid}/stat")) {
        Err(_) => true,
        Ok(t) => t.rsplit(')').next().map(|r| r.trim_start().starts_with('Z')).unwrap_or(false),
    }
}

/// the CLI surface: `rip config doctor` twice (the first call spawns the local authority, the second attaches to
/// it), then the same question over HTTP to the authority the CLI spawned; finally that authority is stopped.
async fn child_drive_cli(spec: &ChildSpec, rip: &str) -> ChildObs {
    let mut obs = ChildObs::default();
    let mut raw: Vec<u8> = vec![];
    let run_cli = |obs: &mut ChildObs, args: &[String]| -> Option<String> {
        // a generous, load-independent loop: the CLI gives the authority it spawned 8 s to answer; on a loaded box
        // that can expire although nothing is wrong (the authority keeps starting; the next call attaches to it).
        // Every attempt's output is kept and searched.
        for _ in 0..60 {
            let out = std::process::Command::new("timeout")
                .arg("900")
                .arg(rip)
                .args(args)
                .env("RIP_DATA_DIR", &spec.data_dir)
                .env("RIP_WORKSPACE_ROOT", &spec.workspace)
                .stdin(std::process::Stdio::null())
                .output();
            let out = match out {
                Ok(o) => o,
                Err(e) => {
                    obs.errors.push(format!("spawn {rip}: {e}"));
                    return None;
                }
            };
            let so = String::from_utf8_lossy(&out.stdout).to_string();
            let se = String::from_utf8_lossy(&out.stderr).to_string();
            let code = out.status.code().unwrap_or(-1);
            obs.cli_runs.push((code, so.clone(), se.clone()));
            if out.status.success() {
                return Some(so);
            }
            if se.contains("timed out waiting for local authority") || se.contains("error sending request") {
                obs.cli_waits += 1;
                std::thread::sleep(Duration::from_millis(500));
                continue;
            }
            obs.errors.push(format!("rip {} failed ({code}): {}", args.join(" "), se.chars().take(300).collect::<String>()));
            return None;
        }
        obs.errors.push("rip: the local authority never answered in 60 attempts".into());
        None
    };
    let doctor_args: Vec<String> = vec!["config".into(), "doctor".into()];
    if let (Some(p2), Some(extra)) = (&spec.phase2, &spec.cli_run) {
        // MULTI-STEP through the CLI: `rip run` (spawns the local authority; the provider asks for a bash call) -> the
        // configuration files are edited -> [`rip config doctor`] -> `rip run` again (attaches to the SAME authority process)
        let cont_dir = Path::new(&spec.data_dir).join("continuity_streams");
        let snaps = Path::new(&spec.data_dir).join("snapshots");
        // run_ended frames in the thread's stream file (`<id>.jsonl`; the sidecars have further dots) and finished snapshots
        let runs_ended = |dir: &Path| -> usize {
            let frames: usize = std::fs::read_dir(dir)
                .map(|rd| {
                    rd.flatten()
                        .filter(|e| e.file_name().to_string_lossy().ends_with(".jsonl") && e.file_name().to_string_lossy().matches('.').count() == 1)
                        .filter_map(|e| std::fs::read_to_string(e.path()).ok())
                        .map(|t| t.matches("\"type\":\"continuity_run_ended\"").count())
                        .sum()
                })
                .unwrap_or(0);
            let snapshots = std::fs::read_dir(&snaps).map(|rd| rd.flatten().filter(|e| e.metadata().map(|m| m.len() > 0).unwrap_or(false)).count()).unwrap_or(0);
            frames.min(snapshots)
        };
        let one_run = |obs: &mut ChildObs, prompt: String, want: usize| {
            let mut args: Vec<String> = vec!["run".into(), prompt];
            args.extend(extra.iter().cloned());
            if let Some(out) = run_cli(obs, &args) {
                obs.bodies.push(("rip run".into(), out));
                for _ in 0..12000 {
                    // (the full sidecar and the messages+runs sidecar both hold the frame)
                    if runs_ended(&cont_dir) >= want {
                        break;
                    }
                    std::thread::sleep(Duration::from_millis(10));
                }
            }
        };
        one_run(&mut obs, format!("{} (warm-up)", spec.prompt), 1);
        for (path, text) in &p2.files {
            if let Some(dir) = Path::new(path).parent() {
                let _ = std::fs::create_dir_all(dir);
            }
            let tmp = format!("{path}.rv-tmp");
            if std::fs::write(&tmp, text).and_then(|_| std::fs::rename(&tmp, path)).is_err() {
                obs.errors.push(format!("could not write the edited configuration file {path}"));
            }
        }
        if p2.load == "doctor" {
            let d: Value = run_cli(&mut obs, &doctor_args).and_then(|s| serde_json::from_str(&s).ok()).unwrap_or(Value::Null);
            if d["openresponses"]["api_key_source"].as_str() != Some(&format!("env:{}", p2.name)) {
                obs.errors.push(format!("the edited configuration was not picked up: `rip config doctor` says {}", d["openresponses"]));
            }
        }
        one_run(&mut obs, spec.prompt.clone(), 2);
        // the probe's session is the last one of the log
        let sid = std::fs::read_to_string(Path::new(&spec.data_dir).join("events.jsonl"))
            .ok()
            .and_then(|t| t.lines().rev().filter(|l| l.contains("\"type\":\"session_started\"")).find_map(|l| serde_json::from_str::<Value>(l).ok().and_then(|v| v["session_id"].as_str().map(String::from))))
            .unwrap_or_default();
        let out = tool_stdout_of(Path::new(&spec.data_dir), &sid);
        if !out.lines().any(|l| l.starts_with("PATH=")) {
            let log = std::fs::read_to_string(Path::new(&spec.data_dir).join("events.jsonl")).unwrap_or_default();
            let types: Vec<String> = log.lines().filter_map(|l| serde_json::from_str::<Value>(l).ok()).map(|v| format!("{}:{}", v["session_id"].as_str().unwrap_or("?").chars().take(4).collect::<String>(), v["type"].as_str().unwrap_or("?"))).collect();
            obs.errors.push(format!("the probe (rip run) shows no PATH: {} (probe session {sid}; log: {})", out.chars().take(200).collect::<String>(), types.join(" ")));
        }
        obs.probe_out = Some(out);
    } else if let Some(extra) = &spec.cli_run {
        // the whole run through the CLI: `rip run <prompt> ..` (headless; prints the frames / the output / the metrics)
        let mut args: Vec<String> = vec!["run".into(), spec.prompt.clone()];
        args.extend(extra.iter().cloned());
        let ran = run_cli(&mut obs, &args);
        let happened = ran.is_some();
        if let Some(out) = ran {
            obs.bodies.push(("rip run".into(), out));
        }
        // the thread's run_ended frame and the snapshot are written after the session ended (when the CLI returns)
        let cont_dir = Path::new(&spec.data_dir).join("continuity_streams");
        let snaps = Path::new(&spec.data_dir).join("snapshots");
        for _ in 0..(if happened { 12000 } else { 0 }) {
            let ended = any_log_has(&cont_dir, "", "continuity_run_ended");
            let snap = std::fs::read_dir(&snaps).map(|rd| rd.flatten().any(|e| e.metadata().map(|m| m.len() > 0).unwrap_or(false))).unwrap_or(false);
            if ended && snap {
                break;
            }
            tokio::time::sleep(Duration::from_millis(10)).await;
        }
    }
    if !spec.spawns.is_empty() {
        // the SPAWN GRID through the real CLI: `rip tasks spawn` (the first call spawns the local authority, which inherits the
        // environment of `rip`), the wait over HTTP on the authority it spawned (a fixed number of CLI invocations: their stderr
        // takes part in the differential), then `rip tasks status` / `rip tasks output`
        obs.spawn_outs = vec![None; spec.spawns.len()];
        for (i, p) in spec.spawns.iter().enumerate() {
            if p.via != "cli-task" {
                continue;
            }
            let args_json = serde_json::to_string(&spec.spawn_args.get(i).cloned().unwrap_or(Value::Null)).unwrap();
            let mut a: Vec<String> = vec!["tasks".into(), "spawn".into(), "--tool".into(), p.tool.clone(), "--args".into(), args_json];
            if let Some(m) = &p.mode {
                a.extend(["--execution-mode".to_string(), m.clone()]);
            }
            if let Some(t) = &p.title {
                a.extend(["--title".to_string(), t.clone()]);
            }
            let Some(created) = run_cli(&mut obs, &a) else { continue };
            let tid = serde_json::from_str::<Value>(created.trim()).ok().and_then(|v| v["task_id"].as_str().map(String::from)).unwrap_or_default();
            let Some(meta) = ripd::read_authority_meta(Path::new(&spec.data_dir)).ok().flatten() else {
                obs.errors.push("no authority meta.json after `rip tasks spawn`".into());
                continue;
            };
            if tid.is_empty() {
                obs.errors.push(format!("`rip tasks spawn` printed no task id: {created}"));
                continue;
            }
            let app = Target::Http(reqwest::Client::builder().no_proxy().build().unwrap(), meta.endpoint.clone());
            let stream = if p.is_pty() { "pty" } else { "stdout" };
            let mut done = false;
            for _ in 0..4800 {
                let (_, b) = call(&app, &mut raw, &mut obs, "GET", &format!("/tasks/{tid}"), None).await;
                obs.bodies.pop();
                obs.statuses.pop();
                let stv = serde_json::from_slice::<Value>(&b).unwrap_or(Value::Null);
                if matches!(stv["status"].as_str(), Some("exited") | Some("failed") | Some("cancelled")) {
                    done = true;
                    break;
                }
                if p.is_pty() {
                    // (a pty task does not reach a final status: see drive_task_probe)
                    let (_, out) = call(&app, &mut raw, &mut obs, "GET", &format!("/tasks/{tid}/output?stream=pty&offset_bytes=0"), None).await;
                    obs.bodies.pop();
                    obs.statuses.pop();
                    let t = serde_json::from_slice::<Value>(&out).ok().and_then(|v| v["content"].as_str().map(String::from)).unwrap_or_default();
                    if t.contains(&format!("RVEND-{i}")) {
                        done = true;
                        break;
                    }
                }
                tokio::time::sleep(Duration::from_millis(50)).await;
            }
            if !done {
                obs.errors.push(format!("task {tid} ({}) did not finish", p.label()));
            }
            run_cli(&mut obs, &["tasks".to_string(), "status".to_string(), tid.clone()]);
            if p.spawns() {
                let out = run_cli(&mut obs, &["tasks".to_string(), "output".to_string(), tid.clone(), "--stream".to_string(), stream.to_string()]);
                obs.spawn_outs[i] = out.map(|o| serde_json::from_str::<Value>(o.trim()).ok().and_then(|v| v["content"].as_str().map(String::from)).unwrap_or(o));
            } else {
                obs.spawn_outs[i] = Some(String::new());
            }
            if p.is_pty() {
                run_cli(&mut obs, &["tasks".to_string(), "cancel".to_string(), tid.clone(), "--reason".to_string(), "probe done".to_string()]);
            }
        }
    }
    obs.doctor = run_cli(&mut obs, &doctor_args).and_then(|s| serde_json::from_str(&s).ok()).unwrap_or(Value::Null);
    obs.doctor_after = run_cli(&mut obs, &doctor_args).and_then(|s| serde_json::from_str(&s).ok()).unwrap_or(Value::Null);
    if let Some(p2) = &spec.phase2 {
        if obs.doctor_after["openresponses"]["api_key_source"].as_str() != Some(&format!("env:{}", p2.name)) {
            obs.errors.push(format!("the edited configuration is not in effect at the end: doctor says {}", obs.doctor_after["openresponses"]));
        }
    }
    // the authority the CLI spawned
    let meta = ripd::read_authority_meta(Path::new(&spec.data_dir)).ok().flatten();
    if let Some(meta) = &meta {
        obs.authority = meta.endpoint.clone();
        let app = Target::Http(reqwest::Client::builder().no_proxy().build().unwrap(), meta.endpoint.clone());
        let (_, b) = call(&app, &mut raw, &mut obs, "GET", "/config/doctor", None).await;
        let over_http: Value = serde_json::from_slice(&b).unwrap_or(Value::Null);
        if over_http != obs.doctor_after {
            obs.errors.push("`rip config doctor` printed something else than GET /config/doctor answered".into());
        }
        call(&app, &mut raw, &mut obs, "GET", "/tasks", None).await;
        ask_every_diagnostic(&app, &mut raw, &mut obs).await;
        unsafe {
            libc::kill(meta.pid as i32, libc::SIGTERM);
        }
        let mut gone = false;
        for _ in 0..(if spec.spawns.iter().any(|p| p.is_pty()) { 300 } else { 6000 }) {
            if pid_gone(meta.pid) {
                gone = true;
                break;
            }
            tokio::time::sleep(Duration::from_millis(10)).await;
        }
        if !gone {
            unsafe {
                libc::kill(meta.pid as i32, libc::SIGKILL);
            }
        }
    } else {
        obs.errors.push("no authority meta.json after `rip config doctor`".into());
    }
    std::fs::write(&spec.out_raw, &raw).unwrap();
    obs
}

fn child_main(spec_path: &str) -> i32 {
    let spec: ChildSpec = serde_json::from_slice(&std::fs::read(spec_path).expect("spec")).expect("spec json");
    let rt = tokio::runtime::Builder::new_multi_thread().worker_threads(2).enable_all().build().unwrap();
    let obs = rt.block_on(child_drive(&spec));
    std::fs::write(&spec.out_obs, serde_json::to_vec(&obs).unwrap()).unwrap();
    rt.shutdown_timeout(Duration::from_millis(200));
    0
}

type ByteStream = std::pin::Pin<Box<dyn futures_util::Stream<Item = Result<Vec<u8>, String>> + Send>>;
struct Resp {
    status: u16,
    headers: Vec<(String, Vec<u8>)>,
    body: ByteStream,
}
/// the authority under test: the router in this process, or the real `ripd` binary over HTTP
#[derive(Clone)]
enum Target {
    InProc(axum::Router),
    Http(reqwest::Client, String),
}
impl Target {
    async fn request(&self, method: &str, uri: &str, body: Option<Value>) -> Result<Resp, String> {
        use futures_util::StreamExt;
        match self {
            Target::InProc(app) => {
                use tower::ServiceExt;
                let mut b = axum::http::Request::builder().method(method).uri(uri);
                let body = match body {
                    Some(v) => {
                        b = b.header("content-type", "application/json");
                        axum::body::Body::from(serde_json::to_vec(&v).unwrap())
                    }
                    None => axum::body::Body::empty(),
                };
                let resp = app.clone().oneshot(b.body(body).unwrap()).await.map_err(|e| e.to_string())?;
                let status = resp.status().as_u16();
                let headers = resp.headers().iter().map(|(k, v)| (k.as_str().to_string(), v.as_bytes().to_vec())).collect();
                let body: ByteStream = Box::pin(resp.into_body().into_data_stream().map(|r| r.map(|b| b.to_vec()).map_err(|e| e.to_string())));
                Ok(Resp { status, headers, body })
            }
            Target::Http(client, base) => {
                let m = reqwest::Method::from_bytes(method.as_bytes()).unwrap();
                let mut rb = client.request(m, format!("{base}{uri}"));
                if let Some(v) = body {
                    rb = rb.json(&v);
                }
                let resp = rb.send().await.map_err(|e| e.to_string())?;
                let status = resp.status().as_u16();
                let headers = resp.headers().iter().map(|(k, v)| (k.as_str().to_string(), v.as_bytes().to_vec())).collect();
                let body: ByteStream = Box::pin(resp.bytes_stream().map(|r| r.map(|b| b.to_vec()).map_err(|e| e.to_string())));
                Ok(Resp { status, headers, body })
            }
        }
    }
}

async fn call(app: &Target, raw: &mut Vec<u8>, obs: &mut ChildObs, method: &str, uri: &str, body: Option<Value>) -> (u16, Vec<u8>) {
    call_within(app, raw, obs, method, uri, body, 240).await
}

/// `watchdog_s` < 240: an endpoint the harness does not know (it may stream for ever) - what arrived in time is kept and an
/// expired watchdog is not an error
async fn call_within(
    app: &Target,
    raw: &mut Vec<u8>,
    obs: &mut ChildObs,
    method: &str,
    uri: &str,
    body: Option<Value>,
    watchdog_s: u64,
) -> (u16, Vec<u8>) {
    use futures_util::StreamExt;
    let mut resp = match app.request(method, uri, body).await {
        Ok(r) => r,
        Err(e) => {
            obs.errors.push(format!("{method} {uri}: {e}"));
            return (0, vec![]);
        }
    };
    let status = resp.status;
    raw.extend_from_slice(format!("\n### {method} {uri} -> {status}\n").as_bytes());
    for (k, v) in &resp.headers {
        raw.extend_from_slice(k.as_bytes());
        raw.extend_from_slice(b": ");
        raw.extend_from_slice(v);
        raw.push(b'\n');
    }
    let mut all: Vec<u8> = vec![];
    let deadline = tokio::time::Instant::now() + Duration::from_secs(watchdog_s);
    let mut expired = false;
    loop {
        match tokio::time::timeout_at(deadline, resp.body.next()).await {
            Ok(Some(Ok(b))) => all.extend_from_slice(&b),
            Ok(_) => break,
            Err(_) => {
                expired = true;
                break;
            }
        }
    }
    if expired && watchdog_s >= 240 {
        obs.errors.push(format!("{method} {uri}: body watchdog"));
        all.clear();
    }
    let bytes = all;
    raw.extend_from_slice(&bytes);
    obs.statuses.push((format!("{method} {}", uri.split('/').take(2).collect::<Vec<_>>().join("/")), status));
    obs.bodies.push((format!("{method} {}", uri.split('/').enumerate().map(|(i, p)| if i == 2 && p.len() > 20 { "<id>" } else { p }).collect::<Vec<_>>().join("/")), String::from_utf8_lossy(&bytes).to_string()));
    (status, bytes)
}

/// true when a line of `path` (JSONL) mentions `id` and has `"type":"<ty>"`
fn log_has(path: &Path, id: &str, ty: &str) -> bool {
    let Ok(text) = std::fs::read_to_string(path) else { return false };
    let needle = format!("\"type\":\"{ty}\"");
    text.lines().any(|l| l.contains(&needle) && l.contains(id))
}
fn any_log_has(dir: &Path, id: &str, ty: &str) -> bool {
    let Ok(rd) = std::fs::read_dir(dir) else { return false };
    rd.flatten().any(|e| e.path().extension().map(|x| x == "jsonl").unwrap_or(false) && log_has(&e.path(), id, ty))
}

/// reads an SSE response until a frame satisfying `stop` was seen, or `on_disk()` says the terminal frame
/// is in the persisted log and the stream has been idle since (the SSE handlers may not deliver a frame
/// published between their subscribe and replay steps; completion must not depend on that), or a generous
/// watchdog expires; returns the frames seen
async fn sse_until(
    app: &Target,
    raw: &mut Vec<u8>,
    obs: &mut ChildObs,
    uri: &str,
    stop: &dyn Fn(&Value) -> bool,
    on_disk: &dyn Fn() -> bool,
    timeout_s: u64,
) -> Vec<Value> {
    use futures_util::StreamExt;
    let resp = match app.request("GET", uri, None).await {
        Ok(r) => r,
        Err(e) => {
            obs.errors.push(format!("GET {uri}: {e}"));
            return vec![];
        }
    };
    let status = resp.status;
    raw.extend_from_slice(format!("\n### GET {uri} -> {status}\n").as_bytes());
    obs.statuses.push(("SSE".into(), status));
    let mut frames = vec![];
    if status != 200 {
        return frames;
    }
    let mut stream = resp.body;
    let mut buf: Vec<u8> = vec![];
    let deadline = tokio::time::Instant::now() + Duration::from_secs(timeout_s);
    let mut done = false;
    let mut idle_after_disk = 0u32;
    while !done {
        let next = tokio::time::timeout(Duration::from_millis(250), stream.next()).await;
        let chunk = match next {
            Ok(Some(Ok(c))) => c,
            Ok(_) => break,
            Err(_) => {
                if on_disk() {
                    idle_after_disk += 1;
                    if idle_after_disk >= 4 {
                        obs.sse_gaps += 1;
                        break;
                    }
                }
                if tokio::time::Instant::now() >= deadline {
                    obs.errors.push(format!("GET {uri}: sse watchdog ({timeout_s}s) expired and the log has no terminal frame"));
                    break;
                }
                continue;
            }
        };
        idle_after_disk = 0;
        raw.extend_from_slice(&chunk);
        buf.extend_from_slice(&chunk);
        while let Some(p) = buf.windows(2).position(|w| w == b"\n\n") {
            let msg: Vec<u8> = buf.drain(..p + 2).collect();
            let text = String::from_utf8_lossy(&msg);
            for line in text.lines() {
                if let Some(d) = line.strip_prefix("data: ").or_else(|| line.strip_prefix("data:")) {
                    if let Ok(v) = serde_json::from_str::<Value>(d) {
                        if stop(&v) {
                            done = true;
                        }
                        frames.push(v);
                    }
                }
            }
        }
    }
    frames
}

/// The doctor asked with every "show me more" switch one might add later, and EVERY parameter-less GET endpoint the authority
/// advertises in its OpenAPI document that the harness does not call anyway (a diagnostics endpoint added later is asked as
/// soon as it exists).  Everything answered is canary-searched and takes part in the differential.
async fn ask_every_diagnostic(app: &Target, raw: &mut Vec<u8>, obs: &mut ChildObs) {
    call(app, raw, obs, "GET", "/config/doctor?verbose=1&debug=true&full=1&all=1&raw=1&reveal=true&show_secrets=1&include=secrets,keys,headers,env&format=text", None).await;
    // the OpenAPI document itself is static and large: read, not recorded
    let Ok(mut resp) = app.request("GET", "/openapi.json", None).await else { return };
    let mut doc: Vec<u8> = vec![];
    {
        use futures_util::StreamExt;
        while let Ok(Some(Ok(c))) = tokio::time::timeout(Duration::from_secs(60), resp.body.next()).await {
            doc.extend_from_slice(&c);
        }
    }
    let Ok(v) = serde_json::from_slice::<Value>(&doc) else { return };
    let mut paths: Vec<String> = v["paths"]
        .as_object()
        .map(|o| o.iter().filter(|(p, item)| !p.contains('{') && item.get("get").is_some()).map(|(p, _)| p.clone()).collect())
        .unwrap_or_default();
    paths.sort();
    for p in paths {
        if matches!(p.as_str(), "/config/doctor" | "/tasks" | "/threads" | "/openapi.json") {
            continue;
        }
        call_within(app, raw, obs, "GET", &p, None, 3).await;
    }
}

/// one run through the authority: a thread message (per-request overrides) or a session input; returns the session id
async fn drive_run(app: &Target, raw: &mut Vec<u8>, obs: &mut ChildObs, spec: &ChildSpec, prompt: &str) -> String {
    if spec.thread {
        let (_, b) = call(app, raw, obs, "POST", "/threads/ensure", None).await;
        let tid = serde_json::from_slice::<Value>(&b).ok().and_then(|v| v["thread_id"].as_str().map(String::from)).unwrap_or_default();
        let mut payload = json!({ "content": prompt });
        if let Some(o) = &spec.ovr {
            payload["openresponses"] = o.clone();
        }
        let (_, b) = call(app, raw, obs, "POST", &format!("/threads/{tid}/messages"), Some(payload)).await;
        let sid = serde_json::from_slice::<Value>(&b).ok().and_then(|v| v["session_id"].as_str().map(String::from)).unwrap_or_default();
        let events = Path::new(&spec.data_dir).join("events.jsonl");
        let cont_dir = Path::new(&spec.data_dir).join("continuity_streams");
        obs.session_frames = sse_until(app, raw, obs, &format!("/sessions/{sid}/events"), &|v| v["type"] == "session_ended", &|| log_has(&events, &sid, "session_ended"), 240).await;
        obs.thread_frames = sse_until(app, raw, obs, &format!("/threads/{tid}/events"), &|v| v["type"] == "continuity_run_ended" && v["run_session_id"].as_str().map(|s| s == sid).unwrap_or(true), &|| any_log_has(&cont_dir, &sid, "continuity_run_ended"), 240).await;
        for (m, u, body) in [
            ("POST", format!("/threads/{tid}/provider-cursor-status"), Some(json!({}))),
            ("POST", format!("/threads/{tid}/context-selection-status"), Some(json!({}))),
            ("POST", format!("/threads/{tid}/compaction-status"), Some(json!({}))),
            ("GET", format!("/threads/{tid}"), None),
            ("GET", "/threads".to_string(), None),
        ] {
            call(app, raw, obs, m, &u, body).await;
        }
        sid
    } else {
        drive_session_input(app, raw, obs, spec, prompt).await
    }
}

/// POST /sessions + input + SSE until the session ended + wait for the snapshot; returns the session id
async fn drive_session_input(app: &Target, raw: &mut Vec<u8>, obs: &mut ChildObs, spec: &ChildSpec, input: &str) -> String {
    let (_, b) = call(app, raw, obs, "POST", "/sessions", None).await;
    let sid = serde_json::from_slice::<Value>(&b).ok().and_then(|v| v["session_id"].as_str().map(String::from)).unwrap_or_default();
    call(app, raw, obs, "POST", &format!("/sessions/{sid}/input"), Some(json!({ "input": input }))).await;
    let events = Path::new(&spec.data_dir).join("events.jsonl");
    obs.session_frames = sse_until(app, raw, obs, &format!("/sessions/{sid}/events"), &|v| v["type"] == "session_ended", &|| log_has(&events, &sid, "session_ended"), 240).await;
    // the snapshot is written after session_ended
    let snap = Path::new(&spec.data_dir).join("snapshots").join(format!("{sid}.json"));
    for _ in 0..6000 {
        if snap.exists() && std::fs::metadata(&snap).map(|m| m.len() > 0).unwrap_or(false) {
            break;
        }
        tokio::time::sleep(Duration::from_millis(10)).await;
    }
    sid
}

/// a tool command envelope on the session path: `{"tool":"bash","args":{"command":..}}` (no provider involved)
async fn drive_tool_envelope(app: &Target, raw: &mut Vec<u8>, obs: &mut ChildObs, spec: &ChildSpec, command: &str) -> String {
    let input = serde_json::to_string(&json!({ "tool": "bash", "args": { "command": command } })).unwrap();
    drive_session_input(app, raw, obs, spec, &input).await
}

/// what the tool subprocesses of session `sid` printed on stdout, from the persisted log
fn tool_stdout_of(data_dir: &Path, sid: &str) -> String {
    let Ok(text) = std::fs::read_to_string(data_dir.join("events.jsonl")) else { return String::new() };
    let mut out = String::new();
    for l in text.lines() {
        if !(l.contains(sid) && l.contains("\"type\":\"tool_stdout\"")) {
            continue;
        }
        if let Ok(v) = serde_json::from_str::<Value>(l) {
            if let Some(c) = v["chunk"].as_str() {
                out.push_str(c);
                if !c.ends_with('\n') {
                    out.push('\n');
                }
            }
        }
    }
    out
}

/// a background task (pipes / pty spawn sites of ripd) running `command`; returns its output when `want_output`
async fn drive_task(app: &Target, raw: &mut Vec<u8>, obs: &mut ChildObs, mode: &str, command: &str, want_output: bool) -> Option<String> {
    let (st, b) = call(app, raw, obs, "POST", "/tasks", Some(json!({ "tool": "bash", "args": { "command": command }, "execution_mode": mode }))).await;
    let tid = serde_json::from_slice::<Value>(&b).ok().and_then(|v| v["task_id"].as_str().map(String::from)).unwrap_or_default();
    if tid.is_empty() {
        obs.errors.push(format!("POST /tasks ({mode}) gave {st} and no task id"));
        return None;
    }
    let mut done = false;
    for _ in 0..6000 {
        let (_, b) = call(app, raw, obs, "GET", &format!("/tasks/{tid}"), None).await;
        obs.bodies.pop();
        obs.statuses.pop();
        let stv = serde_json::from_slice::<Value>(&b).unwrap_or(Value::Null);
        if matches!(stv["status"].as_str(), Some("exited") | Some("failed") | Some("cancelled")) {
            done = true;
            break;
        }
        tokio::time::sleep(Duration::from_millis(50)).await;
    }
    if !done {
        obs.errors.push(format!("task {tid} ({mode}) did not finish"));
    }
    if !want_output {
        return None;
    }
    let stream = if mode == "pty" { "pty" } else { "stdout" };
    let (_, out) = call(app, raw, obs, "GET", &format!("/tasks/{tid}/output?stream={stream}&offset_bytes=0"), None).await;
    // {task_id, stream, content, ..}
    let text = serde_json::from_slice::<Value>(&out).ok().and_then(|v| v["content"].as_str().map(String::from)).unwrap_or_else(|| String::from_utf8_lossy(&out).to_string());
    // the dump must be a real one: PATH is always there
    if !text.contains("PATH") {
        obs.errors.push(format!("task env dump ({mode}) shows no PATH: {}", text.chars().take(200).collect::<String>()));
    }
    Some(text)
}

/// one background task of the spawn grid (POST /tasks with every argument of the probe); returns what it printed
async fn drive_task_probe(app: &Target, raw: &mut Vec<u8>, obs: &mut ChildObs, p: &SpawnProbe, i: usize, args: Value) -> Option<String> {
    let mut body = json!({ "tool": p.tool, "args": args });
    if let Some(m) = &p.mode {
        body["execution_mode"] = json!(m);
    }
    if let Some(t) = &p.title {
        body["title"] = json!(t);
    }
    if p.origin {
        body["origin_session_id"] = json!("00000000-0000-4000-8000-00000000c019");
    }
    let (st, b) = call(app, raw, obs, "POST", "/tasks", Some(body)).await;
    let tid = serde_json::from_slice::<Value>(&b).ok().and_then(|v| v["task_id"].as_str().map(String::from)).unwrap_or_default();
    if tid.is_empty() {
        obs.errors.push(format!("POST /tasks ({}) gave {st} and no task id", p.label()));
        return None;
    }
    let stream = if p.is_pty() { "pty" } else { "stdout" };
    let content_of = |b: &[u8]| serde_json::from_slice::<Value>(b).ok().and_then(|v| v["content"].as_str().map(String::from));
    let complete = |t: &str| if p.dump % 7 == 6 { t.contains("PATH=") } else { t.contains(&format!("RVEND-{i}")) };
    let mut done = false;
    // generous, load-independent watchdog (240 s)
    for _ in 0..4800 {
        let (_, b) = call(app, raw, obs, "GET", &format!("/tasks/{tid}"), None).await;
        obs.bodies.pop();
        obs.statuses.pop();
        let stv = serde_json::from_slice::<Value>(&b).unwrap_or(Value::Null);
        if matches!(stv["status"].as_str(), Some("exited") | Some("failed") | Some("cancelled")) {
            done = true;
            break;
        }
        if p.is_pty() {
            // a pty task never reaches a final status here: run_pty_task keeps the slave side of the pty open in the authority
            // (`pair.slave` lives to the end of the function), so its reader never sees the end of the output and the loop
            // `while !(exit_status.is_some() && output_closed)` does not end (ripd's own pty tests hang the same way).  Not a
            // C19 matter: the probe is over when its output is complete.
            let (_, out) = call(app, raw, obs, "GET", &format!("/tasks/{tid}/output?stream=pty&offset_bytes=0"), None).await;
            obs.bodies.pop();
            obs.statuses.pop();
            if content_of(&out).map(|t| complete(&t)).unwrap_or(false) {
                done = true;
                break;
            }
        }
        tokio::time::sleep(Duration::from_millis(50)).await;
    }
    if !done {
        obs.errors.push(format!("task {tid} ({}) did not finish", p.label()));
    }
    let (_, out) = call(app, raw, obs, "GET", &format!("/tasks/{tid}/output?stream={stream}&offset_bytes=0"), None).await;
    let text = content_of(&out).unwrap_or_else(|| String::from_utf8_lossy(&out).to_string());
    if p.is_pty() {
        call(app, raw, obs, "POST", &format!("/tasks/{tid}/cancel"), Some(json!({ "reason": "probe done" }))).await;
    } else {
        // the task's own event stream (a replay of its history): a sink of its own
        let ended = |v: &Value| v["type"] == "tool_task_status" && matches!(v["status"].as_str(), Some("exited") | Some("failed") | Some("cancelled"));
        sse_until(app, raw, obs, &format!("/tasks/{tid}/events"), &ended, &|| true, 60).await;
    }
    Some(text)
}

/// the SPAWN GRID on one authority process: every probe in order; the provider-requested ones in ONE run (at the position of
/// the first of them)
async fn drive_spawns(app: &Target, raw: &mut Vec<u8>, obs: &mut ChildObs, spec: &ChildSpec) {
    let data_dir = PathBuf::from(&spec.data_dir);
    obs.spawn_outs = vec![None; spec.spawns.len()];
    for p in &spec.spawns {
        if let (Some(c), false) = (&p.cwd, p.refused()) {
            if Path::new(&spec.workspace).join(c).is_dir() != p.dir_exists {
                obs.errors.push(format!("the probe's claim about its directory is wrong ({})", p.label()));
            }
        }
    }
    let mut provider_done = false;
    for (i, p) in spec.spawns.iter().enumerate() {
        let args = spec.spawn_args.get(i).cloned().unwrap_or(Value::Null);
        match p.via.as_str() {
            "envelope" => {
                let mut input = json!({ "tool": p.tool, "args": args });
                if let Some((_, t)) = p.extra.iter().find(|(k, _)| k == "timeout_ms") {
                    input["timeout_ms"] = json!(t);
                }
                let sid = drive_session_input(app, raw, obs, spec, &input.to_string()).await;
                obs.spawn_outs[i] = Some(tool_stdout_of(&data_dir, &sid));
            }
            "provider" if !provider_done => {
                provider_done = true;
                let sid = drive_run(app, raw, obs, spec, &spec.prompt).await;
                let out = tool_stdout_of(&data_dir, &sid);
                for (k, q) in spec.spawns.iter().enumerate() {
                    if q.via == "provider" {
                        obs.spawn_outs[k] = Some(out.clone());
                    }
                }
            }
            "task" => {
                obs.spawn_outs[i] = drive_task_probe(app, raw, obs, p, i, args).await;
            }
            _ => {}
        }
    }
}

async fn child_drive(spec: &ChildSpec) -> ChildObs {
    if let Some(rip) = &spec.rip_bin {
        return child_drive_cli(spec, rip).await;
    }
    let mut obs = ChildObs::default();
    let mut raw: Vec<u8> = vec![];
    let mut authority: Option<std::process::Child> = None;
    let app = if let Some(bin) = &spec.ripd_bin {
        // the real authority process: `ripd` (serve_default) configured through the environment only
        let out_dir = PathBuf::from(&spec.out_dir);
        let stderr_path = out_dir.join("ripd.stderr");
        let mut cmd = std::process::Command::new(bin);
        cmd.env("RIP_DATA_DIR", &spec.data_dir)
            .env("RIP_WORKSPACE_ROOT", &spec.workspace)
            .env("RIP_SERVER_ADDR", "127.0.0.1:0")
            .stdin(std::process::Stdio::null())
            .stdout(std::fs::File::create(out_dir.join("ripd.stdout")).unwrap())
            .stderr(std::fs::File::create(&stderr_path).unwrap());
        let child = match cmd.spawn() {
            Ok(c) => c,
            Err(e) => {
                obs.errors.push(format!("spawn {bin}: {e}"));
                return obs;
            }
        };
        authority = Some(child);
        // generous, load-independent watchdog: the line appears once the listener is bound
        let mut addr = None;
        for _ in 0..24000 {
            if let Ok(t) = std::fs::read_to_string(&stderr_path) {
                // stderr is unbuffered and eprintln! writes its pieces separately: only complete lines count
                let complete = t.rfind('\n').map(|p| &t[..p]).unwrap_or("");
                if let Some(l) = complete.lines().find_map(|l| l.strip_prefix("ripd listening on ")) {
                    if l.trim().starts_with("http://") {
                        addr = Some(l.trim().to_string());
                        break;
                    }
                }
            }
            if let Some(Ok(Some(st))) = authority.as_mut().map(|c| c.try_wait()) {
                obs.errors.push(format!("ripd exited before listening: {st}"));
                return obs;
            }
            tokio::time::sleep(Duration::from_millis(10)).await;
        }
        let Some(addr) = addr else {
            obs.errors.push("ripd never announced its address".into());
            if let Some(mut c) = authority {
                let _ = c.kill();
                let _ = c.wait();
            }
            return obs;
        };
        obs.authority = addr.clone();
        Target::Http(reqwest::Client::builder().no_proxy().build().unwrap(), addr)
    } else {
        // exactly what `ripd::server::serve` does at start-up
        let default_cfg = ripd::verif::OpenResponsesConfig::from_env();
        Target::InProc(ripd::verif::build_app(PathBuf::from(&spec.data_dir), PathBuf::from(&spec.workspace), default_cfg))
    };

    let (_, b) = call(&app, &mut raw, &mut obs, "GET", "/config/doctor", None).await;
    obs.doctor = serde_json::from_slice(&b).unwrap_or(Value::Null);

    if !spec.spawns.is_empty() {
        drive_spawns(&app, &mut raw, &mut obs, spec).await;
    } else if let Some(p2) = &spec.phase2 {
        // MULTI-STEP: warm-up (a subprocess is spawned) -> the configuration files are edited -> load -> probe
        match p2.warmup.as_str() {
            "session-tool" => {
                drive_tool_envelope(&app, &mut raw, &mut obs, spec, "echo warmup").await;
            }
            "task" => {
                drive_task(&app, &mut raw, &mut obs, "pipes", "echo warmup", false).await;
            }
            "provider-bash" => {
                drive_run(&app, &mut raw, &mut obs, spec, &format!("{} (warm-up)", spec.prompt)).await;
            }
            _ => {}
        }
        for (path, text) in &p2.files {
            if let Some(dir) = Path::new(path).parent() {
                let _ = std::fs::create_dir_all(dir);
            }
            // written next to the target and renamed: a reader never sees a half-written file
            let tmp = format!("{path}.rv-tmp");
            if std::fs::write(&tmp, text).and_then(|_| std::fs::rename(&tmp, path)).is_err() {
                obs.errors.push(format!("could not write the edited configuration file {path}"));
            }
        }
        if p2.load == "doctor" {
            let (_, b) = call(&app, &mut raw, &mut obs, "GET", "/config/doctor", None).await;
            let d: Value = serde_json::from_slice(&b).unwrap_or(Value::Null);
            if d["openresponses"]["api_key_source"].as_str() != Some(&format!("env:{}", p2.name)) {
                obs.errors.push(format!("the edited configuration was not picked up: doctor says {}", d["openresponses"]));
            }
        }
        let cmd = format!("printenv {}; env", p2.name);
        let out = match p2.probe.as_str() {
            "session-tool" => {
                let sid = drive_tool_envelope(&app, &mut raw, &mut obs, spec, &cmd).await;
                tool_stdout_of(Path::new(&spec.data_dir), &sid)
            }
            "task" => drive_task(&app, &mut raw, &mut obs, "pipes", &cmd, true).await.unwrap_or_default(),
            _ => {
                let sid = drive_run(&app, &mut raw, &mut obs, spec, &spec.prompt).await;
                tool_stdout_of(Path::new(&spec.data_dir), &sid)
            }
        };
        // the dump must be a real one: PATH is always there
        if !out.lines().any(|l| l.starts_with("PATH=")) {
            obs.errors.push(format!("the probe ({}) shows no PATH: {}", p2.probe, out.chars().take(200).collect::<String>()));
        }
        obs.probe_out = Some(out);
    } else if spec.doctor_only {
    } else {
        drive_run(&app, &mut raw, &mut obs, spec, &spec.prompt).await;
    }
    if let Some(mode) = &spec.task_env_dump {
        // a background task that dumps its environment (pipes / pty spawn sites of ripd)
        drive_task(&app, &mut raw, &mut obs, mode, "env", true).await;
    }
    let (_, b) = call(&app, &mut raw, &mut obs, "GET", "/config/doctor", None).await;
    obs.doctor_after = serde_json::from_slice(&b).unwrap_or(Value::Null);
    if let Some(p2) = &spec.phase2 {
        if obs.doctor_after["openresponses"]["api_key_source"].as_str() != Some(&format!("env:{}", p2.name)) {
            obs.errors.push(format!("the edited configuration is not in effect at the end: doctor says {}", obs.doctor_after["openresponses"]));
        }
    }
    call(&app, &mut raw, &mut obs, "GET", "/tasks", None).await;
    ask_every_diagnostic(&app, &mut raw, &mut obs).await;
    tokio::time::sleep(Duration::from_millis(30)).await;
    std::fs::write(&spec.out_raw, &raw).unwrap();
    drop(app);
    if let Some(mut c) = authority {
        // graceful stop (SIGTERM -> axum graceful shutdown, lock released), then make sure it is gone
        unsafe {
            libc::kill(c.id() as i32, libc::SIGTERM);
        }
        let mut gone = false;
        // (a pty task that never ends - see drive_task_probe - keeps a blocking reader alive: the runtime of the authority does
        // not come down on its own)
        let patience = if spec.spawns.iter().any(|p| p.is_pty()) { 300 } else { 3000 };
        for _ in 0..patience {
            if let Ok(Some(_)) = c.try_wait() {
                gone = true;
                break;
            }
            tokio::time::sleep(Duration::from_millis(10)).await;
        }
        if !gone {
            let _ = c.kill();
            let _ = c.wait();
        }
    }
    obs
}

// ------------------------------------------------------------------ provider scripts
fn sse(lines: &[Value], done: bool) -> String {
    let mut s = String::new();
    for l in lines {
        s.push_str(&format!("data: {}\n\n", serde_json::to_string(l).unwrap()));
    }
    if done {
        s.push_str("data: [DONE]\n\n");
    }
    s
}
fn ev_created(id: &str) -> Value {
    json!({"type":"response.created","response":{"id":id}})
}
fn ev_delta(t: &str) -> Value {
    json!({"type":"response.output_text.delta","delta":t})
}
fn ev_call(call_id: &str, name: &str, args: &str) -> Vec<Value> {
    vec![
        json!({"type":"response.output_item.added","output_index":0,"item":{"type":"function_call","call_id":call_id,"name":name,"arguments":args}}),
        json!({"type":"response.output_item.done","output_index":0,"item":{"type":"function_call","call_id":call_id,"name":name,"arguments":args}}),
    ]
}
/// the provider's answers for a whole scenario: the outcome's script, or - multi-step - the warm-up's and the probe's
/// the credential variable names of a scenario (the three fixed ones, every `{ "env": NAME }` of its files) + the public marker
fn probe_names(sc: &Scenario) -> Vec<String> {
    let mut v: Vec<String> = vec!["RIP_OPENRESPONSES_API_KEY".into(), "OPENAI_API_KEY".into(), "OPENROUTER_API_KEY".into()];
    for l in &sc.layers {
        for p in &l.providers {
            if let Some(KeySpec::Env(n)) = &p.api_key {
                if !v.contains(n) {
                    v.push(n.clone());
                }
            }
        }
    }
    v.push("RV_PUBLIC_MARKER".into());
    v
}
fn script_for_scenario(sc: &Scenario) -> Vec<Scripted> {
    if sc.spawns.iter().any(|p| p.via == "provider") {
        // the spawn grid: ONE answer asks for every provider-requested probe (one function call each), the next one ends the run
        let names = probe_names(sc);
        let mut first = vec![ev_created("resp_g_1")];
        let mut k = 0u64;
        for (i, p) in sc.spawns.iter().enumerate() {
            if p.via == "provider" {
                let item = json!({"type":"function_call","call_id":format!("call_g{i}"),"name":p.tool,"arguments":serde_json::to_string(&p.args(i, &names)).unwrap()});
                first.push(json!({"type":"response.output_item.added","output_index":k,"item":item}));
                first.push(json!({"type":"response.output_item.done","output_index":k,"item":item}));
                k += 1;
            }
        }
        return vec![Scripted::sse_text(&sse(&first, true)), Scripted::sse_text(&sse(&[ev_created("resp_g_2"), ev_delta("done")], true))];
    }
    let Some(p2) = &sc.phase2 else { return script_for(sc.outcome, if sc.http_status == 0 { 500 } else { sc.http_status }) };
    let ask = |id: &str, cmd: &str| {
        let mut first = vec![ev_created(&format!("resp_{id}_1"))];
        first.extend(ev_call(&format!("call_{id}"), "bash", &serde_json::to_string(&json!({ "command": cmd })).unwrap()));
        vec![Scripted::sse_text(&sse(&first, true)), Scripted::sse_text(&sse(&[ev_created(&format!("resp_{id}_2")), ev_delta("done")], true))]
    };
    let mut v = vec![];
    if p2.warmup == "provider-bash" {
        v.extend(ask("w", "echo warmup"));
    }
    if p2.probe == "provider-bash" {
        v.extend(ask("p", &format!("printenv {}; env", p2.name)));
    }
    v
}
fn script_for(outcome: u8, status: u16) -> Vec<Scripted> {
    let echo = || {
        let mut s = Scripted::http_error(status, "");
        s.echo_request_body = true;
        s
    };
    match outcome {
        0 => vec![Scripted::sse_text(&sse(&[ev_created("resp_ok_1"), ev_delta("hello")], true))],
        1 => vec![echo()],
        2 => vec![],
        3 => {
            let mut s = Scripted::sse_text(&sse(&[ev_created("resp_x")], true));
            s.drop_after_chunks = Some(0);
            vec![s]
        }
        4 => {
            let mut s = Scripted::sse(vec![sse(&[ev_created("resp_y"), ev_delta("par")], false).into_bytes(), sse(&[ev_delta("tial")], true).into_bytes()]);
            s.drop_after_chunks = Some(1);
            s.delay_ms = 5;
            vec![s]
        }
        5 => vec![Scripted::sse_text(&format!(
            "data: {{not json}}\n\nevent: bogus\ndata: {}\n\n{}",
            json!({"type":"response.bogus","x":1}),
            sse(&[json!({"type":"response.completed","response":{"id":"resp_v","bogus_field":true}})], true)
        ))],
        8 => {
            // corpus/C19/b1_printenv.json: the provider asks the shell tool for the key variable (KNOWN_FINDINGS C19/B1)
            let mut first = vec![ev_created("resp_p1")];
            first.extend(ev_call("call_p", "bash", "{\"command\":\"printenv RIP_OPENRESPONSES_API_KEY; env\"}"));
            vec![Scripted::sse_text(&sse(&first, true)), Scripted::sse_text(&sse(&[ev_created("resp_p2"), ev_delta("done")], true))]
        }
        6 => {
            let mut first = vec![ev_created("resp_t1")];
            first.extend(ev_call("call_1", "read", "{\"path\":\"no/such/file.txt\"}"));
            vec![Scripted::sse_text(&sse(&first, true)), Scripted::sse_text(&sse(&[ev_created("resp_t2"), ev_delta("done")], true))]
        }
        _ => {
            let mut first = vec![ev_created("resp_u1")];
            first.extend(ev_call("call_9", "ls", "{\"path\":\".\"}"));
            vec![Scripted::sse_text(&sse(&first, true)), echo()]
        }
    }
}

// ------------------------------------------------------------------ one run (parent side)
struct RunOut {
    sc: Scenario, // concrete
    obs: ChildObs,
    /// frames of the persisted logs (complete, unlike an SSE read): data/events.jsonl and the continuity stream
    disk_session: Vec<Value>,
    disk_thread: Vec<Value>,
    recorded: Vec<Recorded>,
    /// (relative path, bytes) of every file under the data dir and workspace/.rip
    files: Vec<(String, Vec<u8>)>,
    raw_responses: Vec<u8>,
    stdout: Vec<u8>,
    stderr: Vec<u8>,
    exit_ok: bool,
    root: String,
    prov: String,
    dead: String,
    authority: String,
    /// the canaries of this run (key core, header core, numeric)
    canaries: [String; 3],
    /// process output that takes part in the DIFFERENTIAL (deterministic up to canonicalisation): the child's own stdout / stderr
    /// (in-process router), the real `ripd` process's, and - when no invocation had to be repeated - `rip`'s stderr
    proc_diff: Vec<(String, Vec<u8>)>,
}

fn walk(dir: &Path, base: &Path, out: &mut Vec<(String, Vec<u8>)>) {
    let Ok(rd) = std::fs::read_dir(dir) else { return };
    let mut ents: Vec<_> = rd.flatten().collect();
    ents.sort_by_key(|e| e.file_name());
    for e in ents {
        let p = e.path();
        if p.is_dir() {
            walk(&p, base, out);
        } else if let Ok(b) = std::fs::read(&p) {
            out.push((p.strip_prefix(base).unwrap_or(&p).display().to_string(), b));
        }
    }
}

/// the real authority binary (`c19_ripd`, built next to this executable by the check's pre_cmd), or $RV_RIPD_BIN
fn ripd_bin() -> Option<PathBuf> {
    if let Ok(p) = std::env::var("RV_RIPD_BIN") {
        let p = PathBuf::from(p);
        return p.exists().then_some(p);
    }
    let exe = std::env::current_exe().ok()?;
    let p = exe.parent()?.join("c19_ripd");
    p.exists().then_some(p)
}

/// the real `rip` binary (built by the check's pre_cmd into harness/target-cli, shared with C20), or $RV_RIP_BIN
fn rip_bin() -> Option<PathBuf> {
    if let Ok(p) = std::env::var("RV_RIP_BIN") {
        let p = PathBuf::from(p);
        return p.exists().then_some(p);
    }
    let exe = std::env::current_exe().ok()?;
    let p = exe.parent()?.parent()?.parent()?.join("target-cli/debug/rip");
    p.exists().then_some(p)
}

/// An address that refuses connections for as long as the value lives: a socket that is BOUND (so nobody else on this
/// shared box can get the port - picking a free port and releasing it raced with other builders' servers and with this
/// harness's own scripted providers: a "dead" endpoint that answered) but never listens, so connect() gets ECONNREFUSED.
struct DeadAddr {
    fd: i32,
    url: String,
}
impl DeadAddr {
    fn new() -> DeadAddr {
        unsafe {
            let fd = libc::socket(libc::AF_INET, libc::SOCK_STREAM | libc::SOCK_CLOEXEC, 0);
            assert!(fd >= 0, "socket");
            let mut sa: libc::sockaddr_in = std::mem::zeroed();
            sa.sin_family = libc::AF_INET as libc::sa_family_t;
            sa.sin_port = 0;
            sa.sin_addr = libc::in_addr { s_addr: u32::from_ne_bytes([127, 0, 0, 1]) };
            let rc = libc::bind(fd, &sa as *const libc::sockaddr_in as *const libc::sockaddr, std::mem::size_of::<libc::sockaddr_in>() as libc::socklen_t);
            assert!(rc == 0, "bind");
            let mut out: libc::sockaddr_in = std::mem::zeroed();
            let mut len = std::mem::size_of::<libc::sockaddr_in>() as libc::socklen_t;
            let rc = libc::getsockname(fd, &mut out as *mut libc::sockaddr_in as *mut libc::sockaddr, &mut len);
            assert!(rc == 0, "getsockname");
            DeadAddr { fd, url: format!("http://127.0.0.1:{}", u16::from_be(out.sin_port)) }
        }
    }
}
impl Drop for DeadAddr {
    fn drop(&mut self) {
        unsafe {
            libc::close(self.fd);
        }
    }
}

fn run_once(sc: &Scenario, key: &str, hdr: &str, num: &str) -> RunOut {
    let scratch = Scratch::new("c19");
    let root = scratch.path().to_path_buf();
    let provider = ScriptedProvider::start(script_for_scenario(sc));
    let prov = provider.url.trim_end_matches("/v1/responses").to_string();
    let dead_guard = DeadAddr::new();
    let dead = dead_guard.url.clone();
    let target = if sc.outcome == 2 { dead.clone() } else { prov.clone() };
    let rkey: String = key.chars().rev().collect();
    let schemeless = target.trim_start_matches("http://").to_string();
    let ws_abs = root.join("outer/ws").display().to_string();
    let m: Vec<(&str, &str)> = vec![("{{K}}", key), ("{{R}}", &rkey), ("{{H}}", hdr), ("{{N}}", num), ("{{P}}", &target), ("{{Q}}", &schemeless), ("{{W}}", &ws_abs)];
    let c = concretise(sc, &m);
    for d in ["home/.rip", "cfghome", "custom", "outer/.git", "outer/ws", "data", "out"] {
        std::fs::create_dir_all(root.join(d)).unwrap();
    }
    for l in &c.layers {
        std::fs::write(root.join(layer_relpath(l.slot, c.config_home)), subst(&layer_text(l), &m)).unwrap();
    }
    if !c.spawns.is_empty() {
        // the directories the probes' `cwd` arguments name
        for d in ["outer/ws/sub/deeper", "outer/ws/with space"] {
            std::fs::create_dir_all(root.join(d)).unwrap();
        }
    }
    let names = probe_names(&c);
    let spec = ChildSpec {
        data_dir: root.join("data").display().to_string(),
        workspace: root.join("outer/ws").display().to_string(),
        thread: c.thread,
        ovr: c.ovr.as_ref().map(|o| {
            let mut v = serde_json::Map::new();
            if let Some(x) = &o.endpoint {
                v.insert("endpoint".into(), json!(x));
            }
            if let Some(x) = &o.model {
                v.insert("model".into(), json!(x));
            }
            if let Some(x) = o.stateless {
                v.insert("stateless_history".into(), json!(x));
            }
            if let Some(x) = o.parallel {
                v.insert("parallel_tool_calls".into(), json!(x));
            }
            if let Some(x) = &o.followup {
                v.insert("followup_user_message".into(), json!(x));
            }
            Value::Object(v)
        }),
        prompt: c.prompt.clone(),
        out_obs: root.join("out/obs.json").display().to_string(),
        out_raw: root.join("out/raw.bin").display().to_string(),
        ripd_bin: if c.real_authority && !c.cli { ripd_bin().map(|p| p.display().to_string()) } else { None },
        out_dir: root.join("out").display().to_string(),
        doctor_only: c.doctor_only,
        rip_bin: if c.cli { rip_bin().map(|p| p.display().to_string()) } else { None },
        task_env_dump: c.task_env_dump.clone(),
        cli_run: c.cli_run.clone(),
        phase2: c.phase2.as_ref().map(|p| ChildPhase2 {
            warmup: p.warmup.clone(),
            files: p.layers.iter().map(|l| (root.join(layer_relpath(l.slot, c.config_home)).display().to_string(), subst(&layer_text(l), &m))).collect(),
            load: p.load.clone(),
            probe: p.probe.clone(),
            name: p.name.clone(),
        }),
        spawn_args: c.spawns.iter().enumerate().map(|(i, p)| p.args(i, &names)).collect(),
        spawns: c.spawns.clone(),
    };
    let spec_path = root.join("out/spec.json");
    std::fs::write(&spec_path, serde_json::to_vec(&spec).unwrap()).unwrap();
    let exe = std::env::current_exe().unwrap();
    let mut cmd = std::process::Command::new("timeout");
    cmd.arg("900").arg(exe).arg("--child").arg(&spec_path);
    cmd.env_clear();
    if c.nobash {
        // a PATH with everything the probes use except bash
        let bin = root.join("nobash-bin");
        std::fs::create_dir_all(&bin).unwrap();
        for tool in ["sh", "env", "printenv", "cat", "tr", "dd", "timeout", "sort"] {
            let real = std::env::var("PATH").unwrap_or_default().split(':').map(|d| Path::new(d).join(tool)).find(|p| p.exists());
            if let Some(real) = real {
                let _ = std::os::unix::fs::symlink(real, bin.join(tool));
            }
        }
        cmd.env("PATH", &bin);
    } else {
        cmd.env("PATH", std::env::var("PATH").unwrap_or_else(|_| "/usr/bin:/bin".into()));
    }
    cmd.env("HOME", root.join("home"));
    if c.config_home {
        cmd.env("RIP_CONFIG_HOME", root.join("cfghome"));
    }
    if c.layers.iter().chain(c.phase2.iter().flat_map(|p| p.layers.iter())).any(|l| l.slot == 2) {
        cmd.env("RIP_CONFIG", root.join(layer_relpath(2, false)));
    }
    cmd.env("NO_PROXY", "127.0.0.1,localhost");
    for (k, v) in &c.env {
        cmd.env(k, v);
    }
    cmd.current_dir(root.join("outer/ws"));
    let out = cmd.output().expect("spawn child");
    drop(dead_guard);
    let obs: ChildObs = std::fs::read(root.join("out/obs.json")).ok().and_then(|b| serde_json::from_slice(&b).ok()).unwrap_or_default();
    let mut files = vec![];
    walk(&root.join("data"), &root, &mut files);
    walk(&root.join("outer/ws/.rip"), &root, &mut files);
    let raw_responses = std::fs::read(root.join("out/raw.bin")).unwrap_or_default();
    let recorded = provider.recorded();
    let mut proc_diff: Vec<(String, Vec<u8>)> = vec![
        ("child-stdout".into(), out.stdout.clone()),
        ("child-stderr".into(), out.stderr.clone()),
        ("ripd-stdout".into(), std::fs::read(root.join("out/ripd.stdout")).unwrap_or_default()),
        ("ripd-stderr".into(), std::fs::read(root.join("out/ripd.stderr")).unwrap_or_default()),
    ];
    if obs.cli_waits == 0 {
        proc_diff.push(("rip-stderr".into(), obs.cli_runs.iter().flat_map(|(code, _, se)| format!("[exit {code}] {se}\n").into_bytes()).collect()));
    }
    let mut child_stdout = out.stdout.clone();
    let mut child_stderr = out.stderr.clone();
    child_stdout.extend(std::fs::read(root.join("out/ripd.stdout")).unwrap_or_default());
    child_stderr.extend(std::fs::read(root.join("out/ripd.stderr")).unwrap_or_default());
    for (code, so, se) in &obs.cli_runs {
        child_stdout.extend(format!("\n### rip .. -> exit {code}\n{so}").into_bytes());
        child_stderr.extend(format!("\n### rip .. -> exit {code}\n{se}").into_bytes());
    }
    let parse_lines = |b: &[u8]| -> Vec<Value> { String::from_utf8_lossy(b).lines().filter_map(|l| serde_json::from_str::<Value>(l).ok()).collect() };
    let mut disk_session = vec![];
    let mut disk_thread = vec![];
    for (p, b) in &files {
        if p == "data/events.jsonl" {
            disk_session = parse_lines(b);
        } else if p.starts_with("data/continuity_streams/") && p.ends_with(".jsonl") && p.matches('.').count() == 1 {
            disk_thread.extend(parse_lines(b));
        }
    }
    let obs_authority = obs.authority.clone();
    RunOut {
        sc: c,
        obs,
        disk_session,
        disk_thread,
        recorded,
        files,
        raw_responses,
        stdout: child_stdout,
        stderr: child_stderr,
        authority: obs_authority,
        canaries: [key.to_string(), hdr.to_string(), num.to_string()],
        proc_diff,
        exit_ok: out.status.success(),
        root: root.display().to_string(),
        prov,
        dead,
    }
}

// ------------------------------------------------------------------ canary search + canonicalisation
fn b64(data: &[u8]) -> String {
    const T: &[u8; 64] = b"ABCDEFGHIJKLMNOPQRSTUVWXYZabcdefghijklmnopqrstuvwxyz0123456789+/";
    let mut o = String::new();
    for ch in data.chunks(3) {
        let n = (ch[0] as u32) << 16 | (*ch.get(1).unwrap_or(&0) as u32) << 8 | *ch.get(2).unwrap_or(&0) as u32;
        o.push(T[(n >> 18) as usize & 63] as char);
        o.push(T[(n >> 12) as usize & 63] as char);
        o.push(if ch.len() > 1 { T[(n >> 6) as usize & 63] as char } else { '=' });
        o.push(if ch.len() > 2 { T[n as usize & 63] as char } else { '=' });
    }
    o
}
/// byte patterns under which the canary core would show up: raw (also covers JSON-escaped and
/// URL-encoded forms since the core is alphanumeric), base64 at the three alignments (inner part
/// that does not depend on the neighbours), lower/upper hex
fn canary_forms(core: &str) -> Vec<(String, Vec<u8>)> {
    let c = core.as_bytes();
    let mut v = vec![("raw".to_string(), c.to_vec())];
    for a in 0..3usize {
        // prefix `a` unknown bytes: drop the chars they touch; drop the tail chars the suffix touches
        let mut padded = vec![0u8; a];
        padded.extend_from_slice(c);
        let enc = b64(&padded);
        let enc = enc.trim_end_matches('=');
        let skip = if a == 0 { 0 } else { a + 1 };
        let usable = &enc[skip..];
        let tail_bits = (padded.len() * 8) % 6;
        let usable = if tail_bits == 0 { usable } else { &usable[..usable.len() - 1] };
        v.push((format!("base64@{a}"), usable.as_bytes().to_vec()));
        let url: String = usable.chars().map(|ch| if ch == '+' { '-' } else if ch == '/' { '_' } else { ch }).collect();
        if url != usable {
            v.push((format!("base64url@{a}"), url.into_bytes()));
        }
    }
    let hex: String = c.iter().map(|b| format!("{b:02x}")).collect();
    v.push(("hex".into(), hex.clone().into_bytes()));
    v.push(("HEX".into(), hex.to_uppercase().into_bytes()));
    let rev: Vec<u8> = c.iter().rev().cloned().collect();
    v.push(("reversed".into(), rev));
    v
}
fn find(hay: &[u8], needle: &[u8]) -> Option<usize> {
    if needle.is_empty() || hay.len() < needle.len() {
        return None;
    }
    hay.windows(needle.len()).position(|w| w == needle)
}

fn is_hex(b: u8) -> bool {
    b.is_ascii_digit() || (b'a'..=b'f').contains(&b) || (b'A'..=b'F').contains(&b)
}
/// canonical form of persisted bytes: run-specific values (scratch root, ports, uuids, hashes,
/// `*_ms` numbers) replaced by fixed tokens
fn canon(bytes: &[u8], r: &RunOut) -> Vec<u8> {
    let mut s = bytes.to_vec();
    let rep = |s: Vec<u8>, from: &str, to: &str| -> Vec<u8> {
        if from.is_empty() {
            return s;
        }
        let f = from.as_bytes();
        let mut o = Vec::with_capacity(s.len());
        let mut i = 0;
        while i < s.len() {
            if s[i..].starts_with(f) {
                o.extend_from_slice(to.as_bytes());
                i += f.len();
            } else {
                o.push(s[i]);
                i += 1;
            }
        }
        o
    };
    s = rep(s, &r.root, "<ROOT>");
    s = rep(s, r.prov.trim_start_matches("http://"), "<PROV>");
    s = rep(s, r.dead.trim_start_matches("http://"), "<DEAD>");
    s = rep(s, r.authority.trim_start_matches("http://"), "<AUTH>");
    // uuids (8-4-4-4-12) and long hex runs (>= 32)
    let mut o: Vec<u8> = Vec::with_capacity(s.len());
    let mut i = 0;
    while i < s.len() {
        if is_hex(s[i]) && (i == 0 || !is_hex(s[i - 1])) {
            let mut j = i;
            while j < s.len() && is_hex(s[j]) {
                j += 1;
            }
            let run = j - i;
            if run == 8 && s.len() >= i + 36 {
                let u = &s[i..i + 36];
                let ok = u.iter().enumerate().all(|(k, b)| if k == 8 || k == 13 || k == 18 || k == 23 { *b == b'-' } else { is_hex(*b) });
                if ok && (i + 36 == s.len() || !is_hex(s[i + 36])) {
                    o.extend_from_slice(b"<UUID>");
                    i += 36;
                    continue;
                }
            }
            if run >= 32 {
                o.extend_from_slice(b"<HEX>");
                i = j;
                continue;
            }
            o.extend_from_slice(&s[i..j]);
            i = j;
            continue;
        }
        o.push(s[i]);
        i += 1;
    }
    // numbers after keys ending in `_ms"` / `"ts"` style fields, and "pid"
    let s = o;
    let mut o: Vec<u8> = Vec::with_capacity(s.len());
    let mut i = 0;
    while i < s.len() {
        o.push(s[i]);
        if s[i] == b'"' && i >= 3 && (&s[i - 3..i] == b"_ms" || &s[i - 3..i] == b"pid") {
            // skip `: ` then digits
            let mut j = i + 1;
            while j < s.len() && (s[j] == b':' || s[j] == b' ') {
                j += 1;
            }
            if j < s.len() && s[j].is_ascii_digit() && j > i + 1 {
                let mut k = j;
                while k < s.len() && s[k].is_ascii_digit() {
                    k += 1;
                }
                o.extend_from_slice(&s[i + 1..j]);
                o.push(b'0');
                i = k;
                continue;
            }
        }
        i += 1;
    }
    o
}
fn canon_files(r: &RunOut) -> Vec<(String, Vec<u8>)> {
    // `*.bin` sidecars are open-addressing hash tables keyed by random uuids: slot positions are
    // run-specific, so only their size takes part in the differential (they ARE canary-searched)
    // the authority lock directory (data/authority: lock + meta.json of the real `ripd` process) exists or not
    // depending on how the process went down (graceful stop removes it): canary-searched, not diffed
    let mut v: Vec<(String, Vec<u8>)> = r
        .files
        .iter()
        .filter(|(p, _)| !p.starts_with("data/authority/"))
        .map(|(p, b)| {
            let content = if p.ends_with(".bin") { format!("<BIN len={}>", b.len()).into_bytes() } else { canon(b, r) };
            (String::from_utf8_lossy(&canon(p.as_bytes(), r)).to_string(), content)
        })
        .collect();
    v.sort();
    v
}

// ------------------------------------------------------------------ observation (shared with the model)
fn enc_ostr(out: &mut Vec<u64>, s: Option<&str>) {
    match s {
        None => out.push(0),
        Some(x) => {
            out.push(1);
            enc_str(out, x);
        }
    }
}
fn kind_code(k: &str) -> u64 {
    match k {
        "prompt" => 0,
        "initial_items" => 1,
        "stateless_history" => 2,
        "followup" => 3,
        "followup_stateless_history" => 4,
        _ => 9,
    }
}
/// a request as the scripted provider recorded it: authorization, custom headers (sorted), model, parallel flag
fn enc_recorded(o: &mut Vec<u64>, req: Option<&Recorded>) {
    match req {
        None => o.push(0),
        Some(req) => {
            o.push(1);
            let auth: Vec<&(String, String)> = req.headers.iter().filter(|(k, _)| k == "authorization").collect();
            enc_ostr(o, auth.first().map(|(_, v)| v.as_str()));
            let mut custom: Vec<(String, String)> = req
                .headers
                .iter()
                .filter(|(k, _)| !matches!(k.as_str(), "authorization" | "content-type" | "content-length" | "accept" | "host" | "user-agent" | "accept-encoding" | "connection" | "transfer-encoding"))
                .cloned()
                .collect();
            custom.sort();
            o.push(custom.len() as u64);
            for (k, v) in &custom {
                enc_str(o, k);
                enc_str(o, v);
            }
            let b = req.json();
            enc_ostr(o, b["model"].as_str());
            enc_bool(o, b["parallel_tool_calls"].as_bool().unwrap_or(false));
        }
    }
}
/// spawn grid: the names whose visibility is compared - the scenario's environment in order, then the names that only a call's
/// `env` argument supplies, in order of first appearance
fn view_names(sc: &Scenario) -> Vec<String> {
    let mut v: Vec<String> = sc.env.iter().map(|(k, _)| k.clone()).collect();
    for p in &sc.spawns {
        for (k, _) in p.env.iter().flatten() {
            if !v.contains(k) {
                v.push(k.clone());
            }
        }
    }
    v
}
/// the (name, value) pairs probe i's subprocess printed in its view section
fn spawn_view_of(r: &RunOut, i: usize) -> Option<Vec<(String, String)>> {
    let p = &r.sc.spawns[i];
    let out = r.obs.spawn_outs.get(i).cloned().flatten()?;
    probe_view(&out, i, p.dump % 7 == 6)
}
/// per probe: None (no subprocess printed a view) or one code per name of `view_names`: 0 not in the subprocess's environment,
/// 1 there with the authority's value, 2 there with the value of the call's own `env`, 3 there with some other value
fn spawn_views(r: &RunOut) -> Vec<Option<Vec<u64>>> {
    let names = view_names(&r.sc);
    (0..r.sc.spawns.len())
        .map(|i| {
            let view = spawn_view_of(r, i)?;
            let p = &r.sc.spawns[i];
            Some(
                names
                    .iter()
                    .map(|k| match view.iter().find(|(n, _)| n == k) {
                        None => 0,
                        Some((_, v)) => {
                            if p.env.iter().flatten().any(|(n, x)| n == k && x == v) {
                                2
                            } else if r.sc.env.iter().any(|(n, x)| n == k && x == v) {
                                1
                            } else {
                                3
                            }
                        }
                    })
                    .collect(),
            )
        })
        .collect()
}
/// what the implementation showed, flattened (mirrors `model_obs` in Model/SecretFlow.v)
fn observe(r: &RunOut) -> Vec<u64> {
    let mut o = vec![];
    // -1. what the authority printed at start-up about an unusable tool choice (its stderr; authority.log when the CLI
    //     spawned it; the in-process child calls from_env itself, as `serve` does)
    let mut outs: Vec<u8> = r.stderr.clone();
    for (p, b) in &r.files {
        if p.ends_with("authority/authority.log") {
            outs.push(b'\n');
            outs.extend_from_slice(b);
        }
    }
    let warns: Vec<String> = String::from_utf8_lossy(&outs).lines().filter(|l| l.starts_with("invalid RIP_OPENRESPONSES_TOOL_CHOICE=")).map(String::from).collect();
    o.push(warns.len() as u64);
    for w in &warns {
        enc_str(&mut o, w);
    }
    // (multi-step scenarios: the report AFTER the edit)
    let doctor = if r.sc.phase2.is_some() { &r.obs.doctor_after } else { &r.obs.doctor };
    // 0. error texts of the per-source report, except those of files that do not parse / cannot be read (outside the model)
    let errs: Vec<String> = doctor["sources"]
        .as_array()
        .map(|a| {
            a.iter()
                .filter(|x| {
                    let st = x["status"].as_str().unwrap_or("");
                    !(matches!(st, "invalid:global" | "invalid:custom" | "invalid:project") || st.starts_with("unreadable:"))
                })
                .filter_map(|x| x.get("error").filter(|e| !e.is_null()).map(|e| e.as_str().map(String::from).unwrap_or_else(|| e.to_string())))
                .collect()
        })
        .unwrap_or_default();
    o.push(errs.len() as u64);
    for e in &errs {
        enc_str(&mut o, e);
    }
    // 1. doctor summary
    let d = &doctor["openresponses"];
    if d.is_object() {
        o.push(1);
        enc_ostr(&mut o, d["provider_id"].as_str());
        enc_ostr(&mut o, d["route"].as_str());
        enc_str(&mut o, d["endpoint"].as_str().unwrap_or("?"));
        enc_ostr(&mut o, d["model"].as_str());
        enc_bool(&mut o, d["has_api_key"].as_bool().unwrap_or(false));
        enc_ostr(&mut o, d["api_key_source"].as_str());
        let hs: Vec<&str> = d["headers"].as_array().map(|a| a.iter().filter_map(|x| x.as_str()).collect()).unwrap_or_default();
        o.push(hs.len() as u64);
        for h in hs {
            enc_str(&mut o, h);
        }
        enc_bool(&mut o, d["stateless_history"].as_bool().unwrap_or(false));
        enc_bool(&mut o, d["parallel_tool_calls"].as_bool().unwrap_or(false));
        enc_ostr(&mut o, d["followup_user_message"].as_str());
    } else {
        o.push(0);
    }
    if !r.sc.spawns.is_empty() {
        // the spawn grid: per probe, what its subprocess saw of every variable
        let views = spawn_views(r);
        o.push(views.len() as u64);
        for v in views {
            match v {
                None => o.push(0),
                Some(codes) => {
                    o.push(1);
                    o.extend(codes);
                }
            }
        }
        return o;
    }
    if r.sc.phase2.is_some() {
        // which of the scenario's variables the probing subprocess saw (names only)
        let out = r.obs.probe_out.clone().unwrap_or_default();
        o.push(r.sc.env.len() as u64);
        for (k, _) in &r.sc.env {
            let pre = format!("{k}=");
            o.push(out.lines().any(|l| l.starts_with(&pre)) as u64);
        }
        // when the probe is a provider-driven run: the request that opened it, as the provider recorded it (the key and the
        // headers of the configuration AFTER the edit, nothing of the one before)
        if r.sc.phase2.as_ref().map(|p| p.probe == "provider-bash").unwrap_or(false) {
            enc_recorded(&mut o, if r.recorded.len() >= 2 { r.recorded.get(r.recorded.len() - 2) } else { None });
        }
        return o;
    }
    if r.sc.doctor_only {
        return o;
    }
    // 2. first request as recorded by the provider (none when the endpoint is dead / no provider configured)
    enc_recorded(&mut o, r.recorded.first());
    // 3. config-derived fields of the session frames
    let mut reqs = vec![];
    let mut ended = None;
    for f in &r.disk_session {
        match f["type"].as_str().unwrap_or("") {
            "openresponses_request" => reqs.push((0u64, f)),
            "openresponses_request_started" => reqs.push((1u64, f)),
            "session_ended" => ended = f["reason"].as_str(),
            _ => {}
        }
    }
    o.push(reqs.len() as u64);
    for (code, f) in reqs {
        o.push(code);
        enc_str(&mut o, f["endpoint"].as_str().unwrap_or("?"));
        enc_ostr(&mut o, f["model"].as_str());
        o.push(f["request_index"].as_u64().unwrap_or(99));
        o.push(kind_code(f["kind"].as_str().unwrap_or("")));
    }
    enc_ostr(&mut o, ended);
    // 4. provider cursor frame of the thread stream
    let cur: Vec<&Value> = r.disk_thread.iter().filter(|f| f["type"] == "continuity_provider_cursor_updated").collect();
    o.push(cur.len() as u64);
    for f in cur {
        enc_ostr(&mut o, f["endpoint"].as_str());
        enc_ostr(&mut o, f["model"].as_str());
    }
    // 5. the order of the milestone frames of the session stream
    let mut ms: Vec<u64> = vec![];
    for f in &r.disk_session {
        match f["type"].as_str().unwrap_or("") {
            "openresponses_request" => ms.push(0),
            "openresponses_request_started" => ms.push(1),
            "openresponses_response_headers" => ms.push(2),
            "openresponses_response_first_byte" => ms.push(3),
            // transport / HTTP error frames carry neither the raw SSE text nor parsed data
            "provider_event" if f["raw"].is_null() && f["data"].is_null() && f["event_name"].is_null() => ms.push(4),
            // an invalid request: the raw field holds the request body, before any request frame
            "provider_event" if f["data"].is_null() && f["event_name"].is_null() && !ms.contains(&1) => ms.push(7),
            "tool_started" => ms.push(5),
            "session_ended" => ms.push(6),
            _ => {}
        }
    }
    o.push(ms.len() as u64);
    o.extend(ms);
    o
}

// ------------------------------------------------------------------ Coq term of a case
fn coq_ostr(s: &Option<String>) -> String {
    coq_opt(s, |x| coq_str(x))
}
fn coq_obool(b: &Option<bool>) -> String {
    coq_opt(b, |x| coq_bool(*x).to_string())
}
/// a configuration file as the model's `doc`: the typed fields, and the secret-bearing positions WITH THEIR SHAPES
fn coq_doc(l: &Layer, m: &[(&str, &str)]) -> String {
    let hstr = |v: &str| format!("HStr {}", coq_str(v));
    // the canary placeholders of the wrong-shape templates
    let tpl = |t: &str| coq_str(&subst(t, m));
    let mut provs: Vec<(String, String)> = vec![];
    for p in &l.providers {
        let key = match &p.api_key {
            None => "None".to_string(),
            Some(KeySpec::Inline(v)) => format!("(Some (KV (KInline {})))", coq_str(v)),
            Some(KeySpec::Env(n)) => format!("(Some (KV (KEnvRef {})))", coq_str(n)),
        };
        let mut hs: Vec<(String, String)> = p.headers.iter().map(|(k, v)| (k.clone(), hstr(v))).collect();
        hs.sort();
        hs.dedup_by(|a, b| a.0 == b.0);
        let headers = if hs.is_empty() { "None".to_string() } else { format!("(Some (HMap {}))", coq_list(&hs, |(k, v)| format!("({}, {})", coq_str(k), v))) };
        provs.push((p.id.clone(), format!("PObj {} {} {}", coq_ostr(&p.endpoint), key, headers)));
    }
    provs.sort();
    let mut whole: Option<String> = None;
    let mut ps_override: Option<String> = None;
    if let Some(v) = l.misfit {
        // mirrors `apply_misfit` (which works on the first provider in key order)
        let ep = provs.first().map(|_| l.providers.iter().min_by(|a, b| a.id.cmp(&b.id)).unwrap().endpoint.clone()).unwrap_or(None);
        let first = l.providers.iter().min_by(|a, b| a.id.cmp(&b.id)).cloned().unwrap_or_else(|| ProvSpec { id: "acme".into(), ..Default::default() });
        let key = match &first.api_key {
            None => "None".to_string(),
            Some(KeySpec::Inline(v)) => format!("(Some (KV (KInline {})))", coq_str(v)),
            Some(KeySpec::Env(n)) => format!("(Some (KV (KEnvRef {})))", coq_str(n)),
        };
        let mut hs: Vec<(String, String)> = first.headers.iter().map(|(k, v)| (k.clone(), hstr(v))).collect();
        hs.sort();
        let hmap = |hs: &Vec<(String, String)>| format!("(Some (HMap {}))", coq_list(hs, |(k, v)| format!("({}, {})", coq_str(k), v)));
        let orig_headers = if hs.is_empty() { "None".to_string() } else { hmap(&hs) };
        let referer = ("HTTP-Referer".to_string(), hstr("https://example.com/app"));
        let pobj = |key: &str, headers: &str| format!("PObj {} {} {}", coq_ostr(&first.endpoint), key, headers);
        let newp: Option<String> = match v {
            0 => Some(pobj(&key, &format!("(Some (HScalar {}))", tpl("X-Api-Key: tok {{H}}")))),
            1 => Some(pobj(&key, &hmap(&vec![referer.clone(), ("X-Tenant-Token".into(), format!("HBadScalar {}", tpl("{{N}}")))]))),
            3 => Some(format!("PScalar {}", tpl("{{K}}"))),
            5 | 11 => Some(pobj("(Some KBad)", &orig_headers)),
            6 => Some(pobj("(Some KBadObj)", &orig_headers)),
            7 => Some(pobj(&key, &hmap(&vec![referer.clone(), ("X-Api-Key".into(), "HBad".to_string())]))),
            9 => Some(pobj(&key, "(Some HShape)")),
            10 => Some(pobj(&key, &hmap(&vec![("X-Tenant-Token".into(), format!("HBadScalar {}", tpl("-{{N}}")))]))),
            _ => None,
        };
        if let Some(np) = newp {
            if provs.is_empty() {
                provs.push((first.id.clone(), np));
            } else {
                provs[0].1 = np;
            }
        }
        match v {
            2 => ps_override = Some(format!("(Some (PsScalar {}))", tpl("{{K}}"))),
            4 => {
                let epv = match &ep {
                    Some(e) => format!("PScalar {}", coq_str(e)),
                    None => "PBad".to_string(),
                };
                ps_override = Some(format!("(Some (PMap [({}, PScalar {}); ({}, {})]))", coq_str("api_key"), tpl("{{K}}"), coq_str("endpoint"), epv));
            }
            8 => whole = Some(format!("DScalar {}", tpl("{{K}}"))),
            _ => {}
        }
    }
    if let Some(w) = whole {
        return w;
    }
    let ps = ps_override.unwrap_or_else(|| if provs.is_empty() { "None".to_string() } else { format!("(Some (PMap {}))", coq_list(&provs, |(k, v)| format!("({}, {})", coq_str(k), v))) });
    format!("DObj {} {} {} {} {} {}", ps, coq_ostr(&l.model), coq_ostr(&l.primary), coq_obool(&l.stateless), coq_obool(&l.parallel), coq_ostr(&l.followup))
}

fn coq_case(c: &Scenario, obs: &[u64], m: &[(&str, &str)]) -> String {
    // the files as the code sees them, lowest precedence first; the model merges them as JSON (non-objects replace) and
    // decides itself whether the merged document fits the typed schema
    let mut layers: Vec<Layer> = c.layers.clone();
    layers.sort_by_key(|l| l.slot);
    let env = coq_list(&c.env, |(k, v)| format!("({}, {})", coq_str(k), coq_str(v)));
    // multi-step: the configurations this authority process loaded earlier (the files before the edit), and the files now
    let mut before = "[]".to_string();
    if let Some(p2) = &c.phase2 {
        before = format!("[world_of (mkJWorld {} {} (mkOvr None None None None None))]", coq_list(&layers, |l| coq_doc(l, m)), env);
        layers.retain(|l| !p2.layers.iter().any(|n| n.slot == l.slot));
        layers.extend(p2.layers.iter().cloned());
        layers.sort_by_key(|l| l.slot);
    }
    let ls = coq_list(&layers, |l| coq_doc(l, m));
    let ovr = match &c.ovr {
        None => "mkOvr None None None None None".to_string(),
        Some(o) => format!("mkOvr {} {} {} {} {}", coq_ostr(&o.endpoint), coq_ostr(&o.model), coq_obool(&o.stateless), coq_obool(&o.parallel), coq_ostr(&o.followup)),
    };
    // 98 / 97: multi-step probe with / without the edited configuration loaded before the subprocess is spawned; 96 = 98 with
    // the probe being a provider-driven run (its opening request is compared too)
    // 95: the spawn grid - the report + per probe what its subprocess saw of every variable
    let outcome = match &c.phase2 {
        Some(p2) => if p2.load == "none" { 97 } else if p2.probe == "provider-bash" { 96 } else { 98 },
        None => if !c.spawns.is_empty() { 95 } else if c.doctor_only { 99 } else { c.outcome as u64 },
    };
    let cli = c.cli_flags.as_ref().map(|f| f.coq()).unwrap_or_else(|| "None".into());
    // a spawn as the model sees it: how it was requested (the model picks the spawn site: tool / pipes / pty), the `cwd` argument and
    // whether that directory exists, the call's `env`, the title
    let spawns = coq_list(&c.spawns, |p| {
        let via = match p.via.as_str() {
            "envelope" | "provider" => "VTool".to_string(),
            _ => format!("(VTask {})", match p.mode.as_deref() { None => "None", Some("pty") => "(Some XPty)", Some(_) => "(Some XPipes)" }),
        };
        let env = match &p.env {
            None => "None".to_string(),
            Some(e) => format!("(Some {})", coq_list(e, |(k, v)| format!("({}, {})", coq_str(k), coq_str(v)))),
        };
        format!("mkSpawn {} {} {} {} {}", via, coq_ostr(&p.cwd), coq_bool(p.dir_exists), env, coq_ostr(&p.title))
    });
    format!("mkCase (world_of (mkJWorld {} {} ({}))) {} {} {} {} {} {}", ls, env, ovr, before, cli, coq_bool(c.thread), outcome, spawns, coq_list_n(obs))
}

// ------------------------------------------------------------------ independent doctor oracle
/// the ONLY key-derived facts the doctor may report: presence and source.  Recomputed from the
/// scenario by a direct reading of docs/03_contracts/config.md (not from the model).
fn doctor_shape_ok(d: &Value) -> Result<(), String> {
    let allowed_top = ["sources", "openresponses"];
    if let Some(o) = d.as_object() {
        for k in o.keys() {
            if !allowed_top.contains(&k.as_str()) {
                return Err(format!("doctor has an unexpected top-level key {k}"));
            }
        }
    }
    let allowed = ["provider_id", "route", "endpoint", "model", "has_api_key", "api_key_source", "headers", "stateless_history", "parallel_tool_calls", "followup_user_message"];
    if let Some(o) = d["openresponses"].as_object() {
        for (k, v) in o {
            if !allowed.contains(&k.as_str()) {
                return Err(format!("doctor.openresponses has an unexpected key {k}"));
            }
            if k == "headers" && !v.as_array().map(|a| a.iter().all(|x| x.is_string())).unwrap_or(false) {
                return Err("doctor.openresponses.headers is not a list of names".into());
            }
            if k == "has_api_key" && !v.is_boolean() {
                return Err("has_api_key is not a boolean".into());
            }
        }
        if let Some(src) = o.get("api_key_source").and_then(|x| x.as_str()) {
            if !(src == "inline" || src.starts_with("env:")) {
                return Err(format!("api_key_source {src:?} is neither inline nor env:NAME"));
            }
        }
    }
    Ok(())
}

// ------------------------------------------------------------------ generator
const CORE_CHARS: &[u8] = b"ABCDEFGHJKLMNPQRSTUVWXYZabcdefghijkmnopqrstuvwxyz23456789";
fn core(rng: &mut Rng, tag: char) -> String {
    let mut s = String::new();
    s.push(tag);
    for _ in 0..31 {
        s.push(CORE_CHARS[rng.below(CORE_CHARS.len() as u64) as usize] as char);
    }
    s
}
/// a secret token that is a NUMBER (17 digits, fits i64): serde quotes an unquoted numeric token verbatim
fn num_core(rng: &mut Rng) -> String {
    let mut s = String::new();
    s.push((b'1' + rng.below(8) as u8) as char);
    for _ in 0..16 {
        s.push((b'0' + rng.below(10) as u8) as char);
    }
    s
}
fn endpoint_variant(rng: &mut Rng, want: u8) -> String {
    // want: 0 plain, 1 contains openai.com, 2 contains openrouter.ai
    let base = match rng.below(3) {
        0 => "{{P}}/v1/responses",
        1 => "{{P}}/api/v1/responses",
        _ => "{{P}}/v1/responses/",
    };
    match want {
        1 => format!("{base}?via=api.openai.com"),
        2 => format!("{base}?via=openrouter.ai"),
        _ => base.to_string(),
    }
}

// ------------------------------------------------------------------ canary shapes
/// A leak can depend on what the secret LOOKS like (a hint that echoes an inline key shaped like a variable name, a
/// pre-flight check that quotes a key with a stray CR, a "too short" warning): every channel and surface is run with
/// canaries of every shape.
const N_SHAPES: u8 = 8;
fn shape_name(s: u8) -> &'static str {
    ["mixed", "upper-snake", "digits", "sk-dash", "special-chars", "short", "whitespace-padded", "tiny"][(s % N_SHAPES) as usize]
}
const UPPER_CHARS: &[u8] = b"ABCDEFGHJKLMNPQRSTUVWXYZ0123456789";
/// a canary core of shape `shape`; `which`: 0 key / 1 header secret of the first run, 2 / 3 of the second run (same length)
fn shaped_core(rng: &mut Rng, shape: u8, which: usize) -> String {
    let tag = ['K', 'H', 'k', 'h'][which];
    let mixed = |rng: &mut Rng, n: usize| -> String { (0..n).map(|_| CORE_CHARS[rng.below(CORE_CHARS.len() as u64) as usize] as char).collect() };
    match shape % N_SHAPES {
        1 => {
            let mut s = String::new();
            s.push(['K', 'H', 'Q', 'J'][which]);
            for _ in 0..31 {
                s.push(UPPER_CHARS[rng.below(UPPER_CHARS.len() as u64) as usize] as char);
            }
            s
        }
        2 => {
            let mut s = String::new();
            s.push((b'1' + rng.below(9) as u8) as char);
            for _ in 0..19 {
                s.push((b'0' + rng.below(10) as u8) as char);
            }
            s
        }
        5 => format!("{tag}{}", mixed(rng, 7)),
        7 => mixed(rng, 3),
        _ => core(rng, tag),
    }
}
/// the key value around the core ({{K}}; {{R}} = the core reversed), staying inside the shape
fn key_template(rng: &mut Rng, shape: u8) -> String {
    match shape % N_SHAPES {
        0 => match rng.below(3) {
            0 => "{{K}}".to_string(),
            1 => "{{K}}-sk-or-v1-{{R}}".to_string(),
            _ => "{{K}}+\"q\\=/{{R}}".to_string(),
        },
        1 => ["{{K}}", "ACME_PROD_{{K}}", "{{K}}_{{R}}", "_{{K}}"][rng.below(4) as usize].to_string(),
        3 => ["sk-{{K}}", "sk-proj-{{K}}-{{R}}", "sk-ant-api03-{{K}}"][rng.below(3) as usize].to_string(),
        4 => ["{{K}}+\"q\\=/{{R}}", "\"{{K}}\\", "{{K}}\u{e9}\u{2713}{{R}}", "'{{K}}' \\\"{{R}}", "\u{feff}{{K}}", "sk-\u{2713}\u{2713}\u{2713}{{K}}\u{2713}\u{2713}\u{2713}"][rng.below(6) as usize].to_string(),
        6 => ["{{K}} ", " {{K}}", "{{K}}\t", "{{K}}\r", "{{K}}\n", "{{K}}\r\n"][rng.below(6) as usize].to_string(),
        _ => "{{K}}".to_string(),
    }
}
fn hdr_template(rng: &mut Rng, shape: u8) -> String {
    match shape % N_SHAPES {
        0 => "tok {{H}}; v=\"1\"".to_string(),
        3 => "sk-{{H}}".to_string(),
        4 => ["\"{{H}}\\", "tok '{{H}}' \\\"x"][rng.below(2) as usize].to_string(),
        6 => ["{{H}} ", "{{H}}\t"][rng.below(2) as usize].to_string(),
        _ => "{{H}}".to_string(),
    }
}
/// (cannot be put into an HTTP header: control characters / non-ASCII, is not compared with the model: those + values HTTP trims)
fn template_flags(t: &str) -> (bool, bool) {
    let unsendable = t.chars().any(|c| (c.is_control() && c != '\t') || !c.is_ascii());
    let padded = t.trim() != t;
    (unsendable, unsendable || padded)
}
/// marks a scenario whose secrets were built from these templates
fn apply_template_flags(sc: &mut Scenario, ts: &[&str]) {
    for t in ts {
        let (unsendable, outside_model) = template_flags(t);
        if unsendable {
            sc.secret_unsendable = true;
        }
        if outside_model {
            sc.oracle_only = true;
        }
    }
}

fn gen_scenario(rng: &mut Rng, i: u64) -> Scenario {
    let mut sc = Scenario { prompt: format!("say hi #{i}"), ..Default::default() };
    sc.outcome = (i % 8) as u8;
    let channel = (i / 8) % 10;
    sc.thread = channel != 7;
    // every third scenario runs against the real `ripd` process (start-up path, authority lock, real HTTP)
    sc.real_authority = i % 3 == 1;
    sc.config_home = rng.chance(1, 2);
    // the canary core at the front and its reverse at the back: a leak of a prefix or of a suffix of the key differs
    // between the two runs (differential) even when the decoration in the middle is the same
    // the shape rotates so that the 80 scenarios of the quick grid hold every (channel, shape) pair, and the thorough
    // tier every (channel, outcome, shape) triple; the two adversarial channels bring their own values
    sc.shape = if channel >= 8 { 0 } else { (((i % 8) + channel + i / 80) % N_SHAPES as u64) as u8 };
    let key_wrapped = key_template(rng, sc.shape);
    let hdr_secret = hdr_template(rng, sc.shape);
    if sc.outcome == 1 || sc.outcome == 7 {
        sc.http_status = [500u16, 401, 403, 429, 400, 404, 502, 503][((channel + i / 80 + (sc.outcome as u64 / 7)) % 8) as usize];
    }
    let slot_choices: [u8; 7] = [0, 1, 2, 3, 4, 5, 6];
    let pick_slot = |rng: &mut Rng| *rng.pick(&slot_choices);
    let want = rng.below(3) as u8;
    let ep = endpoint_variant(rng, if channel == 3 { 1 + (want % 2) } else { 0 });
    let model_id = if rng.chance(1, 2) { "openai/gpt-oss-20b" } else { "fixture-model" };
    let mut base = Layer { slot: pick_slot(rng), ..Default::default() };
    let mut prov = ProvSpec { id: if rng.chance(1, 2) { "openrouter".into() } else { "acme".into() }, endpoint: Some(ep.clone()), ..Default::default() };
    let route = format!("{}/{}{}", prov.id, model_id, if rng.chance(1, 4) { "#fast" } else { "" });
    match channel {
        0 => {
            sc.channel = "inline".into();
            prov.api_key = Some(KeySpec::Inline(key_wrapped.clone()));
            base.model = Some(route.clone());
        }
        1 => {
            sc.channel = "envref".into();
            let name = if rng.chance(1, 2) { "MY_PROVIDER_KEY" } else { "OPENROUTER_API_KEY" };
            prov.api_key = Some(KeySpec::Env(name.into()));
            sc.env.push((name.into(), key_wrapped.clone()));
            base.primary = Some(route.clone());
            base.primary_obj = rng.chance(1, 2);
        }
        2 => {
            sc.channel = "env-fallback-generic".into();
            sc.env.push(("RIP_OPENRESPONSES_API_KEY".into(), key_wrapped.clone()));
            if rng.chance(1, 2) {
                base.model = Some(route.clone());
            } else {
                // no file at all for the endpoint: pure env configuration
                sc.env.push(("RIP_OPENRESPONSES_ENDPOINT".into(), ep.clone()));
                prov.endpoint = None;
            }
        }
        3 => {
            sc.channel = "env-fallback-by-endpoint".into();
            let name = if ep.contains("openai.com") { "OPENAI_API_KEY" } else { "OPENROUTER_API_KEY" };
            sc.env.push((name.into(), key_wrapped.clone()));
            base.model = Some(route.clone());
        }
        4 => {
            sc.channel = "header".into();
            prov.headers.push(("X-Api-Key".into(), hdr_secret.clone()));
            prov.headers.push(("HTTP-Referer".into(), "https://example.com/app".into()));
            if rng.chance(1, 2) {
                prov.api_key = Some(KeySpec::Inline(key_wrapped.clone()));
            }
            base.model = Some(route.clone());
        }
        5 => {
            sc.channel = "override-endpoint".into();
            // nothing selects the provider by default; the per-request endpoint override does
            prov.api_key = Some(if rng.chance(1, 2) { KeySpec::Inline(key_wrapped.clone()) } else { KeySpec::Env("OVR_KEY".into()) });
            if prov.api_key == Some(KeySpec::Env("OVR_KEY".into())) {
                sc.env.push(("OVR_KEY".into(), key_wrapped.clone()));
            }
            prov.headers.push(("x-secret-hdr".into(), hdr_secret.clone()));
            sc.ovr = Some(Ovr { endpoint: Some(ep.clone()), model: Some("ovr-model".into()), stateless: Some(rng.chance(1, 2)), parallel: None, followup: None });
        }
        6 => {
            sc.channel = "layered-override".into();
            // a lower layer has a decoy (non-secret) key, a higher layer overrides it with the secret
            prov.api_key = Some(KeySpec::Inline("public-decoy-key".into()));
            base.slot = *rng.pick(&[0u8, 1, 2]);
            base.model = Some(route.clone());
            let hi = Layer {
                slot: *rng.pick(&[3u8, 4, 5, 6]),
                providers: vec![ProvSpec { id: prov.id.clone(), endpoint: None, api_key: Some(if rng.chance(1, 2) { KeySpec::Inline(key_wrapped.clone()) } else { KeySpec::Env("LAYER_KEY".into()) }), headers: vec![("X-Title".into(), hdr_secret.clone())] }],
                stateless: Some(true),
                ..Default::default()
            };
            if hi.providers[0].api_key == Some(KeySpec::Env("LAYER_KEY".into())) {
                sc.env.push(("LAYER_KEY".into(), key_wrapped.clone()));
            }
            sc.layers.push(hi);
        }
        8 => {
            // a secret that cannot be put into an HTTP header (control character / non-ASCII): the request builder
            // fails and the transport-error frame carries reqwest's builder error
            sc.channel = "unsendable-secret".into();
            sc.oracle_only = true;
            sc.secret_unsendable = true;
            let bad = if rng.chance(1, 2) { "{{K}}\nX-Injected: 1" } else { "{{K}}\u{7f}é" };
            if rng.chance(1, 2) {
                prov.api_key = Some(KeySpec::Inline(bad.to_string()));
            } else {
                prov.api_key = Some(KeySpec::Inline(key_wrapped.clone()));
                prov.headers.push(("X-Api-Key".into(), format!("tok {{{{H}}}}{}", &bad[5..])));
            }
            base.model = Some(route.clone());
        }
        9 => {
            // malformed configuration around the secret: a syntax error after the inline key in one file, a type
            // error (api_key / header value of the wrong JSON type) in another; the endpoint comes from the
            // environment so that a run still happens; the doctor reports the files as invalid
            sc.channel = "malformed-config".into();
            sc.oracle_only = true;
            sc.secret_unsendable = true;
            sc.env.push(("RIP_OPENRESPONSES_ENDPOINT".into(), ep.clone()));
            prov.endpoint = None;
            let broken = match rng.below(3) {
                0 => "{ \"provider\": { \"acme\": { \"api_key\": \"{{K}}\" \"endpoint\": 5 } } }".to_string(),
                1 => "{ \"provider\": { \"acme\": { \"api_key\": \"{{K}}\\u00zz\" } } }".to_string(),
                _ => "{ \"provider\": { \"acme\": { \"api_key\": \"{{K}}".to_string(),
            };
            sc.layers.push(Layer { slot: *rng.pick(&[3u8, 4]), raw_text: Some(broken), ..Default::default() });
            let typed = match rng.below(3) {
                0 => "{ \"provider\": { \"acme\": { \"endpoint\": \"{{P}}/v1/responses\", \"api_key\": { \"envx\": \"{{K}}\" } } }, \"model\": \"acme/m\" }".to_string(),
                1 => "{ \"provider\": { \"acme\": { \"endpoint\": \"{{P}}/v1/responses\", \"api_key\": [\"{{K}}\"], \"headers\": { \"X\": 5, \"Y\": \"{{H}}\" } } }, \"model\": \"acme/m\" }".to_string(),
                _ => "{ \"provider\": \"{{K}}\", \"model\": { \"{{H}}\": 1 } }".to_string(),
            };
            sc.layers.push(Layer { slot: *rng.pick(&[5u8, 6]), raw_text: Some(typed), ..Default::default() });
        }
        _ => {
            sc.channel = "session-from-env".into();
            sc.env.push(("RIP_OPENRESPONSES_ENDPOINT".into(), ep.clone()));
            sc.env.push(("RIP_OPENRESPONSES_API_KEY".into(), key_wrapped.clone()));
            if rng.chance(1, 2) {
                sc.env.push(("RIP_OPENRESPONSES_MODEL".into(), "env-model".into()));
            }
            prov.endpoint = None;
        }
    }
    if prov.endpoint.is_some() || prov.api_key.is_some() || !prov.headers.is_empty() {
        base.providers.push(prov);
    }
    if rng.chance(1, 3) {
        base.parallel = Some(rng.chance(1, 2));
    }
    if rng.chance(1, 4) {
        base.followup = Some("continue please".into());
    }
    if !base.providers.is_empty() || base.model.is_some() || base.primary.is_some() {
        sc.layers.push(base);
    }
    // request dumping on for every other scenario (and explicitly off sometimes); a third of the dumps with a byte limit
    // (the truncation path) or an unusable one
    if rng.chance(1, 2) {
        sc.env.push(("RIP_OPENRESPONSES_DUMP_REQUEST".into(), if rng.chance(1, 2) { "1".into() } else { "TRUE".into() }));
        if rng.chance(1, 3) {
            sc.env.push(("RIP_OPENRESPONSES_DUMP_REQUEST_MAX_BYTES".into(), (*rng.pick(&["64", "1", "4096", "0", "lots", " 300 "])).into()));
        }
    } else if rng.chance(1, 2) {
        sc.env.push(("RIP_OPENRESPONSES_DUMP_REQUEST".into(), "0".into()));
    }
    if rng.chance(1, 5) && sc.ovr.is_none() && sc.thread {
        sc.ovr = Some(Ovr { model: Some("m-ovr".into()), parallel: Some(true), ..Default::default() });
    }
    if rng.chance(1, 8) {
        sc.env.push(("RIP_OPENRESPONSES_TOOL_CHOICE".into(), if rng.chance(1, 2) { "bogus-choice".into() } else { "function: ".into() }));
    }
    // an UNSELECTED provider with its own secrets (never matched by route or endpoint): nothing of it may show
    // anywhere, not even in the outgoing request
    if rng.chance(1, 2) {
        if let Some(l) = sc.layers.iter_mut().find(|l| l.raw_text.is_none()) {
            l.providers.push(ProvSpec {
                id: "zz-unused".into(),
                endpoint: Some("{{P}}/unused/v1/responses".into()),
                api_key: Some(KeySpec::Inline("unused-{{K}}".into())),
                headers: vec![("X-Unused".into(), "unused {{K}}".into())],
            });
        }
    }
    // dedupe slots (one file per slot)
    sc.layers.sort_by_key(|l| l.slot);
    sc.layers.dedup_by_key(|l| l.slot);
    let uses_hdr = sc.layers.iter().any(|l| l.providers.iter().any(|p| p.headers.iter().any(|h| h.1.contains("{{H}}"))));
    apply_template_flags(&mut sc, &[&key_wrapped]);
    if uses_hdr {
        apply_template_flags(&mut sc, &[&hdr_secret]);
    }
    sc
}

/// Wrong-shape grid: variant x config slot x diagnostic surface (in-process router, real `ripd` process, `rip config
/// doctor`).  The file is valid JSON(C) that does not fit the schema, the canary is the offending scalar, and it
/// also holds well-typed secrets next to it.  Quick: every (variant, slot) once with the surface rotating (every
/// (variant, surface) pair occurs at least twice); thorough: the full product.
fn gen_misfit(rng: &mut Rng, j: u64, full: bool) -> Scenario {
    let nv = N_MISFIT as u64;
    let variant = (j % nv) as u8;
    let slot = ((j / nv) % 7) as u8;
    let surface = if full { (j / (nv * 7)) % 3 } else { (variant as u64 + slot as u64) % 3 };
    let mut sc = Scenario { prompt: format!("misfit #{j}"), thread: true, ..Default::default() };
    sc.channel = format!("wrong-shape:{}", misfit_info(variant).0);
    sc.config_home = rng.chance(1, 2);
    sc.real_authority = surface == 1;
    sc.cli = surface == 2;
    // a run on the in-process surface for the even slots, with the start-up / per-request env fallback
    sc.doctor_only = !(surface == 0 && slot % 2 == 0);
    sc.outcome = if sc.doctor_only { 0 } else { (j % 2) as u8 };
    sc.secret_unsendable = true;
    let ep = endpoint_variant(rng, 0);
    if rng.chance(2, 3) || !sc.doctor_only {
        sc.env.push(("RIP_OPENRESPONSES_ENDPOINT".into(), ep.clone()));
    }
    let pid = if rng.chance(1, 2) { "openrouter" } else { "acme" };
    // the offending scalar and the well-typed secrets next to it take every shape that can be sent
    sc.shape = [0u8, 1, 2, 3, 5, 7][((variant as u64 + 2 * slot as u64 + j / (nv * 7)) % 6) as usize];
    let well_typed_key = if sc.shape == 0 { "{{K}}-sk-{{R}}".to_string() } else { key_template(rng, sc.shape) };
    let prov = ProvSpec {
        id: pid.into(),
        endpoint: Some(ep.clone()),
        api_key: Some(KeySpec::Inline(well_typed_key)),
        headers: vec![("HTTP-Referer".into(), "https://example.com/app".into()), ("X-Api-Key".into(), "tok {{H}}; v=\"1\"".into())],
    };
    let bad = Layer { slot, providers: vec![prov.clone()], model: Some(format!("{pid}/fixture-model")), misfit: Some(variant), stateless: Some(true), ..Default::default() };
    // a higher layer that REPLACES the mis-shaped position: the merged document fits again (variant 4 cannot be repaired)
    let repair = slot < 6 && variant != 4 && rng.chance(1, 4);
    // a well-formed lower layer is merged first: dropped together with everything else when the document misfits; when a
    // higher layer repairs the position, whatever the lower layer put AT that position is gone too (a non-object on
    // either side replaces), the rest of it stays.  Its key is inline or an env reference: `{"env": N}` below an
    // `api_key` OBJECT without `env` (variant 6) merges into an object that still fits.
    if slot > 0 && rng.chance(1, 2) {
        let lower_key = if rng.chance(1, 2) {
            KeySpec::Inline("lower-{{K}}".into())
        } else {
            sc.env.push(("LOWER_KEY".into(), "lowerenv-{{K}}".into()));
            KeySpec::Env("LOWER_KEY".into())
        };
        sc.layers.push(Layer {
            slot: rng.below(slot as u64) as u8,
            providers: vec![ProvSpec { id: pid.into(), endpoint: None, api_key: Some(lower_key), headers: vec![("X-Lower".into(), "low {{H}}".into())] }],
            followup: Some("continue please".into()),
            ..Default::default()
        });
    }
    if repair {
        let hi = Layer {
            slot: slot + 1 + rng.below((6 - slot) as u64) as u8,
            providers: vec![ProvSpec {
                id: pid.into(),
                endpoint: Some(ep.clone()),
                api_key: Some(KeySpec::Inline("{{K}}".into())),
                headers: vec![("X-Api-Key".into(), "tok {{H}}".into()), ("X-Tenant-Token".into(), "tenant {{H}}".into())],
            }],
            model: Some(format!("{pid}/fixture-model")),
            ..Default::default()
        };
        sc.layers.push(hi);
        sc.secret_unsendable = false;
        sc.channel = format!("wrong-shape-repaired:{}", misfit_info(variant).0);
    }
    sc.layers.push(bad);
    if rng.chance(1, 2) {
        sc.env.push(("RIP_OPENRESPONSES_DUMP_REQUEST".into(), "1".into()));
    }
    sc.layers.sort_by_key(|l| l.slot);
    sc
}

/// Start-up oddities of the real authority process: the key comes through the environment and a PUBLIC setting is
/// unusable (endpoint that is not an absolute URL, unknown tool choice, odd booleans) - whatever the authority
/// prints about that on start-up must not include the key.
fn gen_startup(rng: &mut Rng, j: u64) -> Scenario {
    let mut sc = Scenario { prompt: format!("startup #{j}"), ..Default::default() };
    sc.channel = "startup-oddity".into();
    sc.real_authority = true;
    sc.thread = j % 2 == 0;
    sc.outcome = 2;
    sc.secret_unsendable = true;
    let ep = match (j / 2) % 3 {
        0 => "{{Q}}/v1/responses",
        1 => "localhost/v1/responses",
        _ => "//{{Q}}/v1/responses",
    };
    sc.env.push(("RIP_OPENRESPONSES_ENDPOINT".into(), ep.into()));
    sc.shape = ((j + 1) % N_SHAPES as u64) as u8;
    let key = if sc.shape == 0 { "{{K}}-sk-{{R}}".to_string() } else { key_template(rng, sc.shape) };
    sc.env.push(("RIP_OPENRESPONSES_API_KEY".into(), key.clone()));
    apply_template_flags(&mut sc, &[&key]);
    let tc = ["definitely-not-a-tool-choice", "function:   ", "none", "function:ls", " auto ", "Required"];
    if rng.chance(3, 4) {
        sc.env.push(("RIP_OPENRESPONSES_TOOL_CHOICE".into(), tc[(j % 6) as usize].into()));
    }
    if rng.chance(1, 2) {
        sc.env.push(("RIP_OPENRESPONSES_STATELESS_HISTORY".into(), "maybe".into()));
    }
    if rng.chance(1, 2) {
        sc.env.push(("RIP_OPENRESPONSES_DUMP_REQUEST".into(), "1".into()));
    }
    sc
}

/// Tool subprocesses and the authority's environment (B1): the provider asks the shell tool for `printenv <key variable>;
/// env`, and a background task (pipes / pty) dumps its environment.  The key variables - RIP_OPENRESPONSES_API_KEY, the
/// OPENAI_API_KEY / OPENROUTER_API_KEY fallbacks, every `{ "env": NAME }` reference of the configuration, used by the
/// run or not - must not be in what the tool sees.
fn gen_toolenv(rng: &mut Rng, j: u64) -> Scenario {
    let mut sc = Scenario { prompt: format!("tool env #{j}"), outcome: 8, oracle_only: true, ..Default::default() };
    sc.channel = "tool-prints-inherited-env".into();
    sc.config_home = rng.chance(1, 2);
    let slot = *rng.pick(&[0u8, 1, 2, 3, 4, 5, 6]);
    sc.shape = ((j + j / 6) % N_SHAPES as u64) as u8;
    let key = if sc.shape == 0 { "{{K}}-sk-{{R}}".to_string() } else { key_template(rng, sc.shape) };
    if template_flags(&key).0 {
        sc.secret_unsendable = true;
    }
    match j % 6 {
        0 => {
            sc.env.push(("RIP_OPENRESPONSES_ENDPOINT".into(), "{{P}}/v1/responses".into()));
            sc.env.push(("RIP_OPENRESPONSES_API_KEY".into(), key));
            sc.task_env_dump = Some("pipes".into());
        }
        1 => {
            sc.thread = true;
            sc.env.push(("OPENAI_API_KEY".into(), key));
            sc.layers.push(Layer { slot, providers: vec![ProvSpec { id: "acme".into(), endpoint: Some("{{P}}/v1/responses?via=api.openai.com".into()), ..Default::default() }], model: Some("acme/fixture-model".into()), ..Default::default() });
        }
        2 => {
            sc.thread = true;
            sc.env.push(("MY_PROVIDER_KEY".into(), key));
            sc.layers.push(Layer { slot, providers: vec![ProvSpec { id: "acme".into(), endpoint: Some("{{P}}/v1/responses".into()), api_key: Some(KeySpec::Env("MY_PROVIDER_KEY".into())), ..Default::default() }], primary: Some("acme/fixture-model".into()), ..Default::default() });
            // (the pty spawn site has the same three lines; pty tasks do not terminate in this sandbox, so only pipes run)
            sc.task_env_dump = Some("pipes".into());
        }
        3 => {
            // the referenced variable is not used by this run (session path = start-up env configuration, no key at all)
            sc.secret_unsendable = true;
            sc.env.push(("RIP_OPENRESPONSES_ENDPOINT".into(), "{{P}}/v1/responses".into()));
            sc.env.push(("UNUSED_PROVIDER_KEY".into(), key));
            sc.layers.push(Layer { slot, providers: vec![ProvSpec { id: "other".into(), endpoint: Some("{{P}}/other/v1/responses".into()), api_key: Some(KeySpec::Env("UNUSED_PROVIDER_KEY".into())), ..Default::default() }], ..Default::default() });
            sc.task_env_dump = Some("pipes".into());
        }
        4 => {
            sc.real_authority = true;
            sc.env.push(("RIP_OPENRESPONSES_ENDPOINT".into(), "{{P}}/v1/responses".into()));
            sc.env.push(("RIP_OPENRESPONSES_API_KEY".into(), key));
            sc.task_env_dump = Some("pipes".into());
        }
        _ => {
            sc.thread = true;
            sc.real_authority = true;
            sc.env.push(("OPENROUTER_API_KEY".into(), key));
            sc.layers.push(Layer { slot, providers: vec![ProvSpec { id: "openrouter".into(), endpoint: Some("{{P}}/api/v1/responses?via=openrouter.ai".into()), ..Default::default() }], model: Some("openrouter/openai/gpt-oss-20b".into()), ..Default::default() });
        }
    }
    sc
}

/// The run goes through the real CLI (`rip run <prompt>`: auto-spawned authority whose output goes to authority.log, thread
/// path with the overrides the CLI derives from its environment or from --provider / --model / flags, frames rendered
/// on stdout in one of the three headless views), followed by `rip config doctor`.
fn gen_clirun(rng: &mut Rng, j: u64) -> Scenario {
    let mut sc = Scenario { prompt: format!("cli run #{j}"), thread: true, cli: true, ..Default::default() };
    sc.config_home = rng.chance(1, 2);
    let view = ["raw", "output", "metrics"][(j % 3) as usize];
    let mut args: Vec<String> = vec!["--view".into(), view.into()];
    let slot = *rng.pick(&[0u8, 1, 2, 3, 4, 5, 6]);
    // the first five: one of each kind with the usual canaries; from then on the kinds again with every canary shape, the
    // two `--provider` kinds (the only path on which the CLI itself touches the key) first and with the whitespace /
    // control-character shapes first (a key exported from a CRLF file keeps its trailing CR)
    let (variant, shape) = if j < 5 {
        (j % 5, 0u8)
    } else {
        let k = j - 5;
        ([4u64, 3, 4, 0, 3, 1, 4, 2][(k % 8) as usize], [6u8, 6, 1, 4, 2, 3, 5, 7][((k + k / 8) % 8) as usize])
    };
    sc.shape = shape;
    let key = if shape == 0 { "{{K}}-sk-{{R}}".to_string() } else { key_template(rng, shape) };
    apply_template_flags(&mut sc, &[&key]);
    let ep = endpoint_variant(rng, 0);
    match variant {
        0 => {
            sc.channel = "cli-run:inline+header".into();
            sc.outcome = 0;
            sc.layers.push(Layer { slot, providers: vec![ProvSpec { id: "acme".into(), endpoint: Some(ep), api_key: Some(KeySpec::Inline(key)), headers: vec![("X-Api-Key".into(), "tok {{H}}; v=\"1\"".into())] }], model: Some("acme/fixture-model".into()), ..Default::default() });
        }
        1 => {
            sc.channel = "cli-run:envref".into();
            sc.outcome = 1;
            sc.env.push(("MY_PROVIDER_KEY".into(), key));
            sc.layers.push(Layer { slot, providers: vec![ProvSpec { id: "acme".into(), endpoint: Some(ep), api_key: Some(KeySpec::Env("MY_PROVIDER_KEY".into())), ..Default::default() }], primary: Some("acme/fixture-model#fast".into()), ..Default::default() });
        }
        2 => {
            sc.channel = "cli-run:env-overrides".into();
            sc.outcome = 6;
            sc.env.push(("RIP_OPENRESPONSES_ENDPOINT".into(), ep));
            sc.env.push(("RIP_OPENRESPONSES_API_KEY".into(), key));
            sc.env.push(("RIP_OPENRESPONSES_MODEL".into(), "env-model".into()));
            sc.env.push(("RIP_OPENRESPONSES_TOOL_CHOICE".into(), "bogus-choice".into()));
        }
        3 => {
            // only the provider's own variable is given: the CLI derives endpoint + RIP_OPENRESPONSES_API_KEY for the
            // authority it spawns (apply_openresponses_env); the endpoint is the real one, unreachable here
            sc.channel = "cli-run:--provider openai".into();
            sc.outcome = 2;
            sc.secret_unsendable = true;
            sc.env.push(("OPENAI_API_KEY".into(), key));
            let f = CliFlags { provider: "openai".into(), parallel: rng.chance(1, 2), ..Default::default() };
            args.extend(f.args());
            sc.cli_flags = Some(f);
        }
        _ => {
            // the generic variable as the fallback, and every flag
            sc.channel = "cli-run:--provider openrouter".into();
            sc.outcome = 2;
            sc.secret_unsendable = true;
            if rng.chance(1, 2) {
                sc.env.push(("OPENROUTER_API_KEY".into(), key));
            } else {
                sc.env.push(("RIP_OPENRESPONSES_API_KEY".into(), key));
            }
            sc.env.push(("RIP_OPENRESPONSES_MODEL".into(), "shadowed-by-the-flag".into()));
            let f = CliFlags { provider: "openrouter".into(), model: Some("some/model".into()), stateless: true, parallel: false, followup: Some("go on".into()) };
            args.extend(f.args());
            sc.cli_flags = Some(f);
        }
    }
    if rng.chance(1, 2) {
        sc.env.push(("RIP_OPENRESPONSES_DUMP_REQUEST".into(), "1".into()));
    }
    sc.cli_run = Some(args);
    sc
}

/// Canary SHAPES on the diagnostic surfaces: an inline key, a secret header value and an unselected provider's key of every
/// shape, asked about through GET /config/doctor on the in-process router (with a run), on the real `ripd` process and
/// through the real `rip config doctor`; further rounds supply the shaped key through the environment / an env reference.
fn gen_shapes(rng: &mut Rng, j: u64) -> Scenario {
    let shape = (j % N_SHAPES as u64) as u8;
    let surface = (j / N_SHAPES as u64) % 3;
    let kind = (j / (3 * N_SHAPES as u64)) % 3;
    let mut sc = Scenario { prompt: format!("shape #{j}"), thread: true, shape, ..Default::default() };
    sc.channel = format!("shape:{}", shape_name(shape));
    sc.config_home = rng.chance(1, 2);
    sc.real_authority = surface == 1;
    sc.cli = surface == 2;
    sc.doctor_only = surface != 0;
    sc.outcome = [0u8, 1, 7][((j / 7) % 3) as usize];
    let key = key_template(rng, shape);
    let key2 = key_template(rng, shape);
    let hdr = hdr_template(rng, shape);
    apply_template_flags(&mut sc, &[&key, &hdr]);
    let slot = (j % 7) as u8;
    let ep = endpoint_variant(rng, 0);
    let api_key = match kind {
        0 => Some(KeySpec::Inline(key.clone())),
        1 => {
            sc.env.push(("RIP_OPENRESPONSES_API_KEY".into(), key.clone()));
            None
        }
        _ => {
            sc.env.push(("SHAPED_PROVIDER_KEY".into(), key.clone()));
            Some(KeySpec::Env("SHAPED_PROVIDER_KEY".into()))
        }
    };
    sc.layers.push(Layer {
        slot,
        providers: vec![
            ProvSpec { id: "acme".into(), endpoint: Some(ep), api_key, headers: vec![("X-Api-Key".into(), hdr)] },
            ProvSpec { id: "zz-unused".into(), endpoint: Some("{{P}}/unused/v1/responses".into()), api_key: Some(KeySpec::Inline(key2)), headers: vec![] },
        ],
        model: Some("acme/fixture-model".into()),
        ..Default::default()
    });
    if rng.chance(1, 2) {
        sc.env.push(("RIP_OPENRESPONSES_DUMP_REQUEST".into(), "1".into()));
    }
    sc
}

/// MULTI-STEP scenarios on ONE authority process (the configuration is re-read on every request, the process lives on):
/// [a subprocess is spawned under configuration A] -> [a configuration file appears / is edited: a provider's key becomes
/// `{ "env": NAME }`, NAME being in the authority's environment all along] -> [the edited configuration is loaded: doctor
/// call, or the probe run's own per-request resolution] -> [probe: a tool subprocess runs `printenv NAME; env`].  For every
/// config slot; the three spawn paths (bash tool by envelope, bash tool on the provider's request, pipes task); both run
/// paths; in-process router and real `ripd` process.  The credential variables of the configuration loaded at spawn time
/// must not be in what the subprocess sees, whatever was spawned before.
fn gen_multistep(rng: &mut Rng, j: u64, n_combos: u64) -> Scenario {
    let slot = (j % 7) as u8;
    let combo = (j / 7) % n_combos;
    let round = j / (7 * n_combos);
    let mut sc = Scenario { prompt: format!("multi-step #{j}"), outcome: 9, ..Default::default() };
    sc.config_home = rng.chance(1, 2);
    sc.real_authority = (j + round) % 3 == 1;
    sc.shape = [0u8, 1, 3, 5, 2, 4][((j + combo) % 6) as usize];
    let mut key = if sc.shape == 0 { "{{K}}-sk-{{R}}".to_string() } else { key_template(rng, sc.shape) };
    while template_flags(&key).0 {
        // the probe runs need a key that can be sent
        key = key_template(rng, sc.shape);
    }
    let name = ["ACME_LLM_TOKEN", "MY_PROVIDER_KEY", "acme_gateway_key"][((j / 7 + j) % 3) as usize];
    // (warm-up, load, probe, thread path, how the files change)
    // the CLI variant: combination 1 (thread-path runs on both sides of the edit), loaded by the run or by `rip config doctor`
    let cli = combo == 7;
    let (warmup, load, probe, thread, mode) = match combo {
        7 => ("provider-bash", if j % 2 == 0 { "run" } else { "doctor" }, "provider-bash", true, 1 + (j % 3) as usize),
        0 => ("session-tool", "doctor", "session-tool", false, 0),
        1 => ("provider-bash", "run", "provider-bash", true, 1),
        2 => ("task", "doctor", "task", false, 2),
        3 => ("session-tool", "run", "provider-bash", true, 3),
        4 => ("provider-bash", "doctor", "provider-bash", false, 0),
        5 => ("none", "doctor", "session-tool", false, 1),
        _ => ("session-tool", "none", "session-tool", false, 0),
    };
    sc.thread = thread;
    sc.channel = format!("multi-step:{warmup}>{}>{load}>{probe}", ["file-appears", "file-edited", "higher-layer-added", "reference-changed"][mode]);
    let control = load == "none";
    // the control (nothing loads the edited configuration before the probe spawns): the variable holds no secret, and the
    // model says the subprocess sees it
    sc.env.push((name.into(), if control { "not-a-secret-yet".into() } else { key.clone() }));
    if !control && template_flags(&key).0 {
        sc.secret_unsendable = true;
    }
    sc.env.push(("RV_PUBLIC_MARKER".into(), "visible-to-tools".into()));
    let ep = "{{P}}/v1/responses".to_string();
    let route = "acme/fixture-model".to_string();
    let with_key = |k: Option<KeySpec>, headers: Vec<(String, String)>| ProvSpec { id: "acme".into(), endpoint: Some(ep.clone()), api_key: k, headers };
    let full_b = Layer { slot, providers: vec![with_key(Some(KeySpec::Env(name.into())), vec![("X-Api-Key".into(), "tok {{H}}".into())])], model: Some(route.clone()), ..Default::default() };
    let mut p2_layers = vec![];
    match mode {
        0 => {
            // no file before; the run paths that need a provider before the edit get the endpoint from the environment
            sc.env.push(("RIP_OPENRESPONSES_ENDPOINT".into(), ep.clone()));
            p2_layers.push(full_b);
        }
        1 => {
            // the inline key that the edit rotates OUT is a secret too (nothing may remember it: a "configuration changed"
            // notice, a cached resolution)
            sc.layers.push(Layer { slot, providers: vec![with_key(Some(KeySpec::Inline(if control { "public-decoy-key".into() } else { format!("old-{key}") })), vec![("X-Old".into(), "old {{H}}".into())])], model: Some(route.clone()), ..Default::default() });
            p2_layers.push(full_b);
        }
        2 => {
            let (lo, hi) = if slot == 0 { (0u8, 1 + rng.below(6) as u8) } else { (rng.below(slot as u64) as u8, slot) };
            sc.layers.push(Layer { slot: lo, providers: vec![with_key(Some(KeySpec::Inline("public-decoy-key".into())), vec![])], model: Some(route.clone()), ..Default::default() });
            p2_layers.push(Layer { slot: hi, providers: vec![ProvSpec { id: "acme".into(), endpoint: None, api_key: Some(KeySpec::Env(name.into())), headers: vec![("X-Title".into(), "tok {{H}}".into())] }], ..Default::default() });
        }
        _ => {
            // the file named another variable before (it stays registered: names are never forgotten)
            sc.env.push(("EARLIER_PROVIDER_KEY".into(), "earlier-{{K}}".into()));
            sc.layers.push(Layer { slot, providers: vec![with_key(Some(KeySpec::Env("EARLIER_PROVIDER_KEY".into())), vec![])], model: Some(route.clone()), ..Default::default() });
            p2_layers.push(full_b);
        }
    }
    if !thread && (warmup == "provider-bash" || probe == "provider-bash") && !sc.env.iter().any(|(k, _)| k == "RIP_OPENRESPONSES_ENDPOINT") {
        // the session path runs with the start-up configuration from the environment
        sc.env.push(("RIP_OPENRESPONSES_ENDPOINT".into(), ep.clone()));
    }
    if rng.chance(1, 2) {
        sc.env.push(("RIP_OPENRESPONSES_DUMP_REQUEST".into(), "1".into()));
    }
    sc.phase2 = Some(Phase2 { warmup: warmup.into(), layers: p2_layers, load: load.into(), probe: probe.into(), name: name.into() });
    if cli {
        // both runs through the real `rip run` (the second invocation attaches to the authority the first one spawned)
        sc.cli = true;
        sc.real_authority = false;
        sc.cli_run = Some(vec!["--view".into(), ["raw", "output", "metrics"][(j % 3) as usize].into()]);
        sc.channel = format!("{} (rip run x2)", sc.channel);
    }
    sc
}

/// The SPAWN GRID.  Every way the authority spawns a subprocess - the `bash` tool and its alias `shell` by tool command envelope and
/// on the provider's request (rip-tools shell.rs run_command), background tasks with `execution_mode` absent / "pipes" / "pty" by
/// POST /tasks and by `rip tasks spawn` (ripd tasks/pipes.rs, tasks/pty.rs) - x every argument that changes the spawn path: `cwd`
/// absent / a directory below the root in several spellings / the root itself (".", "") / missing / refused ("..", absolute), `env`
/// absent / empty / a new variable / overriding a public variable / naming a credential variable itself, title, origin, output
/// limits, pty size, envelope timeout.  The authority holds credentials from EVERY channel at once: RIP_OPENRESPONSES_API_KEY,
/// OPENAI_API_KEY, OPENROUTER_API_KEY, the `{ "env": NAME }` key of the selected provider, the `{ "env": NAME }` key of a provider
/// of another file that no run selects, an inline key and a secret header in a file.  Every probe prints its environment (`env`
/// plus one of printenv NAMES / /proc/self/environ / export -p / a grandchild's env / sorted env).
const CWD_FORMS: [(Option<&str>, bool); 10] = [
    (None, true),
    (Some("sub"), true),
    (Some("sub/deeper"), true),
    (Some("."), true),
    (Some(""), true),
    (Some("./sub/"), true),
    (Some("with space"), true),
    (Some("nope/missing"), false),
    (Some("../outside"), false),
    (Some("/usr"), false),
];
const N_ENV_KINDS: u64 = 6;
/// one probe of the grid: `vm` 0 envelope, 1 provider, 2 task (mode absent), 3 task "pipes", 4 task "pty", 5 `rip tasks spawn` pipes,
/// 6 `rip tasks spawn` pty; `form` indexes CWD_FORMS; `e` the kind of the `env` argument; `t` rotates everything else
fn grid_probe(vm: u64, form: usize, e: u64, t: u64, ref_name: &str) -> SpawnProbe {
    let (cwd, exists) = CWD_FORMS[form % CWD_FORMS.len()];
    let (via, mode): (&str, Option<&str>) = match vm {
        0 => ("envelope", None),
        1 => ("provider", None),
        2 => ("task", None),
        3 => ("task", Some("pipes")),
        4 => ("task", Some("pty")),
        5 => ("cli-task", Some("pipes")),
        _ => ("cli-task", Some("pty")),
    };
    let env: Option<Vec<(String, String)>> = match e % N_ENV_KINDS {
        0 => None,
        1 => Some(vec![]),
        2 => Some(vec![("RV_EXTRA_FOR_CALL".into(), format!("extra-{t}"))]),
        3 => Some(vec![("RV_PUBLIC_MARKER".into(), "overridden-by-the-call".into())]),
        4 => Some(vec![("OPENAI_API_KEY".into(), "supplied-by-the-call-not-a-secret".into()), ("RV_EXTRA_FOR_CALL".into(), "x".into())]),
        _ => Some(vec![(ref_name.to_string(), "reference-supplied-by-the-call".into())]),
    };
    let task = via != "envelope" && via != "provider";
    let mut extra: Vec<(String, u64)> = vec![];
    match t % 5 {
        1 => extra.push(("max_bytes".into(), 65536)),
        3 => extra.push(("artifact_max_bytes".into(), 1 << 20)),
        2 if via == "envelope" => extra.push(("timeout_ms".into(), 600_000)),
        _ => {}
    }
    if mode == Some("pty") && t % 2 == 0 {
        extra.push(("rows".into(), 30));
        extra.push(("cols".into(), 200));
    }
    let raw_dump = via != "provider" && mode != Some("pty") && t % 11 == 5;
    SpawnProbe {
        via: via.into(),
        tool: if (t + t / 7) % 3 == 0 { "shell".into() } else { "bash".into() },
        mode: mode.map(String::from),
        cwd: cwd.map(String::from),
        dir_exists: exists,
        env,
        title: if task && t % 2 == 0 { Some(format!("grid probe {t}")) } else { None },
        extra,
        origin: task && via == "task" && t % 3 == 1,
        dump: if raw_dump { 6 } else { ((t + t / 9) % 6) as u8 },
    }
}
/// kind 0: nine probes over envelope / provider / task (mode absent) / task "pipes"; kind 1: one pty task; kind 2: `rip tasks spawn`
fn gen_spawngrid(rng: &mut Rng, kind: u8, g: u64, seed: u64, full: bool) -> Scenario {
    let mut sc = Scenario { prompt: format!("spawn grid {kind}/{g}"), outcome: 10, ..Default::default() };
    sc.config_home = rng.chance(1, 2);
    sc.shape = [0u8, 1, 3, 5, 2, 4][((g + seed + kind as u64) % 6) as usize];
    let mut key = if sc.shape == 0 { "{{K}}-sk-{{R}}".to_string() } else { key_template(rng, sc.shape) };
    while template_flags(&key).0 {
        // the provider-requested probes need a key that can be sent
        key = key_template(rng, sc.shape);
    }
    let name = ["ACME_LLM_TOKEN", "MY_PROVIDER_KEY", "acme_gateway_key"][((g + seed) % 3) as usize];
    let alt_name = ["ALT_ACCOUNT_KEY", "SECOND_PROVIDER_TOKEN", "fallback_gw_secret"][((g / 3 + seed) % 3) as usize];
    let pre = |p: &str| if sc.shape == 2 { "{{K}}".to_string() } else if sc.shape == 1 { format!("{}_{{{{K}}}}", p.to_uppercase()) } else { format!("{p}-{{{{K}}}}") };
    sc.thread = g % 2 == 0;
    sc.env.push((name.into(), key));
    sc.env.push((alt_name.into(), pre("alt")));
    sc.env.push(("RIP_OPENRESPONSES_API_KEY".into(), pre("rip")));
    sc.env.push(("OPENAI_API_KEY".into(), pre("oa")));
    sc.env.push(("OPENROUTER_API_KEY".into(), pre("or")));
    sc.env.push(("RV_PUBLIC_MARKER".into(), "visible-to-tools".into()));
    sc.env.push(("RIP_OPENRESPONSES_ENDPOINT".into(), "{{P}}/v1/responses".into()));
    if rng.chance(1, 2) {
        sc.env.push(("RIP_OPENRESPONSES_DUMP_REQUEST".into(), "1".into()));
    }
    // the selected provider (key by reference, a secret header) and one with an inline key in one file; a provider that no run
    // selects, with its own reference, in another file
    let slot = ((g + seed) % 7) as u8;
    let alt_slot = (slot + 1 + (g % 6) as u8) % 7;
    let hdr = hdr_template(rng, sc.shape);
    sc.layers.push(Layer {
        slot,
        providers: vec![
            ProvSpec { id: "acme".into(), endpoint: Some("{{P}}/v1/responses".into()), api_key: Some(KeySpec::Env(name.into())), headers: vec![("X-Api-Key".into(), if template_flags(&hdr).1 { "tok {{H}}".into() } else { hdr })] },
            ProvSpec { id: "inl".into(), endpoint: Some("{{P}}/inl/v1/responses".into()), api_key: Some(KeySpec::Inline(pre("inline"))), headers: vec![] },
        ],
        model: Some("acme/fixture-model".into()),
        ..Default::default()
    });
    sc.layers.push(Layer { slot: alt_slot, providers: vec![ProvSpec { id: "alt".into(), endpoint: Some("{{P}}/alt/v1/responses".into()), api_key: Some(KeySpec::Env(alt_name.into())), headers: vec![] }], ..Default::default() });
    // the channel PROFILE: 0 every channel at once; 1 environment variables only - no configuration file, the registry stays empty,
    // and the two other variables hold no credential (nobody names them: the children see them, model and code agree); 2 files only -
    // none of the three fixed variables is set (thread path: the file's provider carries the key)
    let profile = if kind == 4 { 0 } else { (g + kind as u64) % 3 };
    match profile {
        1 => {
            sc.layers.clear();
            for (k, v) in sc.env.iter_mut() {
                if k == name || k == alt_name {
                    *v = "not-a-credential-here".into();
                }
            }
        }
        2 => {
            sc.env.retain(|(k, _)| !matches!(k.as_str(), "RIP_OPENRESPONSES_API_KEY" | "OPENAI_API_KEY" | "OPENROUTER_API_KEY"));
            sc.thread = true;
        }
        _ => {}
    }
    let profile_name = ["all-channels", "env-only", "files-only"][profile as usize];
    match kind {
        0 => {
            sc.real_authority = g % 3 == 1;
            // quick: (4 ways) x (cwd absent / below the root / not spawning) x (6 env kinds) = 72 probes over 8 scenarios, the spelling
            // of the directory rotating so that every way meets every spelling; thorough: the full 4 x 10 x 6 over 27 scenarios
            for k in 0..9u64 {
                let t = g * 9 + k;
                let vm = t % 4;
                let e = (t / 4) % N_ENV_KINDS;
                let form = if full {
                    ((t / 24) % 10) as usize
                } else {
                    match (t / 24) % 3 {
                        0 => 0,
                        1 => 1 + ((t / 4 + vm + seed) % 6) as usize,
                        _ => 7 + ((t / 4 + vm + seed) % 3) as usize,
                    }
                };
                sc.spawns.push(grid_probe(vm, form, e, t + seed, name));
            }
            sc.channel = format!("spawn-grid:tool+pipes ({profile_name})");
        }
        1 => {
            sc.real_authority = g % 5 == 2;
            sc.env.push(("RIP_TASKS_ALLOW_PTY".into(), ["1", "true", "on"][(g % 3) as usize].into()));
            let e = g % N_ENV_KINDS;
            let form = if full {
                ((g / N_ENV_KINDS) % 10) as usize
            } else {
                match (g / N_ENV_KINDS) % 3 {
                    0 => 0,
                    1 => 1 + ((g + seed) % 6) as usize,
                    _ => 7 + ((g + seed) % 3) as usize,
                }
            };
            sc.spawns.push(grid_probe(4, form, e, g + seed, name));
            sc.channel = format!("spawn-grid:pty ({profile_name})");
        }
        3 => {
            // no bash on the authority's PATH: the shell tool's fallback (`$SHELL -c` / `sh -c`)
            sc.nobash = true;
            sc.real_authority = g % 2 == 1;
            if g % 3 == 1 {
                sc.env.push(("SHELL".into(), "sh".into()));
            }
            for k in 0..6u64 {
                let t = g * 6 + k;
                let form = match k % 3 {
                    0 => 0,
                    1 => 1 + ((t + seed) % 6) as usize,
                    _ => 7 + ((t + seed) % 3) as usize,
                };
                sc.spawns.push(grid_probe(k % 2, form, (t / 2 + g) % N_ENV_KINDS, t + seed, name));
            }
            sc.channel = format!("spawn-grid:shell-fallback, no bash ({profile_name})");
        }
        _ => {
            sc.cli = true;
            sc.thread = true;
            let with_pty = g % 2 == 1;
            if with_pty {
                sc.env.push(("RIP_TASKS_ALLOW_PTY".into(), "1".into()));
            }
            for k in 0..4u64 {
                let class = (k + g) % 3;
                let form = match class {
                    0 => 0,
                    1 => 1 + ((k + g + seed) % 6) as usize,
                    _ => 7 + ((k + g + seed) % 3) as usize,
                };
                sc.spawns.push(grid_probe(5, form, (k * 2 + g + g / 3) % N_ENV_KINDS, g * 4 + k + seed, name));
            }
            if with_pty {
                sc.spawns.push(grid_probe(6, 1 + ((g + seed) % 6) as usize, (g / 2) % N_ENV_KINDS, g + seed, name));
            }
            sc.channel = "spawn-grid:rip-tasks-spawn".into();
        }
    }
    sc
}

/// frames of the two runs' SSE reads with the same seq (an SSE read may lack frames: see `sse_until`)
fn sse_pairs(a: &[Value], b: &[Value]) -> Vec<(Vec<u8>, Vec<u8>)> {
    let mut out = vec![];
    for x in a {
        if let Some(y) = b.iter().find(|y| y["seq"] == x["seq"]) {
            out.push((serde_json::to_vec(x).unwrap(), serde_json::to_vec(y).unwrap()));
        }
    }
    out
}

/// GET /tasks answers with the values of a HashMap keyed by random task ids: with more than one task the order of the list is
/// run-specific; for the differential the entries are ordered by their canonical text
fn task_list_sorted(label: &str, body: &str, r: &RunOut) -> String {
    if label != "GET /tasks" {
        return body.to_string();
    }
    match serde_json::from_str::<Value>(body) {
        Ok(Value::Array(items)) if items.len() > 1 => {
            let mut texts: Vec<String> = items.iter().map(|x| String::from_utf8_lossy(&canon(x.to_string().as_bytes(), r)).to_string()).collect();
            texts.sort();
            format!("[{}]", texts.join(","))
        }
        _ => body.to_string(),
    }
}

// ------------------------------------------------------------------ checks on a pair of runs
struct PairReport {
    violations: Vec<(String, String)>, // (class, what)
    positive: bool,
    positive_na: bool,
    checks: u64,
}

fn check_pair(a: &RunOut, b: &RunOut, cores: [&str; 6], sc: &Scenario) -> PairReport {
    let mut rep = PairReport { violations: vec![], positive: false, positive_na: false, checks: 0 };
    // (i) canary search
    for r in [a, b] {
        let mut sinks: Vec<(String, &[u8])> = vec![];
        for (p, bytes) in &r.files {
            sinks.push((format!("file:{p}"), bytes));
        }
        sinks.push(("router-responses".into(), &r.raw_responses));
        sinks.push(("child-stdout".into(), &r.stdout));
        sinks.push(("child-stderr".into(), &r.stderr));
        let doc = serde_json::to_vec(&r.obs.doctor).unwrap();
        let doc2 = serde_json::to_vec(&r.obs.doctor_after).unwrap();
        let mut all: Vec<(String, Vec<u8>)> = sinks.iter().map(|(n, b)| (n.clone(), b.to_vec())).collect();
        all.push(("doctor".into(), doc));
        all.push(("doctor-after".into(), doc2));
        // file names too
        let names: Vec<u8> = r.files.iter().flat_map(|(p, _)| p.bytes().chain(std::iter::once(b'\n'))).collect();
        all.push(("file-names".into(), names));
        for core in cores {
            if core.len() < 6 {
                // a tiny secret cannot be searched for (it occurs by chance); the differential below still sees it
                continue;
            }
            for (form, pat) in canary_forms(core) {
                for (name, bytes) in &all {
                    rep.checks += 1;
                    if let Some(pos) = find(bytes, &pat) {
                        let sink_class = if name.starts_with("file:") {
                            let p = name.trim_start_matches("file:");
                            if p.contains("artifacts") {
                                "artifact"
                            } else if p.contains("snapshots") {
                                "snapshot"
                            } else if p.ends_with(".jsonl") {
                                "event-log"
                            } else {
                                "cache-or-other-file"
                            }
                        } else {
                            name.as_str()
                        };
                        let lo = pos.saturating_sub(60);
                        let hi = (pos + pat.len() + 20).min(bytes.len());
                        rep.violations.push((
                            format!("secret_in_{sink_class}"),
                            format!("canary ({form}) found in {name} at byte {pos}: …{}…", String::from_utf8_lossy(&bytes[lo..hi])),
                        ));
                    }
                }
            }
        }
        for d in [&r.obs.doctor, &r.obs.doctor_after] {
            rep.checks += 1;
            if let Err(e) = doctor_shape_ok(d) {
                rep.violations.push(("doctor_reports_more_than_presence_and_source".into(), e));
            }
        }
        if !r.exit_ok {
            rep.violations.push(("child_failed".into(), format!("child process failed; stderr: {}", String::from_utf8_lossy(&r.stderr).chars().take(400).collect::<String>())));
        }
        if !r.obs.errors.is_empty() {
            rep.violations.push(("child_errors".into(), format!("{:?}", r.obs.errors)));
        }
    }
    // spawn grid: every probe that is expected to spawn a subprocess must have printed a REAL view of its environment (PATH and the
    // public marker - from the authority or from the call's own `env`), otherwise the scenario shows nothing
    for r in [a, b] {
        for (i, p) in r.sc.spawns.iter().enumerate() {
            rep.checks += 1;
            let view = spawn_view_of(r, i);
            if p.spawns() {
                let real = view.as_ref().map(|v| v.iter().any(|(k, _)| k == "PATH") && v.iter().any(|(k, _)| k == "RV_PUBLIC_MARKER")).unwrap_or(false);
                if !real {
                    rep.violations.push((
                        "spawn_probe_vacuous".into(),
                        format!("probe #{i} ({}) printed no view of its environment: {:?}", p.label(), r.obs.spawn_outs.get(i).cloned().flatten().map(|o| o.chars().take(300).collect::<String>())),
                    ));
                }
            }
        }
    }
    // (+) positive control: the secret reached the provider
    let uses_hdr = sc.layers.iter().any(|l| l.providers.iter().any(|p| p.headers.iter().any(|h| h.1.contains("{{H}}"))));
    let reached = |r: &RunOut, key_core: &str, hdr_core: &str| -> bool {
        let Some(req) = r.recorded.first() else { return false };
        let key_ok = req.headers.iter().any(|(k, v)| k == "authorization" && v.starts_with("Bearer ") && v.contains(key_core));
        let hdr_ok = req.headers.iter().any(|(k, v)| k != "authorization" && v.contains(hdr_core));
        if sc.channel == "header" {
            hdr_ok
        } else if uses_hdr {
            key_ok && hdr_ok
        } else {
            key_ok
        }
    };
    if !sc.spawns.is_empty() {
        // spawn grid: when the provider asked for probes, the run's key reached it
        if sc.spawns.iter().any(|p| p.via == "provider") {
            let any = |r: &RunOut, core: &str| r.recorded.iter().any(|req| req.headers.iter().any(|(k, v)| k == "authorization" && v.contains(core)));
            rep.positive = any(a, cores[0]) && any(b, cores[2]);
        } else {
            rep.positive_na = true;
        }
    } else if let Some(p2) = &sc.phase2 {
        // multi-step: when the probe is a thread-path run under the edited configuration the key behind NAME must have
        // reached the provider (that the edit was picked up is checked on the doctor in every multi-step scenario)
        if p2.probe == "provider-bash" && sc.thread && !sc.secret_unsendable && p2.load != "none" {
            let any = |r: &RunOut, core: &str| r.recorded.iter().any(|req| req.headers.iter().any(|(k, v)| k == "authorization" && v.contains(core)));
            rep.positive = any(a, cores[0]) && any(b, cores[2]);
        } else {
            rep.positive_na = true;
        }
    } else if sc.outcome == 2 || sc.secret_unsendable || sc.doctor_only {
        rep.positive_na = true;
    } else {
        rep.positive = reached(a, cores[0], cores[1]) && reached(b, cores[2], cores[3]);
    }
    // (ii) persisted bytes equal after canonicalisation
    // (not for a scenario with a pty task: the frames of its output follow the reads of the pty master - their number depends on
    // timing - and the task never reaches its final frames, see drive_task_probe; canary search, response differential and the
    // correspondence still apply)
    let pty_frames = sc.spawns.iter().any(|p| p.is_pty());
    let ca = if pty_frames { vec![] } else { canon_files(a) };
    let cb = if pty_frames { vec![] } else { canon_files(b) };
    rep.checks += 1;
    if ca != cb {
        let mut what = format!("persisted bytes differ between the two canary runs ({} vs {} files)", ca.len(), cb.len());
        for (x, y) in ca.iter().zip(cb.iter()) {
            if x.0 != y.0 {
                what.push_str(&format!("; first differing path {} vs {}", x.0, y.0));
                break;
            }
            if x.1 != y.1 {
                let p = x.1.iter().zip(y.1.iter()).position(|(m, n)| m != n).unwrap_or(x.1.len().min(y.1.len()));
                let lo = p.saturating_sub(80);
                what.push_str(&format!(
                    "; {} differs at byte {p}: …{}… vs …{}…",
                    x.0,
                    String::from_utf8_lossy(&x.1[lo..(p + 40).min(x.1.len())]),
                    String::from_utf8_lossy(&y.1[lo..(p + 40).min(y.1.len())])
                ));
                break;
            }
        }
        rep.violations.push(("persisted_depends_on_secret".into(), what));
    }
    // (iii) diagnostics and everything the router answered are equal after canonicalisation
    for (name, xa, xb) in [
        ("doctor", serde_json::to_vec(&a.obs.doctor).unwrap(), serde_json::to_vec(&b.obs.doctor).unwrap()),
        ("doctor-after", serde_json::to_vec(&a.obs.doctor_after).unwrap(), serde_json::to_vec(&b.obs.doctor_after).unwrap()),
    ]
    .into_iter()
    .chain(a.obs.bodies.iter().zip(b.obs.bodies.iter()).map(|(x, y)| ("http-response", format!("{} {}", x.0, task_list_sorted(&x.0, &x.1, a)).into_bytes(), format!("{} {}", y.0, task_list_sorted(&y.0, &y.1, b)).into_bytes())))
    .chain(a.proc_diff.iter().filter_map(|(n, x)| b.proc_diff.iter().find(|(m, _)| m == n).map(|(_, y)| ("process-output", [n.as_bytes(), b": ", x.as_slice()].concat(), [n.as_bytes(), b": ", y.as_slice()].concat()))))
    .chain(sse_pairs(&a.obs.session_frames, &b.obs.session_frames).into_iter().map(|(x, y)| ("sse-frame", x, y)))
    .chain(sse_pairs(&a.obs.thread_frames, &b.obs.thread_frames).into_iter().map(|(x, y)| ("sse-frame", x, y)))
    {
        rep.checks += 1;
        let (ca, cb) = (canon(&xa, a), canon(&xb, b));
        if ca != cb {
            let p = ca.iter().zip(cb.iter()).position(|(m, n)| m != n).unwrap_or(ca.len().min(cb.len()));
            let lo = p.saturating_sub(80);
            rep.violations.push((
                format!("{}_depends_on_secret", if name.starts_with("doctor") { "diagnostics" } else if name == "process-output" { "process_output" } else { "response" }),
                format!(
                    "{name} differs between the two canary runs at byte {p}: …{}… vs …{}…",
                    String::from_utf8_lossy(&ca[lo..(p + 40).min(ca.len())]),
                    String::from_utf8_lossy(&cb[lo..(p + 40).min(cb.len())])
                ),
            ));
        }
    }
    // B1 (KNOWN_FINDINGS, fixed in /repo bca1684: a regression now): the scripted provider asked the shell tool to print
    // the key variable and its whole environment.  When every persisted session frame that holds a canary is a tool-output
    // frame (tool_stdout / tool_stderr / tool_ended / ..) the leak is exactly "tool output shows the inherited
    // environment"; anything else keeps its generic class.
    if sc.outcome == 8 || sc.phase2.is_some() || !sc.spawns.is_empty() {
        let tool_only = |r: &RunOut, cs: [&str; 2]| -> Option<bool> {
            let mut any = false;
            for f in &r.disk_session {
                let txt = f.to_string();
                if cs.iter().any(|c| txt.contains(c)) {
                    any = true;
                    if !f["type"].as_str().unwrap_or("").starts_with("tool_") {
                        return Some(false);
                    }
                }
            }
            any.then_some(true)
        };
        if tool_only(a, [cores[0], cores[1]]) == Some(true) && tool_only(b, [cores[2], cores[3]]) == Some(true) {
            let (leaks, rest): (Vec<_>, Vec<_>) = rep.violations.drain(..).partition(|(c, _)| c.starts_with("secret_in_") || c.ends_with("_depends_on_secret"));
            rep.violations = rest;
            if let Some((_, first)) = leaks.first() {
                // spawn grid: the probes whose subprocess printed a canary
                let leaking: Vec<String> = sc
                    .spawns
                    .iter()
                    .enumerate()
                    .filter(|(i, _)| [(a, [cores[0], cores[1]]), (b, [cores[2], cores[3]])].iter().any(|(r, cs)| r.obs.spawn_outs.get(*i).cloned().flatten().map(|o| cs.iter().any(|c| o.contains(c))).unwrap_or(false)))
                    .map(|(i, p)| format!("#{i} {}", p.label()))
                    .collect();
                let what = match &sc.phase2 {
                    _ if !sc.spawns.is_empty() => format!("a subprocess of the authority sees a credential variable of the authority: {} of the {} spawns of this scenario print a key (`env` / printenv / /proc/self/environ) - {}", leaking.len(), sc.spawns.len(), leaking.join("; ")),
                    Some(p2) => format!("a subprocess spawned AFTER the configuration naming {} as a key source ({{ \"env\": \"{}\" }}, file written while the authority was running; warm-up: {}, loaded by: {}) still gets that variable: `printenv {}; env` shows the key in tool output", p2.name, p2.name, p2.warmup, p2.load, p2.name),
                    None => "tool subprocesses inherit the authority's credential variables again: a provider-requested `printenv RIP_OPENRESPONSES_API_KEY; env` (or a background task running `env`) shows the env-supplied key in tool output".to_string(),
                };
                rep.violations.push((
                    "secret_in_tool_output_via_inherited_env".into(),
                    format!("{what} ({} sink hits, e.g. {})", leaks.len(), first.chars().take(300).collect::<String>()),
                ));
            }
        }
    }
    rep
}

// ------------------------------------------------------------------ main
fn main() {
    let args = parse_args();
    if let Some(spec) = args.extra.get("child") {
        std::process::exit(child_main(spec));
    }
    let mut rng = Rng::new(args.seed);
    let mut res = RunResult::new("C19", &args);
    res.rule = "distinct = (channel, outcome, path, dump, layer slots, observation) tuples; every scenario is run twice (two canaries) in child processes".into();
    let n: u64 = args.extra.get("scenarios").and_then(|v| v.parse().ok()).unwrap_or(if args.thorough() { 600 } else { 80 });
    let jobs: usize = args.extra.get("jobs").and_then(|v| v.parse().ok()).unwrap_or(8);

    // scenarios: corpus / replay first, then generated
    let mut scenarios: Vec<Scenario> = vec![];
    let corpus_dir = PathBuf::from(env!("CARGO_MANIFEST_DIR")).join("../corpus/C19");
    if let Some(rp) = &args.replay {
        if let Ok(b) = std::fs::read(rp) {
            if let Ok(v) = serde_json::from_slice::<Value>(&b) {
                let c = v.get("case").cloned().unwrap_or(v);
                if let Ok(sc) = serde_json::from_value::<Scenario>(c["scenario"].clone()) {
                    scenarios.push(sc);
                }
            }
        }
    }
    if let Ok(rd) = std::fs::read_dir(&corpus_dir) {
        let mut ps: Vec<_> = rd.flatten().map(|e| e.path()).filter(|p| p.extension().map(|e| e == "json").unwrap_or(false)).collect();
        ps.sort();
        for p in ps {
            if let Ok(v) = serde_json::from_slice::<Value>(&std::fs::read(&p).unwrap_or_default()) {
                if let Ok(sc) = serde_json::from_value::<Scenario>(v["scenario"].clone()) {
                    scenarios.push(sc);
                }
            }
        }
    }
    let n_fixed = scenarios.len();
    let full = args.thorough();
    // the failing-input search (`--oracle-only 1`, run by ./check after an obligation / the correspondence broke): the
    // targeted generators first, a wall-clock budget, and it stops at the first leak
    let search = args.oracle_only();
    let budget_s: u64 = args.extra.get("budget-s").and_then(|v| v.parse().ok()).unwrap_or(if search { 150 } else { u64::MAX / 4 });
    let n_multi_combos: u64 = if full { 8 } else { 4 };
    let n_multi: u64 = args.extra.get("multistep").and_then(|v| v.parse().ok()).unwrap_or(if full { 7 * 8 * 2 } else { 7 * 4 + 5 });
    let n_shapes: u64 = args.extra.get("shapes").and_then(|v| v.parse().ok()).unwrap_or(N_SHAPES as u64 * 3 * if full { 3 } else { 1 });
    let n_misfit: u64 = args.extra.get("misfit").and_then(|v| v.parse().ok()).unwrap_or(N_MISFIT as u64 * 7 * if full { 3 } else { 1 });
    let n_clirun: u64 = args.extra.get("clirun").and_then(|v| v.parse().ok()).unwrap_or(if full { 37 } else { 8 });
    let n_toolenv: u64 = args.extra.get("toolenv").and_then(|v| v.parse().ok()).unwrap_or(if full { 24 } else { 6 });
    let n_startup: u64 = args.extra.get("startup").and_then(|v| v.parse().ok()).unwrap_or(if full { 24 } else { 6 });
    // the spawn grid: (tool + pipes scenarios, pty scenarios, `rip tasks spawn` scenarios)
    let n_spawn: [u64; 3] = match args.extra.get("spawngrid").and_then(|v| v.parse::<u64>().ok()) {
        Some(0) => [0, 0, 0],
        Some(k) => [k, k, k.min(2)],
        None => if full { [27, 60, 6] } else { [8, 18, 2] },
    };
    let n_nobash: u64 = if n_spawn[0] == 0 { 0 } else if full { 6 } else { 2 };
    let grid = |rng: &mut Rng, scenarios: &mut Vec<Scenario>| {
        for i in 0..n {
            scenarios.push(gen_scenario(rng, i));
        }
    };
    if !search {
        grid(&mut rng, &mut scenarios);
    }
    for (kind, n) in n_spawn.iter().enumerate() {
        for g in 0..*n {
            scenarios.push(gen_spawngrid(&mut rng, if kind == 2 { 4 } else { kind as u8 }, g, args.seed, full));
        }
    }
    for g in 0..n_nobash {
        scenarios.push(gen_spawngrid(&mut rng, 3, g, args.seed, full));
    }
    for j in 0..n_multi {
        // quick: the four main combinations for every config slot, then one of each remaining combination
        let sc = if !full && j >= 28 { gen_multistep(&mut rng, (j - 28 + args.seed) % 7 + 7 * (4 + [0u64, 1, 2, 3, 3][((j - 28) % 5) as usize]), 8) } else { gen_multistep(&mut rng, j, n_multi_combos) };
        scenarios.push(sc);
    }
    for j in 0..n_shapes {
        scenarios.push(gen_shapes(&mut rng, j));
    }
    for j in 0..n_clirun {
        scenarios.push(gen_clirun(&mut rng, j));
    }
    for j in 0..n_toolenv {
        scenarios.push(gen_toolenv(&mut rng, j));
    }
    for j in 0..n_startup {
        scenarios.push(gen_startup(&mut rng, j));
    }
    for j in 0..n_misfit {
        scenarios.push(gen_misfit(&mut rng, j, full));
    }
    if search {
        grid(&mut rng, &mut scenarios);
    }
    if rip_bin().is_none() {
        res.notes.push("real `rip` binary not found (harness/target-cli/debug/rip, or $RV_RIP_BIN): the CLI scenarios use the real `ripd` process over HTTP instead".into());
        scenarios.retain(|sc| sc.cli_run.is_none());
        for sc in &mut scenarios {
            if sc.cli {
                sc.cli = false;
                sc.real_authority = true;
                for p in &mut sc.spawns {
                    if p.via == "cli-task" {
                        p.via = "task".into();
                    }
                }
            }
        }
    }
    // verbose logging asked for in the authority's environment (nothing in rip logs today: no effect; a logging layer
    // added later would print third-party Debug output - hyper / reqwest trace lines hold custom header values)
    for (i, sc) in scenarios.iter_mut().enumerate() {
        if i % 4 == 3 && i >= n_fixed {
            sc.env.push(("RUST_LOG".into(), ["trace", "debug", "ripd=trace,reqwest=trace,hyper=trace"][(i / 4) % 3].into()));
            sc.env.push(("RUST_BACKTRACE".into(), "1".into()));
        }
    }
    let have_ripd = ripd_bin().is_some();
    if !have_ripd {
        res.notes.push("real authority binary not found (c19_ripd next to c19, or $RV_RIPD_BIN): every scenario uses the in-process router".into());
        for sc in &mut scenarios {
            sc.real_authority = false;
        }
    }
    // canaries per scenario, of the scenario's shape: [key A, header A, key B, header B, number A, number B]
    let cores: Vec<[String; 6]> = scenarios
        .iter()
        .map(|sc| [shaped_core(&mut rng, sc.shape, 0), shaped_core(&mut rng, sc.shape, 1), shaped_core(&mut rng, sc.shape, 2), shaped_core(&mut rng, sc.shape, 3), num_core(&mut rng), num_core(&mut rng)])
        .collect();

    // run (parallel over scenarios); each worker also judges its pair, so that the search can stop at the first leak
    let results: std::sync::Mutex<Vec<Option<(RunOut, RunOut, PairReport)>>> = std::sync::Mutex::new((0..scenarios.len()).map(|_| None).collect());
    let next = std::sync::atomic::AtomicUsize::new(0);
    let stop = std::sync::atomic::AtomicBool::new(false);
    let t_start = std::time::Instant::now();
    std::thread::scope(|s| {
        for _ in 0..jobs {
            s.spawn(|| loop {
                if stop.load(std::sync::atomic::Ordering::SeqCst) || t_start.elapsed().as_secs() >= budget_s {
                    break;
                }
                let i = next.fetch_add(1, std::sync::atomic::Ordering::SeqCst);
                if i >= scenarios.len() {
                    break;
                }
                let a = run_once(&scenarios[i], &cores[i][0], &cores[i][1], &cores[i][4]);
                let b = run_once(&scenarios[i], &cores[i][2], &cores[i][3], &cores[i][5]);
                let c = &cores[i];
                let rep = check_pair(&a, &b, [&c[0], &c[1], &c[2], &c[3], &c[4], &c[5]], &scenarios[i]);
                if search && rep.violations.iter().any(|(class, _)| class.starts_with("secret_in_") || class.ends_with("_depends_on_secret") || class.starts_with("doctor_reports_more")) {
                    stop.store(true, std::sync::atomic::Ordering::SeqCst);
                }
                results.lock().unwrap()[i] = Some((a, b, rep));
            });
        }
    });
    let results = results.into_inner().unwrap();

    let mut cw = CaseWriter::new(&args.out, "Model.SecretFlow", "check_case", "model_obs", 40);
    let mut distinct = Distinct::default();
    let mut positive = 0u64;
    let mut positive_na = 0u64;
    let mut vacuous = 0u64;
    for (i, pair) in results.into_iter().enumerate() {
        let Some((a, b, rep)) = pair else {
            // only in the failing-input search: its budget ran out, or a leak was found and the search stopped
            res.bump("search:scenarios-not-run (budget / stopped at the first leak)");
            continue;
        };
        let sc = &scenarios[i];
        res.evaluations += 2;
        res.oracle_checks += rep.checks;
        res.bump(&format!("channel:{}", sc.channel));
        res.bump(&format!("outcome:{}", sc.outcome));
        res.bump(&format!("canary-shape:{}", shape_name(sc.shape)));
        if sc.phase2.is_none() && (sc.outcome == 1 || sc.outcome == 7) {
            res.bump(&format!("http-error-status:{}", if sc.http_status == 0 { 500 } else { sc.http_status }));
        }
        if sc.phase2.is_some() {
            res.bump("multi-step-scenarios (spawn, edit, load, probe)");
        }
        for p in &sc.spawns {
            res.bump(&format!("spawn-probe:via={}{}", p.via, p.mode.as_ref().map(|m| format!("/{m}")).unwrap_or_default()));
            res.bump(&format!("spawn-probe:cwd={}", match &p.cwd { None => "(absent)".to_string(), Some(c) => format!("{c:?}") }));
            res.bump(&format!("spawn-probe:env={}", match &p.env { None => "(absent)".to_string(), Some(e) => format!("{:?}", e.iter().map(|(k, _)| k.as_str()).collect::<Vec<_>>()) }));
            res.bump(&format!("spawn-probe:tool={}", p.tool));
            res.bump(&format!("spawn-probe:dump={}", p.dump));
        }
        res.bump(if sc.thread { "path:thread" } else { "path:session" });
        if sc.oracle_only {
            res.bump("oracle-only-scenarios (outside the model)");
        }
        res.bump(if sc.cli { "authority:rip-cli-spawned (rip config doctor)" } else if sc.real_authority { "authority:real-ripd-process" } else { "authority:in-process-router" });
        if sc.doctor_only {
            res.bump("doctor-only-scenarios");
        }
        res.bump_by("cli-doctor-invocations", (a.obs.cli_runs.len() + b.obs.cli_runs.len()) as u64);
        res.bump_by("cli-doctor-waits-for-authority", a.obs.cli_waits + b.obs.cli_waits);
        let dump_on = sc.env.iter().any(|(k, v)| k == "RIP_OPENRESPONSES_DUMP_REQUEST" && matches!(v.to_ascii_lowercase().as_str(), "1" | "true" | "yes" | "on"));
        res.bump(if dump_on { "dump:on" } else { "dump:off" });
        res.bump(&format!("layers:{}", sc.layers.len()));
        res.bump_by("provider-requests-recorded", (a.recorded.len() + b.recorded.len()) as u64);
        res.bump_by("sse-reads-ended-by-disk-log", a.obs.sse_gaps + b.obs.sse_gaps);
        res.bump_by("real-authority-start-up-lines-captured", [&a, &b].iter().filter(|r| find(&r.stderr, b"ripd listening on ").is_some()).count() as u64);
        res.bump_by("persisted-files-scanned", (a.files.len() + b.files.len()) as u64);
        res.bump_by("persisted-bytes-scanned", a.files.iter().chain(b.files.iter()).map(|f| f.1.len() as u64).sum());
        if rep.positive_na {
            positive_na += 1;
        } else if rep.positive {
            positive += 1;
        } else {
            vacuous += 1;
        }
        let obs_a = observe(&a);
        let obs_b = observe(&b);
        let case_json = json!({ "scenario": sc, "index": i, "fixed": i < n_fixed });
        let mut ids = vec![];
        for (r, obs) in [(&a, &obs_a), (&b, &obs_b)] {
            // the model sees the concrete world of this run (actual provider URL, this run's canary)
            let mut conc = r.sc.clone();
            conc.layers.sort_by_key(|l| l.slot);
            let map: Vec<(&str, &str)> = vec![("{{K}}", r.canaries[0].as_str()), ("{{H}}", r.canaries[1].as_str()), ("{{N}}", r.canaries[2].as_str())];
            let id = if args.oracle_only() || sc.oracle_only { -1 } else { cw.push(coq_case(&conc, obs, &map)) as i64 };
            ids.push(id);
            if id >= 0 && res.case_index.len() < 400 {
                res.case_index.insert(id.to_string(), case_json.clone());
            }
        }
        distinct.add(&format!("{}|{}|{}|{}|{:?}|{:?}", sc.channel, sc.outcome, sc.thread, dump_on, sc.layers.iter().map(|l| l.slot).collect::<Vec<_>>(), canon(&obs_a.iter().map(|x| (*x % 251) as u8).collect::<Vec<u8>>(), &a).len()));
        if res.samples.len() < 2 {
            res.samples.push(json!({ "scenario": sc, "doctor": a.obs.doctor, "provider_saw_authorization": a.recorded.first().map(|r| r.headers.iter().any(|(k, _)| k == "authorization")), "frames": a.obs.session_frames.len(), "files": a.files.iter().map(|(p, b)| format!("{}:{}", String::from_utf8_lossy(&canon(p.as_bytes(), &a)), b.len())).collect::<Vec<_>>() }));
        }
        if sc.oracle_only && res.samples.len() < 4 && !res.samples.iter().any(|x| x["channel"] == json!(sc.channel)) {
            let errs: Vec<String> = a.disk_session.iter().filter(|f| f["type"] == "provider_event").flat_map(|f| f["errors"].as_array().cloned().unwrap_or_default()).map(|e| String::from_utf8_lossy(&canon(e.to_string().as_bytes(), &a)).to_string()).collect();
            let srcs: Vec<String> = a.obs.doctor["sources"].as_array().map(|v| v.iter().filter(|x| x["status"] != "missing").map(|x| format!("{} {}", x["status"], x["error"])).collect()).unwrap_or_default();
            res.samples.push(json!({ "channel": sc.channel, "outcome": sc.outcome, "error_frames": errs, "doctor_sources": srcs, "doctor_openresponses": a.obs.doctor["openresponses"], "provider_requests": a.recorded.len() }));
        }
        if !rep.positive && !rep.positive_na {
            res.oracle_violations.push(OracleViolation {
                case_id: ids[0],
                what: format!("vacuous scenario: the canary did not reach the provider's recorded request headers (channel {}, outcome {}); recorded {} requests", sc.channel, sc.outcome, a.recorded.len()),
                class: "vacuous_scenario".into(),
                replay: case_json.clone(),
            });
        }
        for (class, what) in rep.violations {
            res.oracle_violations.push(OracleViolation { case_id: ids[0], what, class, replay: case_json.clone() });
        }
    }
    cw.flush();
    res.distinct_nontrivial = distinct.count();
    res.case_files = cw.files.iter().map(|p| p.display().to_string()).collect();
    res.notes.push(format!("positive control: secret reached the provider in {positive} scenarios, not applicable (dead endpoint) in {positive_na}, vacuous {vacuous}"));
    res.bump_by("positive-control-ok", positive);
    res.bump_by("positive-control-na", positive_na);
    res.bump_by("vacuous", vacuous);
    let _ = BTreeMap::<u8, u8>::new();
    res.write(&args.out);
    println!("c19: {} scenarios x2 runs, {} oracle checks, {} violations, positive {positive} na {positive_na} vacuous {vacuous}", scenarios.len(), res.oracle_checks, res.oracle_violations.len());
}
