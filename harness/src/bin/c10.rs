//! C10 — branch / handoff record correct lineage and never touch the parent.
//! Random parent histories through the public ContinuityStore API (messages, run frames incl. dangling
//! ones, tool side effects, checkpoints, nested branches/handoffs, sidecar faults, restarts), then
//! thread.branch / thread.handoff with every selector and summary class.
//! Correspondence: per call (log before, replay_events(parent), selector, summary, the ids drawn) vs
//! coq/Model/Lineage.v (`check_case`).  Independent oracle: the property itself on events.jsonl and
//! the workspace artifact store, without the model.
#[path = "../contlib/mod.rs"]
mod contlib;
use contlib::*;
use rip_kernel::{Event, EventKind, StreamKind};
use ripd::*;
use rv::*;
use serde_json::json;
use std::collections::HashMap;

#[derive(Clone, Copy, Debug, PartialEq, Eq)]
enum MRef {
    Known(u64), // pick among the thread's messages
    Ghost(u64), // a message id that names no event
    Empty,      // ""
}
#[derive(Clone, Copy, Debug, PartialEq, Eq)]
enum SeqSel {
    Zero,
    Mid(u64),
    Head,
    HeadPlus(u64),
    Max,
}
#[derive(Clone, Copy, Debug, PartialEq, Eq)]
enum MsgSel {
    First,
    Last,
    Pick(u64),
    Unknown,
    Ghost(u64),   // an id some run frame names but no message carries
    CreatedFrame, // id of the thread's continuity_created frame
    RunFrame,     // event id of a run_spawned / run_ended frame
    OtherThread,  // id of a message of a different thread
    Empty,
}
#[derive(Clone, Copy, Debug, PartialEq, Eq)]
enum Sel {
    None,
    Seq(SeqSel),
    Msg(MsgSel),
    Both,
}
#[derive(Clone, Copy, Debug, PartialEq, Eq)]
enum Summary {
    Markdown,
    ArtifactExisting, // an artifact id that is present in the workspace store
    ArtifactUnknown,  // an id nothing is stored under
    BothExisting,
    BothUnknown,
    Neither,
    /// a caller-supplied summary_artifact_id of a given SHAPE (no text)
    ArtShape(IdShape),
    /// the same next to a summary text
    BothShape(IdShape),
}
/// shapes of a caller-supplied summary_artifact_id.  `<blob>` = the name of a blob that exists in the store (when
/// the store holds none: a 64-hex name nothing is stored under); `sub`, `sub/inner`, `../outside.txt`,
/// `<ws>/outside.txt`, `<blob>.tmp` exist after Op::StoreFx(Furnish), otherwise they name nothing.
#[derive(Clone, Copy, Debug, PartialEq, Eq)]
enum IdShape {
    Empty,             // ""  (joins to "<blobs>/")
    Dot,               // "."
    DotDot,            // ".."
    DotSlash,          // "./"
    Space,             // " "
    Blob,              // <blob>
    BlobSlash,         // <blob>/
    BlobDot,           // <blob>/.
    BlobDotDot,        // <blob>/..
    DotSlashBlob,      // ./<blob>
    DotsBlob,          // ./ x 20 <blob>
    LongDotsBlob,      // ./ x 2500 <blob>: longer than PATH_MAX
    Edge4095,          // ./////<blob>, joined path 4095 bytes (the longest stat accepts)
    Edge4096,          // ... 4096 bytes (ENAMETOOLONG)
    BlobTmp,           // <blob>.tmp (what an interrupted write_blob_atomic leaves)
    BlobNul,           // <blob>\0
    NulInside,         // a\0b
    BlobUpper,         // <BLOB> in upper case
    BlobSpace,         // <blob> followed by a blank
    Unknown,           // deadbeef
    UnknownHex64,      // 64 hex digits nothing is stored under
    Long255,           // 255 x 'a' (the longest name)
    Long256,           // 256 x 'a' (ENAMETOOLONG)
    Long5000,          // 5000 x 'a'
    DirName,           // sub
    DirSlash,          // sub/
    NestedFile,        // sub/inner
    NestedMissing,     // sub/missing
    SubDotDotBlob,     // sub/../<blob>
    MissingDotDotBlob, // nosuch/../<blob>  (ENOENT although the lexical path names the blob)
    AB,                // a/b
    Backslash,         // sub\inner (one name on Unix)
    ParentBlobsDir,    // ../blobs
    ParentBlobsBlob,   // ../blobs/<blob>
    ParentFile,        // ../outside.txt  (a regular file next to blobs/)
    ParentMissing,     // ../x
    UpToLog,           // ../../../../data/events.jsonl (the event log)
    AbsBlob,           // <abs blobs>/<blob>
    AbsBlobsDir,       // <abs blobs>
    AbsBlobsDirSlash,  // <abs blobs>/
    AbsOutside,        // <abs ws>/outside.txt
    AbsMissing,        // /nonexistent-rv-c10/x
    AbsRoot,           // /
}
const SHAPES_ALL: [IdShape; 43] = [
    IdShape::Empty, IdShape::Dot, IdShape::DotDot, IdShape::DotSlash, IdShape::Space, IdShape::Blob, IdShape::BlobSlash, IdShape::BlobDot, IdShape::BlobDotDot,
    IdShape::DotSlashBlob, IdShape::DotsBlob, IdShape::LongDotsBlob, IdShape::Edge4095, IdShape::Edge4096, IdShape::BlobTmp, IdShape::BlobNul, IdShape::NulInside,
    IdShape::BlobUpper, IdShape::BlobSpace, IdShape::Unknown, IdShape::UnknownHex64, IdShape::Long255, IdShape::Long256, IdShape::Long5000, IdShape::DirName,
    IdShape::DirSlash, IdShape::NestedFile, IdShape::NestedMissing, IdShape::SubDotDotBlob, IdShape::MissingDotDotBlob, IdShape::AB, IdShape::Backslash,
    IdShape::ParentBlobsDir, IdShape::ParentBlobsBlob, IdShape::ParentFile, IdShape::ParentMissing, IdShape::UpToLog, IdShape::AbsBlob, IdShape::AbsBlobsDir,
    IdShape::AbsBlobsDirSlash, IdShape::AbsOutside, IdShape::AbsMissing, IdShape::AbsRoot,
];
const SHAPES_CORE: [IdShape; 20] = [
    IdShape::Empty, IdShape::Dot, IdShape::DotDot, IdShape::DotSlash, IdShape::Blob, IdShape::BlobSlash, IdShape::DotSlashBlob, IdShape::BlobTmp, IdShape::BlobNul,
    IdShape::Unknown, IdShape::Long256, IdShape::DirName, IdShape::DirSlash, IdShape::NestedFile, IdShape::AB, IdShape::ParentBlobsDir, IdShape::ParentFile,
    IdShape::AbsBlob, IdShape::AbsBlobsDir, IdShape::AbsRoot,
];
const HEX64_UNKNOWN: &str = "0123456789abcdef0123456789abcdef0123456789abcdef0123456789abcdef";
fn id_text(shape: IdShape, blob: &str, blobs_abs: &str, ws_abs: &str) -> String {
    let pad = |total: usize| -> String {
        // "." + '/' * k + blob with blobs_abs + "/" + id exactly `total` bytes long
        let id_len = total.saturating_sub(blobs_abs.len() + 1);
        let k = id_len.saturating_sub(1 + blob.len()).max(1);
        format!(".{}{}", "/".repeat(k), blob)
    };
    match shape {
        IdShape::Empty => String::new(),
        IdShape::Dot => ".".into(),
        IdShape::DotDot => "..".into(),
        IdShape::DotSlash => "./".into(),
        IdShape::Space => " ".into(),
        IdShape::Blob => blob.into(),
        IdShape::BlobSlash => format!("{blob}/"),
        IdShape::BlobDot => format!("{blob}/."),
        IdShape::BlobDotDot => format!("{blob}/.."),
        IdShape::DotSlashBlob => format!("./{blob}"),
        IdShape::DotsBlob => format!("{}{blob}", "./".repeat(20)),
        IdShape::LongDotsBlob => format!("{}{blob}", "./".repeat(2500)),
        IdShape::Edge4095 => pad(4095),
        IdShape::Edge4096 => pad(4096),
        IdShape::BlobTmp => format!("{blob}.tmp"),
        IdShape::BlobNul => format!("{blob}\0"),
        IdShape::NulInside => "a\0b".into(),
        IdShape::BlobUpper => blob.to_uppercase(),
        IdShape::BlobSpace => format!("{blob} "),
        IdShape::Unknown => "deadbeef".into(),
        IdShape::UnknownHex64 => "fedcba9876543210fedcba9876543210fedcba9876543210fedcba9876543210".into(),
        IdShape::Long255 => "a".repeat(255),
        IdShape::Long256 => "a".repeat(256),
        IdShape::Long5000 => "a".repeat(5000),
        IdShape::DirName => "sub".into(),
        IdShape::DirSlash => "sub/".into(),
        IdShape::NestedFile => "sub/inner".into(),
        IdShape::NestedMissing => "sub/missing".into(),
        IdShape::SubDotDotBlob => format!("sub/../{blob}"),
        IdShape::MissingDotDotBlob => format!("nosuch/../{blob}"),
        IdShape::AB => "a/b".into(),
        IdShape::Backslash => "sub\\inner".into(),
        IdShape::ParentBlobsDir => "../blobs".into(),
        IdShape::ParentBlobsBlob => format!("../blobs/{blob}"),
        IdShape::ParentFile => "../outside.txt".into(),
        IdShape::ParentMissing => "../x".into(),
        IdShape::UpToLog => "../../../../data/events.jsonl".into(),
        IdShape::AbsBlob => format!("{blobs_abs}/{blob}"),
        IdShape::AbsBlobsDir => blobs_abs.into(),
        IdShape::AbsBlobsDirSlash => format!("{blobs_abs}/"),
        IdShape::AbsOutside => format!("{ws_abs}/outside.txt"),
        IdShape::AbsMissing => "/nonexistent-rv-c10/x".into(),
        IdShape::AbsRoot => "/".into(),
    }
}
/// states of the workspace artifact store the harness sets up itself (an earlier handoff / compaction checkpoint
/// populate it through ripd)
#[derive(Clone, Copy, Debug, PartialEq, Eq)]
enum StoreFx {
    EmptyBlobsDir, // .rip/artifacts/blobs exists and is empty
    Compiled,      // a context bundle as the context compiler stores it (rip.context_bundle.v1, 64-hex name)
    Furnish,       // blobs/sub/, blobs/sub/inner, <blob>.tmp, .rip/artifacts/outside.txt, <ws>/outside.txt
    BlobsIsFile,   // .rip/artifacts/blobs is a regular file (only when it does not exist yet)
}
/// the text of a summary given as markdown (only read when the summary class carries markdown)
#[derive(Clone, Copy, Debug, PartialEq, Eq)]
enum Md {
    Normal,
    Empty,        // ""
    Space,        // " "
    Newline,      // "\n"
    Ws,           // " \t\r\n "
    UnicodeBlank, // NBSP, EM SPACE, IDEOGRAPHIC SPACE, LINE SEPARATOR: White_Space, so str::trim removes them
    ZeroWidth,    // U+200B U+FEFF: looks blank, is not White_Space
    Long,         // ~300 KB of text
    LongBlank,    // ~70 KB of blanks and newlines
}
fn md_text(m: Md) -> String {
    match m {
        Md::Normal => MD.to_string(),
        Md::Empty => String::new(),
        Md::Space => " ".into(),
        Md::Newline => "\n".into(),
        Md::Ws => " \t\r\n ".into(),
        Md::UnicodeBlank => "\u{00a0}\u{2003}\u{3000}\u{2028}".into(),
        Md::ZeroWidth => "\u{200b}\u{feff}".into(),
        Md::Long => {
            let mut s = String::from("# long summary\n");
            for i in 0..6000 {
                s.push_str(&format!("- item {i}: carried context \u{00e9}\u{20ac} \"quoted\" \\ backslash\n"));
            }
            s
        }
        Md::LongBlank => " \n\t".repeat(24_000),
    }
}
fn md_blank(m: Md) -> bool {
    md_text(m).trim().is_empty()
}
#[derive(Clone, Copy, Debug, PartialEq, Eq)]
enum Kind {
    Branch,
    Handoff(Summary),
}
#[derive(Clone, Debug)]
enum Op {
    Msg { th: usize },
    RunSpawned { th: usize, m: MRef },
    RunEnded { th: usize, m: MRef },
    ToolFx { th: usize },
    Checkpoint { th: usize },
    Fault { th: usize, x: Fault },
    Restart,
    StoreFx(StoreFx),
    /// stale: roll the parent's sidecar back by k lines before the call (the cache is removed afterwards)
    /// bundle_fail: the artifact store is made unwritable for the duration of the call
    Call { kind: Kind, th: usize, sel: Sel, stale: Option<usize>, bundle_fail: bool, md: Md, http: bool },
}

#[derive(Default)]
struct Intern {
    map: HashMap<String, u64>,
}
impl Intern {
    fn get(&mut self, s: &str) -> u64 {
        let n = self.map.len() as u64;
        *self.map.entry(s.to_string()).or_insert(n)
    }
}

fn opt(o: Option<u64>) -> u64 {
    match o {
        None => 0,
        Some(x) => 1 + x,
    }
}

/// args of a frame as Model/Lineage.v reads them
fn frame_args(ev: &Event, it: &mut Intern) -> Vec<u64> {
    match &ev.kind {
        EventKind::ContinuityRunSpawned { message_id, .. } | EventKind::ContinuityRunEnded { message_id, .. } => vec![it.get(message_id)],
        EventKind::ContinuityBranched { parent_thread_id, parent_seq, parent_message_id, .. } => {
            vec![it.get(parent_thread_id), *parent_seq, opt(parent_message_id.as_ref().map(|m| it.get(m)))]
        }
        EventKind::ContinuityHandoffCreated { from_thread_id, from_seq, from_message_id, summary_artifact_id, summary_markdown, .. } => vec![
            it.get(from_thread_id),
            *from_seq,
            opt(from_message_id.as_ref().map(|m| it.get(m))),
            opt(summary_artifact_id.as_ref().map(|m| it.get(m))),
            summary_markdown.is_some() as u64,
        ],
        _ => vec![],
    }
}
struct MFrame {
    fid: u64,
    sid: u64,
    seq: u64,
    code: u64,
    args: Vec<u64>,
}
fn mframe(ev: &Event, it: &mut Intern) -> MFrame {
    let sid = it.get(ev.stream_id());
    let fid = it.get(&ev.id);
    let args = frame_args(ev, it);
    MFrame { fid, sid, seq: ev.seq, code: etype_code(&ev.kind), args }
}
fn coq_frame(f: &MFrame) -> String {
    format!("{{| fid := {}; sid := {}; seq := {}; ety := {}; args := {} |}}", f.fid, f.sid, f.seq, coq_etype(f.code), coq_list_n(&f.args))
}
fn enc_frame(out: &mut Vec<u64>, f: &MFrame) {
    out.extend([f.sid, f.seq, f.code, f.fid, f.args.len() as u64]);
    out.extend(&f.args);
}

fn blobs_dir(env: &Env) -> std::path::PathBuf {
    env.ws.join(".rip").join("artifacts").join("blobs")
}

/// name of a blob that exists in the store: the latest the harness knows of, else any regular file in blobs/ with a
/// plain name, else a 64-hex name nothing is stored under.  Creates nothing.
fn good_blob(env: &Env, known: &[String]) -> String {
    if let Some(x) = known.iter().rev().find(|x| blobs_dir(env).join(x).is_file()) {
        return x.clone();
    }
    let mut names: Vec<String> = std::fs::read_dir(blobs_dir(env)).map(|rd| rd.flatten().filter(|e| e.path().is_file()).filter_map(|e| e.file_name().into_string().ok()).filter(|n| !n.ends_with(".tmp")).collect()).unwrap_or_default();
    names.sort();
    names.pop().unwrap_or_else(|| HEX64_UNKNOWN.to_string())
}

/// listing of the real file system for Model/ArtGuard.v: the ancestors of the scratch root (directories), everything
/// below <root>/ws, the entries of <root>/data one level deep.  (absolute components, None = directory, Some(len) = file)
fn fs_listing(env: &Env) -> Vec<(Vec<Vec<u8>>, Option<u64>)> {
    use std::os::unix::ffi::OsStrExt;
    let comps = |p: &std::path::Path| -> Vec<Vec<u8>> { p.components().filter_map(|c| if let std::path::Component::Normal(n) = c { Some(n.as_bytes().to_vec()) } else { None }).collect() };
    let mut out = vec![];
    let mut anc: Vec<&std::path::Path> = env.root.ancestors().collect();
    anc.reverse();
    for a in anc {
        if a.parent().is_some() {
            out.push((comps(a), None));
        }
    }
    fn walk(dir: &std::path::Path, depth: usize, out: &mut Vec<(Vec<Vec<u8>>, Option<u64>)>, comps: &dyn Fn(&std::path::Path) -> Vec<Vec<u8>>) {
        let mut entries: Vec<std::path::PathBuf> = std::fs::read_dir(dir).map(|rd| rd.flatten().map(|e| e.path()).collect()).unwrap_or_default();
        entries.sort();
        for p in entries {
            match std::fs::symlink_metadata(&p) {
                Ok(m) if m.is_dir() => {
                    out.push((comps(&p), None));
                    if depth > 0 {
                        walk(&p, depth - 1, out, comps);
                    }
                }
                Ok(m) if m.is_file() => out.push((comps(&p), Some(m.len()))),
                _ => {}
            }
        }
    }
    out.push((comps(&env.data_dir), None));
    walk(&env.data_dir, 0, &mut out, &comps);
    out.push((comps(&env.ws), None));
    walk(&env.ws, 12, &mut out, &comps);
    out
}
fn coq_bytes(b: &[u8]) -> String {
    coq_list_n(&b.iter().map(|x| *x as u64).collect::<Vec<_>>())
}

fn err_code(e: &str) -> u64 {
    if let Some(st) = e.strip_prefix("http status ") {
        // a call made through POST /threads/{id}/branch|handoff: only the status is visible
        return st.trim().parse().unwrap_or(99);
    }
    if e.contains("requires only one of") {
        1
    } else if e.contains("continuity stream does not exist") {
        2
    } else if e.contains("from_seq out of range") {
        3
    } else if e.contains("from_message_id not found") {
        4
    } else if e.contains("requires summary_markdown") {
        5
    } else if e.contains("artifact dir create failed") || e.contains("artifact write failed") || e.contains("artifact finalize failed") || e.contains("handoff bundle") {
        6
    } else if e.contains("summary_artifact_id not found") {
        7
    } else {
        99
    }
}

#[derive(Default)]
struct Outcome {
    violations: Vec<(String, String)>,
    terms: Vec<(String, serde_json::Value)>, // coq case + replayable description
    art_terms: Vec<(String, serde_json::Value)>, // Model/ArtGuard.v cases (the guard over the file-system listing)
    oracle_checks: u64,
    calls: u64,
    ok_calls: u64,
    dist: Vec<String>,
    final_frames: usize,
}

/// which handoff the implementation is expected to follow (Model/Lineage.v handoff_gen chk bf):
/// CHECK_ART = a caller-given summary_artifact_id is tested for existence (fix in /repo);
/// BUNDLE_FIRST = the bundle is written before the child is created (fix in /repo).
const CHECK_ART: bool = true;
const BUNDLE_FIRST: bool = true;

const MD: &str = "# handoff summary\n- carried context";

/// thread index of an op: clamped to the threads that exist; >= 1000 = an id that names no thread
fn pick_thread(ids: &[String], th: usize) -> String {
    if th >= 1000 || ids.is_empty() {
        "00000000-0000-4000-8000-00000000dead".to_string()
    } else {
        ids[th.min(ids.len() - 1)].clone()
    }
}

fn cont_stream<'a>(hs: &'a [Hdr], id: &str) -> Vec<&'a Hdr> {
    hs.iter().filter(|h| h.kind == StreamKind::Continuity && h.sid == id).collect()
}

fn resolve_mref(stream: &[&Hdr], m: MRef) -> String {
    let msgs: Vec<&&Hdr> = stream.iter().filter(|h| h.code == 4).collect();
    match m {
        MRef::Known(k) if !msgs.is_empty() => msgs[(k as usize) % msgs.len()].id.clone(),
        MRef::Known(k) | MRef::Ghost(k) => format!("ghost-message-{}", k % 3),
        MRef::Empty => String::new(),
    }
}

/// the same call through the real router: POST /threads/{id}/branch | /threads/{id}/handoff on a fresh
/// application over the same data dir and workspace.  Ok = 201 with the response body (which must name
/// the requested parent), Err = "http status <code>".
#[allow(clippy::too_many_arguments)]
fn http_call(data_dir: &std::path::Path, ws: &std::path::Path, kind: Kind, parent: &str, from_mid: Option<String>, from_seq: Option<u64>, md: Option<String>, art: Option<String>) -> Result<(String, u64, Option<String>), String> {
    use http_body_util::BodyExt;
    use tower::ServiceExt;
    let rt = tokio::runtime::Builder::new_current_thread().enable_all().build().map_err(|e| e.to_string())?;
    let app = {
        let _g = rt.enter();
        ripd::verif::build_app(data_dir.to_path_buf(), ws.to_path_buf(), None)
    };
    let mut body = serde_json::Map::new();
    if let Some(m) = from_mid {
        body.insert("from_message_id".into(), json!(m));
    }
    if let Some(n) = from_seq {
        body.insert("from_seq".into(), json!(n));
    }
    body.insert("actor_id".into(), json!("user"));
    body.insert("origin".into(), json!("harness"));
    let (uri, parent_key, seq_key, mid_key) = match kind {
        Kind::Branch => {
            body.insert("title".into(), json!("child"));
            (format!("/threads/{parent}/branch"), "parent_thread_id", "parent_seq", "parent_message_id")
        }
        Kind::Handoff(_) => {
            if let Some(m) = md {
                body.insert("summary_markdown".into(), json!(m));
            }
            if let Some(a) = art {
                body.insert("summary_artifact_id".into(), json!(a));
            }
            (format!("/threads/{parent}/handoff"), "from_thread_id", "from_seq", "from_message_id")
        }
    };
    let req = axum::http::Request::builder().method("POST").uri(uri).header("content-type", "application/json").body(axum::body::Body::from(serde_json::Value::Object(body).to_string())).map_err(|e| e.to_string())?;
    let (st, v) = rt.block_on(async {
        let resp = app.clone().oneshot(req).await.expect("infallible");
        let st = resp.status().as_u16();
        let bytes = resp.into_body().collect().await.map(|b| b.to_bytes()).unwrap_or_default();
        (st, serde_json::from_slice::<serde_json::Value>(&bytes).unwrap_or(serde_json::Value::Null))
    });
    drop(app);
    drop(rt);
    if st != 201 {
        return Err(format!("http status {st}"));
    }
    let child = v["thread_id"].as_str().unwrap_or("").to_string();
    if v[parent_key].as_str() != Some(parent) {
        return Err(format!("http response names parent {:?}, requested {parent}", v[parent_key]));
    }
    Ok((child, v[seq_key].as_u64().unwrap_or(u64::MAX), v[mid_key].as_str().map(|s| s.to_string())))
}

/// check_art: whether the implementation is expected to test a caller-given artifact id (after the repair)
fn run_case(ops: &[Op], check_art: bool) -> Outcome {
    let scratch = Scratch::new("c10");
    let mut env = Env::open(scratch.path());
    let mut out = Outcome::default();
    let _ = env.store.ensure_default();
    let (a, o) = ("user".to_string(), "harness".to_string());
    let mut known_artifacts: Vec<String> = vec![];
    for op in ops {
        let before = env.log_bytes();
        let hs = parse_log(&before).unwrap_or_default();
        let ids = created_ids(&hs);
        let tid = |th: usize| -> String { pick_thread(&ids, th) };
        match op {
            Op::Msg { th } => {
                let _ = env.store.append_message(&tid(*th), a.clone(), o.clone(), format!("message {}", hs.len()));
            }
            Op::RunSpawned { th, m } => {
                let id = tid(*th);
                let mid = resolve_mref(&cont_stream(&hs, &id), *m);
                let _ = env.store.append_run_spawned(&id, &mid, "run-1", a.clone(), o.clone());
            }
            Op::RunEnded { th, m } => {
                let id = tid(*th);
                let mid = resolve_mref(&cont_stream(&hs, &id), *m);
                let _ = env.store.append_run_ended(&id, &mid, "run-1", "completed".into(), a.clone(), o.clone());
            }
            Op::ToolFx { th } => {
                let id = tid(*th);
                let _ = env.store.append_tool_side_effects(
                    &ContinuityRunLink { continuity_id: id, message_id: "m".into(), actor_id: a.clone(), origin: o.clone() },
                    "run-1",
                    ToolSideEffects { tool_id: "t1".into(), tool_name: "write".into(), affected_paths: Some(vec!["a.txt".into()]), checkpoint_id: None },
                );
            }
            Op::Checkpoint { th } => {
                let _ = env.store.compaction_checkpoint_cumulative_v1(
                    &tid(*th),
                    CompactionCheckpointCumulativeV1Request { summary_markdown: Some("# cp".into()), summary_artifact_id: None, to_message_id: None, to_seq: None, stride_messages: None, actor_id: a.clone(), origin: o.clone() },
                );
            }
            Op::Fault { th, x } => {
                apply_fault(&env, &tid(*th), *x);
            }
            Op::Restart => env.restart(),
            Op::StoreFx(x) => {
                let blobs = blobs_dir(&env);
                match x {
                    StoreFx::EmptyBlobsDir => {
                        std::fs::create_dir_all(&blobs).ok();
                    }
                    StoreFx::Compiled => {
                        std::fs::create_dir_all(&blobs).ok();
                        let id = format!("c0{:062x}", hs.len());
                        std::fs::write(blobs.join(&id), b"{\"schema\":\"rip.context_bundle.v1\",\"items\":[]}").ok();
                        known_artifacts.push(id);
                    }
                    StoreFx::Furnish => {
                        std::fs::create_dir_all(blobs.join("sub")).ok();
                        std::fs::write(blobs.join("sub").join("inner"), b"inner file").ok();
                        let b = good_blob(&env, &known_artifacts);
                        std::fs::write(blobs.join(format!("{b}.tmp")), b"{\"half\":").ok();
                        std::fs::write(env.ws.join(".rip").join("artifacts").join("outside.txt"), b"not a blob").ok();
                        std::fs::write(env.ws.join("outside.txt"), b"a workspace file").ok();
                    }
                    StoreFx::BlobsIsFile => {
                        if !blobs.exists() {
                            std::fs::create_dir_all(env.ws.join(".rip").join("artifacts")).ok();
                            std::fs::write(&blobs, b"not a directory").ok();
                        }
                    }
                }
            }
            Op::Call { kind, th, sel, stale, bundle_fail, md, http } => {
                do_call(&mut env, &hs, &before, *kind, *th, *sel, *stale, *bundle_fail, *md, *http, check_art, &mut known_artifacts, &mut out, ops);
            }
        }
    }
    out.final_frames = parse_log(&env.log_bytes()).map(|h| h.len()).unwrap_or(0);
    out
}

#[allow(clippy::too_many_arguments)]
fn do_call(env: &mut Env, hs: &[Hdr], before: &[u8], kind: Kind, th: usize, sel: Sel, stale: Option<usize>, bundle_fail: bool, mdv: Md, http: bool, check_art: bool, known_artifacts: &mut Vec<String>, out: &mut Outcome, ops: &[Op]) {
    let ids = created_ids(hs);
    let parent = pick_thread(&ids, th);
    let truth = cont_stream(hs, &parent);
    let msgs: Vec<&&Hdr> = truth.iter().filter(|h| h.code == 4).collect();
    let head = truth.last().map(|h| h.seq).unwrap_or(0);
    macro_rules! viol {
        ($w:expr, $c:expr $(,)?) => {
            out.violations.push(($w, $c.to_string()))
        };
    }

    // ---- concrete selector
    let (from_mid, from_seq): (Option<String>, Option<u64>) = match sel {
        Sel::None => (None, None),
        Sel::Seq(s) => (
            None,
            Some(match s {
                SeqSel::Zero => 0,
                SeqSel::Mid(k) => k % (head + 1),
                SeqSel::Head => head,
                SeqSel::HeadPlus(k) => head + 1 + k,
                SeqSel::Max => u64::MAX,
            }),
        ),
        Sel::Msg(m) => (
            Some(match m {
                MsgSel::First => msgs.first().map(|h| h.id.clone()).unwrap_or_else(|| "no-message".into()),
                MsgSel::Last => msgs.last().map(|h| h.id.clone()).unwrap_or_else(|| "no-message".into()),
                MsgSel::Pick(k) if !msgs.is_empty() => msgs[(k as usize) % msgs.len()].id.clone(),
                MsgSel::Pick(_) | MsgSel::Unknown => "no-such-message".into(),
                MsgSel::Ghost(k) => format!("ghost-message-{}", k % 3),
                MsgSel::CreatedFrame => truth.first().map(|h| h.id.clone()).unwrap_or_else(|| "x".into()),
                MsgSel::RunFrame => truth.iter().find(|h| h.code == 5 || h.code == 13).map(|h| h.id.clone()).unwrap_or_else(|| "no-run-frame".into()),
                MsgSel::OtherThread => hs.iter().find(|h| h.code == 4 && h.sid != parent).map(|h| h.id.clone()).unwrap_or_else(|| "no-other".into()),
                MsgSel::Empty => String::new(),
            }),
            None,
        ),
        Sel::Both => (Some(msgs.first().map(|h| h.id.clone()).unwrap_or_else(|| "x".into())), Some(0)),
    };
    // ---- concrete summary
    let (md, art): (Option<String>, Option<String>) = match kind {
        Kind::Branch => (None, None),
        Kind::Handoff(s) => {
            let existing = || -> String {
                // an artifact that exists: a bundle written earlier, else one the harness stores itself
                if let Some(x) = known_artifacts.last() {
                    return x.clone();
                }
                let id = "c10harnessartifact0000000000000000000000000000000000000000000001".to_string();
                std::fs::create_dir_all(blobs_dir(env)).ok();
                std::fs::write(blobs_dir(env).join(&id), b"{\"schema\":\"rip.handoff_context_bundle.v1\",\"summary_markdown\":\"x\",\"refs\":{\"threads\":[],\"artifacts\":[],\"files\":[]}}").ok();
                id
            };
            match s {
                Summary::Markdown => (Some(md_text(mdv)), None),
                Summary::ArtifactExisting => (None, Some(existing())),
                Summary::ArtifactUnknown => (None, Some("artifact-that-does-not-exist".into())),
                Summary::BothExisting => (Some(md_text(mdv)), Some(existing())),
                Summary::BothUnknown => (Some(md_text(mdv)), Some("artifact-that-does-not-exist".into())),
                Summary::Neither => (None, None),
                Summary::ArtShape(sh) | Summary::BothShape(sh) => {
                    let blob = good_blob(env, known_artifacts);
                    let id = id_text(sh, &blob, &blobs_dir(env).to_string_lossy(), &env.ws.to_string_lossy());
                    (if matches!(s, Summary::BothShape(_)) { Some(md_text(mdv)) } else { None }, Some(id))
                }
            }
        }
    };
    let shaped = matches!(kind, Kind::Handoff(Summary::ArtShape(_) | Summary::BothShape(_)));
    // the unwritable store is only meaningful when ripd has to write the bundle itself
    let inject_fail = bundle_fail && art.is_none() && md.is_some();
    // .rip/artifacts/blobs is a regular file (StoreFx::BlobsIsFile): ripd cannot write a bundle either
    let store_broken = blobs_dir(env).exists() && !blobs_dir(env).is_dir();
    let bundle_fail = inject_fail || (store_broken && art.is_none() && md.is_some());
    // what the store is expected to accept (since the repair of S30): ONE plain name that is a regular file in blobs/
    let plain_name = |x: &str| !x.is_empty() && !x.contains('/') && x != "." && x != "..";
    let art_exists = art.as_ref().map(|x| plain_name(x) && blobs_dir(env).join(x).is_file()).unwrap_or(false);

    // ---- environment faults
    if let Some(k) = stale {
        apply_fault(env, &parent, Fault::Rollback(k));
    }
    let view: Vec<Event> = env.store.replay_events(&parent).unwrap_or_default();
    let after_view = env.log_bytes();
    if after_view != before {
        viol!("replay_events changed events.jsonl".into(), "replay_wrote");
    }
    let arts_root = env.ws.join(".rip").join("artifacts");
    let parked = env.ws.join(".rip").join("artifacts.parked");
    if inject_fail {
        std::fs::create_dir_all(env.ws.join(".rip")).ok();
        if arts_root.exists() {
            std::fs::rename(&arts_root, &parked).ok();
        }
        std::fs::write(&arts_root, b"not a directory").ok();
    }

    // ---- a caller-supplied id: what std says about <blobs>.join(id) and the listing of the file system, BEFORE the call
    let blobs_abs = blobs_dir(env);
    let blob_count_before = std::fs::read_dir(&blobs_abs).map(|rd| rd.count()).unwrap_or(0);
    let art_probe = art.as_ref().filter(|_| shaped).map(|id| {
        let joined = blobs_abs.join(id);
        let meta = std::fs::metadata(&joined);
        let is_file = joined.is_file();
        let exists = joined.exists();
        let is_dir = joined.is_dir();
        let read = std::fs::read(&joined).ok().map(|b| b.len() as u64);
        // (realpath(3) resolves strings longer than PATH_MAX component by component: only asked when stat succeeds)
        let under = if exists { std::fs::canonicalize(&joined).ok().map(|c| c.starts_with(&blobs_abs)) } else { None };
        let _ = meta;
        (fs_listing(env), is_file, exists, is_dir, read, under)
    });

    // ---- the call
    let store = env.store.clone();
    let (p2, fm2, md2, art2) = (parent.clone(), from_mid.clone(), md.clone(), art.clone());
    let (data_dir, ws_dir) = (env.data_dir.clone(), env.ws.clone());
    let res = std::panic::catch_unwind(std::panic::AssertUnwindSafe(move || {
        if http {
            return http_call(&data_dir, &ws_dir, kind, &p2, fm2, from_seq, md2, art2);
        }
        match kind {
            Kind::Branch => store.branch(&p2, Some("child".into()), fm2, from_seq, "user".into(), "harness".into()),
            Kind::Handoff(_) => store.handoff(&p2, None, (md2, art2), fm2, from_seq, ("user".into(), "harness".into())),
        }
    }));
    if http {
        // the router ran on its own store instance over the same files: the harness's instance re-reads them
        env.restart();
        out.dist.push("via_http_router".into());
    }
    if inject_fail {
        let _ = std::fs::remove_file(&arts_root);
        if parked.exists() {
            std::fs::rename(&parked, &arts_root).ok();
        }
    }
    if stale.is_some() {
        apply_fault(env, &parent, Fault::Delete);
    }
    out.calls += 1;
    let res = match res {
        Ok(r) => r,
        Err(_) => {
            viol!(format!("{kind:?} panicked"), "panic");
            return;
        }
    };

    // ---- what was appended
    let after = env.log_bytes();
    out.oracle_checks += 1;
    if after.len() < before.len() || after[..before.len()] != before[..] {
        viol!(format!("{kind:?}: previous log content is no longer a prefix"), "log_prefix_changed");
        return;
    }
    let added = match parse_log(&after[before.len()..]) {
        Ok(x) => x,
        Err(e) => {
            viol!(format!("{kind:?}: appended bytes are not whole frames: {e}"), "partial_frame_appended");
            return;
        }
    };

    // =================== independent oracle (no model) ===================
    let is_handoff = matches!(kind, Kind::Handoff(_));
    for f in &added {
        if ids.contains(&f.sid) {
            let class = if f.sid == parent { "frame_added_to_parent" } else { "frame_added_to_existing_thread" };
            viol!(format!("{kind:?} appended a {} frame (seq {}) to the already existing thread {}", ETYPES[f.code as usize], f.seq, &f.sid[..8.min(f.sid.len())]), class);
        }
    }
    let mut bundle_obs: Option<(String, String, u64, Option<String>)> = None; // (artifact, thread, seq, mid)
    match &res {
        Err(e) => {
            if !added.is_empty() {
                let class = if bundle_fail && (err_code(e) == 6 || err_code(e) == 500) { "failed_handoff_left_orphan_thread" } else { "failing_call_wrote_frames" };
                viol!(format!("{kind:?} failed ({e}) but appended {} frame(s)", added.len()), class);
            }
            // a selector that lies within the source thread as it is, with an acceptable summary, must be served
            let sel_ok = match sel {
                Sel::None => true,
                Sel::Seq(_) => from_seq.map(|n| n <= head).unwrap_or(false),
                Sel::Msg(_) => from_mid.as_ref().map(|m| msgs.iter().any(|h| h.id == *m)).unwrap_or(false),
                Sel::Both => false,
            };
            let summary_ok = match kind {
                Kind::Branch => true,
                // (a blank text is "summary given as text"; code that REFUSES it keeps the property, so no demand there)
                Kind::Handoff(s) => (matches!(s, Summary::Markdown) || (matches!(s, Summary::ArtifactExisting | Summary::BothExisting | Summary::ArtShape(IdShape::Blob) | Summary::BothShape(IdShape::Blob)) && art_exists)) && !bundle_fail && (md.is_none() || mdv == Md::Normal || mdv == Md::Long),
            };
            // a refused caller-supplied id leaves nothing behind: no frame (above) and no new blob
            if shaped && (err_code(e) == 7 || err_code(e) == 404) {
                let n = std::fs::read_dir(&blobs_abs).map(|rd| rd.count()).unwrap_or(0);
                if n != blob_count_before {
                    viol!(format!("handoff refused the summary_artifact_id {:?} ({e}) but the artifact store changed ({blob_count_before} -> {n} entries)", art), "refused_handoff_wrote_artifact");
                }
            }
            if stale.is_none() && !truth.is_empty() && sel_ok && summary_ok {
                viol!(format!("{kind:?} rejected a request that lies within the source thread (head {head}, from_seq {from_seq:?}, from_message_id {from_mid:?}): {e}"), "valid_request_rejected");
            }
        }
        Ok((child, cut, mid)) => {
            out.ok_calls += 1;
            let lineage_code = if is_handoff { 16 } else { 15 };
            let shape_ok = added.len() == 2
                && added[0].code == 3 && added[0].seq == 0 && added[0].sid == *child
                && added[1].code == lineage_code && added[1].seq == 1 && added[1].sid == *child
                && !ids.contains(child);
            if !shape_ok {
                viol!(
                    format!("{kind:?}: the new thread does not begin [continuity_created seq 0; lineage seq 1]: appended {:?}", added.iter().map(|h| (ETYPES[h.code as usize], h.seq, h.sid == *child)).collect::<Vec<_>>()),
                    "child_prefix_wrong",
                );
            } else {
                // recorded lineage
                let (rp, rcut, rmid, rart, rmd) = match &added[1].ev.kind {
                    EventKind::ContinuityBranched { parent_thread_id, parent_seq, parent_message_id, .. } => (parent_thread_id.clone(), *parent_seq, parent_message_id.clone(), None, None),
                    EventKind::ContinuityHandoffCreated { from_thread_id, from_seq, from_message_id, summary_artifact_id, summary_markdown, .. } => (from_thread_id.clone(), *from_seq, from_message_id.clone(), summary_artifact_id.clone(), summary_markdown.clone()),
                    _ => unreachable!(),
                };
                if rp != parent {
                    viol!(format!("{kind:?}: lineage frame names parent {rp}, requested {parent}"), "lineage_names_other_parent");
                }
                if rcut != *cut || rmid != *mid {
                    viol!(format!("{kind:?}: response ({cut}, {mid:?}) differs from the recorded lineage ({rcut}, {rmid:?})"), "response_differs_from_record");
                }
                if truth.is_empty() {
                    viol!(format!("{kind:?} of a thread that has no frame succeeded"), "lineage_to_nonexistent_parent");
                }
                if rcut > head {
                    viol!(format!("{kind:?}: recorded cut {rcut} lies beyond the parent's head {head}"), "cut_beyond_head");
                }
                // message id: a message of the parent at or before the cut
                let msg_frame = rmid.as_ref().and_then(|m| msgs.iter().find(|h| h.id == *m));
                match (&rmid, msg_frame) {
                    (Some(m), None) => viol!(format!("{kind:?}: recorded message id {m} is not a message of the parent"), "cut_message_not_in_parent"),
                    (Some(m), Some(h)) if h.seq > rcut => viol!(format!("{kind:?}: recorded message {m} (seq {}) lies after the cut {rcut}", h.seq), "cut_message_after_cut"),
                    _ => {}
                }
                match sel {
                    Sel::None | Sel::Seq(_) => {
                        let want = msgs.iter().filter(|h| h.seq <= rcut).max_by_key(|h| h.seq).map(|h| h.id.clone());
                        if want != rmid {
                            viol!(format!("{kind:?}: recorded message {rmid:?} is not the last message at or before the cut {rcut} (that is {want:?})"), "cut_not_last_message");
                        }
                        if let (Sel::Seq(_), Some(n)) = (sel, from_seq) {
                            if rcut != n {
                                viol!(format!("{kind:?}: from_seq {n} requested, cut {rcut} recorded"), "cut_differs_from_requested_seq");
                            }
                        }
                        if sel == Sel::None && stale.is_none() && rcut != head {
                            viol!(format!("{kind:?}: no selector given, cut {rcut} recorded, head is {head}"), "default_cut_not_head");
                        }
                    }
                    Sel::Msg(_) => {
                        let want_m = from_mid.clone();
                        if rmid != want_m {
                            viol!(format!("{kind:?}: message {want_m:?} requested, {rmid:?} recorded"), "cut_message_differs_from_requested");
                        } else if let (Some(h), None) = (msg_frame, stale) {
                            let m = want_m.unwrap();
                            let related = truth.iter().filter(|f| match &f.ev.kind {
                                EventKind::ContinuityRunSpawned { message_id, .. } | EventKind::ContinuityRunEnded { message_id, .. } => *message_id == m,
                                _ => false,
                            });
                            let want = related.map(|f| f.seq).max().unwrap_or(0).max(h.seq);
                            if rcut != want {
                                viol!(format!("{kind:?}: from_message_id cut {rcut}, the message and the frames of its runs end at {want}"), "message_cut_not_max_related");
                            }
                        }
                    }
                    Sel::Both => viol!(format!("{kind:?} with both selectors succeeded"), "both_selectors_accepted"),
                }
                if is_handoff {
                    match (&rart, &md, &art) {
                        (None, _, _) => viol!("handoff frame carries no summary_artifact_id".into(), "handoff_without_summary_artifact"),
                        (Some(ra), _, Some(given)) => {
                            if ra != given {
                                viol!(format!("handoff recorded artifact {ra}, caller gave {given}"), "handoff_artifact_differs");
                            }
                            if !blobs_dir(env).join(ra).exists() && rmd.is_none() {
                                viol!(format!("handoff recorded summary_artifact_id {ra:?} that names no stored artifact and carries no markdown: the summary cannot be resolved"), "handoff_summary_unresolvable");
                            }
                        }
                        (Some(ra), Some(given_md), None) => {
                            // written by ripd: must be readable and name the recorded cut
                            match std::fs::read(blobs_dir(env).join(ra)).ok().and_then(|b| serde_json::from_slice::<serde_json::Value>(&b).ok()) {
                                None => viol!(format!("handoff bundle {ra} is not readable JSON in the workspace artifact store"), "handoff_bundle_unreadable"),
                                Some(v) => {
                                    let t0 = &v["refs"]["threads"][0];
                                    let bmid = t0["message_id"].as_str().map(|s| s.to_string());
                                    let ok = v["schema"] == "rip.handoff_context_bundle.v1"
                                        && v["summary_markdown"].as_str() == Some(given_md.as_str())
                                        && t0["thread_id"].as_str() == Some(parent.as_str())
                                        && t0["seq"].as_u64() == Some(rcut)
                                        && bmid == rmid;
                                    if !ok {
                                        viol!(format!("handoff bundle {ra} does not carry the given markdown and the recorded source cut ({rcut}, {rmid:?}): {v}"), "handoff_bundle_differs_from_record");
                                    }
                                    bundle_obs = Some((ra.clone(), t0["thread_id"].as_str().unwrap_or("").to_string(), t0["seq"].as_u64().unwrap_or(u64::MAX), bmid));
                                    known_artifacts.push(ra.clone());
                                }
                            }
                            if rmd.as_deref() != Some(given_md.as_str()) {
                                viol!("handoff frame does not keep the given markdown".into(), "handoff_markdown_dropped");
                            }
                        }
                        (Some(_), None, None) => viol!("handoff without any summary succeeded".into(), "handoff_without_summary_accepted"),
                    }
                    // "a handoff always carries a resolvable summary": whatever the summary text was (blank,
                    // invisible, long), the recorded artifact id is read back from the workspace store
                    if let Some(ra) = &rart {
                        out.dist.push("handoff_summary_read_back".into());
                        let joined = blobs_dir(env).join(ra);
                        let show: String = ra.chars().take(80).collect();
                        match (std::fs::metadata(&joined), std::fs::read(&joined)) {
                            // nothing there at all
                            (Err(_), _) if check_art || art.is_none() => viol!(format!("handoff recorded summary_artifact_id {show:?}: no such blob in the workspace artifact store"), "handoff_summary_unresolvable"),
                            (Err(_), _) => {}
                            // something is there, but no summary can be read from it (a directory: "", ".", "..", a sub-directory name)
                            (Ok(m), _) if !m.is_file() => viol!(
                                format!("handoff accepted and recorded summary_artifact_id {show:?}, which resolves to {} ({}): no summary can be read from it{}", if m.is_dir() { "a DIRECTORY" } else { "something that is not a regular file" }, joined.display().to_string().chars().take(160).collect::<String>(), if rmd.is_none() { " and the frame carries no text either" } else { "" }),
                                "handoff_summary_not_resolvable"
                            ),
                            (Ok(_), Err(e)) => viol!(format!("handoff recorded summary_artifact_id {show:?}: the file cannot be read back: {e}"), "handoff_summary_not_resolvable"),
                            (Ok(_), Ok(b)) if b.is_empty() => viol!(format!("handoff recorded summary_artifact_id {show:?}: the blob is empty"), "handoff_summary_blob_empty"),
                            (Ok(_), Ok(_)) => {
                                // ... and it is a blob OF THE STORE: the file lies under .rip/artifacts/blobs
                                let inside = std::fs::canonicalize(&joined).map(|c| c.starts_with(blobs_dir(env))).unwrap_or(false);
                                if !inside {
                                    viol!(
                                        format!("handoff accepted and recorded summary_artifact_id {show:?}, which resolves to the regular file {} OUTSIDE the workspace artifact store: the id names no artifact", std::fs::canonicalize(&joined).map(|c| c.display().to_string()).unwrap_or_default()),
                                        "handoff_summary_outside_artifact_store"
                                    );
                                }
                            }
                        }
                    }
                    if rmd != md {
                        viol!(format!("handoff frame records summary_markdown {:?}, the caller gave {:?}", rmd.as_ref().map(|s| s.chars().take(40).collect::<String>()), md.as_ref().map(|s| s.chars().take(40).collect::<String>())), "handoff_markdown_dropped");
                    }
                }
            }
        }
    }
    // every stream other than the child's has the same number of frames (implied by the prefix test; counted anyway)
    if let Ok(all_after) = parse_log(&after) {
        for id in &ids {
            if cont_stream(hs, id).len() != cont_stream(&all_after, id).len() {
                viol!(format!("{kind:?}: thread {} changed length", &id[..8]), "frame_added_to_existing_thread");
            }
        }
    }

    // =================== encode for the model ===================
    let mut it = Intern::default();
    let log_frames: Vec<MFrame> = hs.iter().map(|h| mframe(&h.ev, &mut it)).collect();
    let view_frames: Vec<MFrame> = view.iter().map(|e| mframe(e, &mut it)).collect();
    let parent_n = it.get(&parent);
    let sel_coq = match (&from_mid, from_seq) {
        (None, None) => "SelNone".to_string(),
        (None, Some(n)) => format!("(SelSeq {n})"),
        (Some(m), None) => format!("(SelMsg {})", it.get(m)),
        (Some(m), Some(n)) => format!("(SelBoth {} {n})", it.get(m)),
    };
    let art_n = art.as_ref().map(|x| it.get(x));
    let arts_coq = match (art_n, art_exists) {
        (Some(n), true) => format!("[({n}, [])]"),
        _ => "[]".to_string(),
    };
    let op_coq = match kind {
        Kind::Branch => "OpBranch".to_string(),
        Kind::Handoff(_) => format!("(OpHandoff {} {} {})", coq_bool(md.is_some()), coq_opt(&art_n, |n| n.to_string()), coq_bool(!bundle_fail)),
    };
    let added_frames: Vec<MFrame> = added.iter().map(|h| mframe(&h.ev, &mut it)).collect();
    let unused = 1_000_000u64;
    let f_child = added_frames.first().map(|f| f.sid).unwrap_or(unused);
    let f_e0 = added_frames.first().map(|f| f.fid).unwrap_or(unused + 1);
    let f_e1 = added_frames.get(1).map(|f| f.fid).unwrap_or(unused + 2);
    let f_art = match (&bundle_obs, added_frames.get(1)) {
        (Some((ra, ..)), _) => it.get(ra),
        (None, Some(f)) if f.code == 16 && art.is_none() && f.args.len() == 5 && f.args[3] > 0 => f.args[3] - 1,
        _ => unused + 3,
    };
    let mut exp: Vec<u64> = vec![];
    match &res {
        // through the router only the status is visible (Model/Lineage.v http_status)
        Err(e) => exp.extend([0, err_code(e)]),
        Ok((child, cut, mid)) => exp.extend([1, it.get(child), *cut, opt(mid.as_ref().map(|m| it.get(m)))]),
    }
    exp.push(added_frames.len() as u64);
    for f in &added_frames {
        enc_frame(&mut exp, f);
    }
    match &bundle_obs {
        None => exp.push(0),
        Some((ra, bt, bs, bm)) => {
            exp.push(1);
            exp.extend([it.get(ra), 3, it.get(bt), *bs, opt(bm.as_ref().map(|m| it.get(m)))]);
        }
    }
    exp.push(if stale.is_some() { 2 } else { 1 });
    let term = format!(
        "{{| c_log := {}; c_view := {}; c_view_truth := {}; c_arts := {}; c_check_art := {}; c_bundle_first := {}; c_parent := {}; c_sel := {}; c_op := {}; c_fresh := {{| f_child := {}; f_e0 := {}; f_e1 := {}; f_art := {} |}}; c_expect := {} |}}",
        coq_list(&log_frames, coq_frame),
        coq_list(&view_frames, coq_frame),
        coq_bool(stale.is_none()),
        arts_coq,
        coq_bool(check_art),
        coq_bool(BUNDLE_FIRST),
        parent_n,
        sel_coq,
        op_coq,
        f_child,
        f_e0,
        f_e1,
        f_art,
        coq_list_n(&exp)
    );
    let _ = ops;
    if let (Some((listing, is_file, exists, is_dir, read, under)), Some(id)) = (&art_probe, &art) {
        // did the call pass the artifact test?  (error order: summary, artifact, selectors, parent, cut).  Through the
        // router 404 also stands for an unknown thread / message: those calls are not compared.
        let passed = match &res {
            Ok(_) => Some(true),
            Err(e) => match err_code(e) {
                7 => Some(false),
                404 => if !truth.is_empty() && !matches!(sel, Sel::Msg(_)) { Some(false) } else { None },
                5 | 99 => None,
                _ => Some(true),
            },
        };
        if let Some(passed) = passed {
            use std::os::unix::ffi::OsStrExt;
            let exp = [passed as u64, *is_file as u64, *exists as u64, *is_dir as u64, read.map(|n| 1 + n).unwrap_or(0), under.map(|u| 1 + u as u64).unwrap_or(0)];
            let fs_coq = coq_list(listing, |(p, n)| format!("({}, {})", coq_list(p, |c| coq_bytes(c)), match n { None => "Dir".to_string(), Some(len) => format!("(File [{len}])") }));
            let term = format!("{{| a_fs := {}; a_base := {}; a_id := {}; a_guard := 4; a_expect := {} |}}", fs_coq, coq_bytes(blobs_abs.as_os_str().as_bytes()), coq_bytes(id.as_bytes()), coq_list_n(&exp));
            let shown: String = id.chars().take(120).collect();
            out.art_terms.push((term, json!({"summary_artifact_id": shown, "id_len": id.len(), "call": format!("{kind:?} http={http}"), "observed [passed, is_file, exists, is_dir, read, under]": exp.to_vec(), "result": match &res { Ok(_) => "ok".to_string(), Err(e) => e.clone() }})));
        }
    }
    let desc = json!({
        "call": format!("{kind:?} th={th} sel={sel:?} stale={stale:?} bundle_fail={bundle_fail} md={mdv:?} http={http}"),
        "parent_frames": truth.iter().map(|h| format!("{}:{}", h.seq, ETYPES[h.code as usize])).collect::<Vec<_>>(),
        "from_message_id": from_mid, "from_seq": from_seq,
        "result": match &res { Ok((_, c, m)) => json!({"cut": c, "message_id": m}), Err(e) => json!({"err": e}) },
    });
    let mut desc = desc;
    desc["http"] = json!(http);
    out.terms.push((term, desc));
    out.dist.push(format!("kind={}", if is_handoff { "handoff" } else { "branch" }));
    out.dist.push(format!(
        "sel={}",
        match sel {
            Sel::None => "none".to_string(),
            Sel::Seq(s) => format!("seq_{}", format!("{s:?}").split('(').next().unwrap().to_lowercase()),
            Sel::Msg(m) => format!("msg_{}", format!("{m:?}").split('(').next().unwrap().to_lowercase()),
            Sel::Both => "both".to_string(),
        }
    ));
    if let Kind::Handoff(s) = kind {
        match s {
            Summary::ArtShape(sh) | Summary::BothShape(sh) => {
                out.dist.push(format!("summary={}", if matches!(s, Summary::ArtShape(_)) { "ArtShape" } else { "BothShape" }));
                out.dist.push(format!("artifact_id_shape={sh:?}"));
                out.dist.push(format!("artifact_id_{}", if res.is_ok() { "accepted" } else { "refused" }));
                out.dist.push(format!("artifact_store={}", if blobs_abs.is_dir() { if blobs_abs.join("sub").is_dir() { "populated_with_subdir" } else if blob_count_before == 0 { "empty_blobs_dir" } else { "populated" } } else if blobs_abs.exists() { "blobs_is_a_file" } else { "fresh" }));
            }
            _ => out.dist.push(format!("summary={s:?}")),
        }
        if false {
        out.dist.push(format!("summary={s:?}"));
        }
        if md.is_some() {
            out.dist.push(format!("summary_text={mdv:?}"));
            if md_blank(mdv) && res.is_ok() {
                out.dist.push("blank_summary_text_accepted".into());
            }
        }
    }
    out.dist.push(format!("result={}", match &res { Ok(_) => "ok".to_string(), Err(e) => format!("err{}", err_code(e)) }));
    if stale.is_some() {
        out.dist.push("stale_sidecar_view".into());
    }
    if bundle_fail {
        out.dist.push("artifact_store_unwritable".into());
    }
    if view.len() != truth.len() {
        out.dist.push("view_shorter_than_truth".into());
    }
    out.dist.push(format!("parent_frames={}", match truth.len() { 0 => "0", 1..=2 => "1-2", 3..=8 => "3-8", 9..=20 => "9-20", _ => "21+" }));
    if ids.len() > 1 && th < 1000 && th > 0 {
        out.dist.push("parent_is_itself_a_child".into());
    }
}

fn gen_sel(r: &mut Rng) -> Sel {
    match r.below(20) {
        0..=2 => Sel::None,
        3 => Sel::Seq(SeqSel::Zero),
        4 | 5 => Sel::Seq(SeqSel::Mid(r.below(1000))),
        6 => Sel::Seq(SeqSel::Head),
        7 => Sel::Seq(SeqSel::HeadPlus(r.below(3))),
        8 => Sel::Seq(SeqSel::Max),
        9 => Sel::Msg(MsgSel::First),
        10 => Sel::Msg(MsgSel::Last),
        11..=13 => Sel::Msg(MsgSel::Pick(r.below(1000))),
        14 => Sel::Msg(*r.pick(&[MsgSel::Unknown, MsgSel::Empty, MsgSel::OtherThread])),
        15 => Sel::Msg(MsgSel::Ghost(r.below(3))),
        16 => Sel::Msg(MsgSel::CreatedFrame),
        17 => Sel::Msg(MsgSel::RunFrame),
        _ => Sel::Both,
    }
}
fn gen_call(r: &mut Rng, threads: usize, focus: usize) -> Op {
    let kind = if r.chance(1, 2) {
        Kind::Branch
    } else {
        // one handoff in four carries a caller-supplied artifact id of some SHAPE (half of them next to a text)
        if r.chance(1, 4) {
            let sh = *r.pick(&SHAPES_ALL);
            Kind::Handoff(if r.chance(1, 2) { Summary::ArtShape(sh) } else { Summary::BothShape(sh) })
        } else {
            Kind::Handoff(*r.pick(&[Summary::Markdown, Summary::Markdown, Summary::Markdown, Summary::ArtifactExisting, Summary::ArtifactUnknown, Summary::BothExisting, Summary::BothUnknown, Summary::Neither]))
        }
    };
    let th = if r.chance(1, 25) { 1000 } else if r.chance(1, 2) { focus } else { r.below(threads as u64) as usize };
    let stale = if r.chance(1, 10) { Some(r.range(1, 3) as usize) } else { None };
    let bundle_fail = kind == Kind::Handoff(Summary::Markdown) && r.chance(1, 5);
    // the text of the summary: one handoff in three carries an unusual one (blank in several ways, invisible, long)
    let md = if matches!(kind, Kind::Handoff(_)) && r.chance(1, 3) {
        *r.pick(&[Md::Empty, Md::Empty, Md::Space, Md::Newline, Md::Ws, Md::UnicodeBlank, Md::ZeroWidth, Md::Long, Md::LongBlank])
    } else {
        Md::Normal
    };
    // one call in six goes through the HTTP router (POST /threads/{id}/branch|handoff)
    let http = r.chance(1, 6);
    Op::Call { kind, th, sel: gen_sel(r), stale, bundle_fail, md, http }
}
fn gen_case(r: &mut Rng, long: bool) -> Vec<Op> {
    let n = if long { r.range(25, 45) } else { r.range(4, 18) };
    let mut ops = vec![];
    let threads = 6usize;
    let focus = r.below(6) as usize;
    for _ in 0..n {
        let th = if r.chance(2, 3) { focus } else { r.below(threads as u64) as usize };
        let m = match r.below(6) {
            0 => MRef::Ghost(r.below(3)),
            1 => MRef::Empty,
            _ => MRef::Known(r.below(1000)),
        };
        let op = match r.below(30) {
            0..=7 => Op::Msg { th },
            8..=10 => Op::RunSpawned { th, m },
            11..=13 => Op::RunEnded { th, m },
            14 => Op::ToolFx { th },
            15 => Op::Checkpoint { th },
            16 => Op::Fault { th, x: *r.pick(&[Fault::Delete, Fault::TearTail, Fault::Empty]) },
            17 => Op::Restart,
            18 => Op::StoreFx(*r.pick(&[StoreFx::EmptyBlobsDir, StoreFx::Compiled, StoreFx::Furnish, StoreFx::Furnish])),
            19..=22 => Op::Msg { th },
            _ => gen_call(r, threads, focus),
        };
        ops.push(op);
    }
    if !ops.iter().any(|o| matches!(o, Op::Call { .. })) {
        ops.push(gen_call(r, threads, focus));
    }
    ops
}

/// [two messages; the ops that set the store up; one handoff per shape (and one more next to a text when `both`)]
fn shape_history(setup: &[Op], shapes: &[IdShape], both: bool, http: bool) -> Vec<Op> {
    let mut v = vec![Op::Msg { th: 0 }, Op::Msg { th: 0 }];
    v.extend(setup.iter().cloned());
    for sh in shapes {
        v.push(Op::Call { kind: Kind::Handoff(Summary::ArtShape(*sh)), th: 0, sel: Sel::None, stale: None, bundle_fail: false, md: Md::Normal, http });
        if both {
            v.push(Op::Call { kind: Kind::Handoff(Summary::BothShape(*sh)), th: 0, sel: Sel::Seq(SeqSel::Mid(1)), stale: None, bundle_fail: false, md: Md::Normal, http });
        }
    }
    v
}

/// fixed cases that always run first (documented in corpus/C10/*.json)
fn corpus() -> Vec<Vec<Op>> {
    let call = |kind, sel| Op::Call { kind, th: 0, sel, stale: None, bundle_fail: false, md: Md::Normal, http: false };
    let mut every = vec![Op::Msg { th: 0 }, Op::RunSpawned { th: 0, m: MRef::Known(0) }, Op::Msg { th: 0 }, Op::RunEnded { th: 0, m: MRef::Known(0) }, Op::Msg { th: 0 }, Op::ToolFx { th: 0 }];
    for sel in [
        Sel::None, Sel::Seq(SeqSel::Zero), Sel::Seq(SeqSel::Mid(3)), Sel::Seq(SeqSel::Head), Sel::Seq(SeqSel::HeadPlus(0)), Sel::Seq(SeqSel::Max),
        Sel::Msg(MsgSel::First), Sel::Msg(MsgSel::Pick(1)), Sel::Msg(MsgSel::Last), Sel::Msg(MsgSel::Unknown), Sel::Msg(MsgSel::CreatedFrame), Sel::Msg(MsgSel::RunFrame), Sel::Msg(MsgSel::Empty), Sel::Both,
    ] {
        every.push(call(Kind::Branch, sel));
        every.push(call(Kind::Handoff(Summary::Markdown), sel));
    }
    vec![
        // the repo's own happy path: m1, run_spawned(m1), run_ended(m1), m2; from_message_id = m1 => cut 3
        vec![Op::Msg { th: 0 }, Op::RunSpawned { th: 0, m: MRef::Known(0) }, Op::RunEnded { th: 0, m: MRef::Known(0) }, Op::Msg { th: 0 }, call(Kind::Branch, Sel::Msg(MsgSel::First)), call(Kind::Handoff(Summary::Markdown), Sel::Msg(MsgSel::First))],
        every,
        // every summary class, and the unwritable artifact store
        vec![
            Op::Msg { th: 0 },
            call(Kind::Handoff(Summary::Markdown), Sel::None),
            call(Kind::Handoff(Summary::ArtifactExisting), Sel::None),
            call(Kind::Handoff(Summary::ArtifactUnknown), Sel::None),
            call(Kind::Handoff(Summary::BothExisting), Sel::None),
            call(Kind::Handoff(Summary::BothUnknown), Sel::None),
            call(Kind::Handoff(Summary::Neither), Sel::None),
            Op::Call { kind: Kind::Handoff(Summary::Markdown), th: 0, sel: Sel::None, stale: None, bundle_fail: true, md: Md::Normal, http: false },
        ],
        // overlapping turns (POST /threads/{id}/messages returns 202 before the run ends): the run frames of a
        // message stand AFTER later messages; from_message_id must still reach the end of its run
        {
            let k = |i| MRef::Known(i);
            let mut v = vec![Op::Msg { th: 0 }, Op::RunSpawned { th: 0, m: k(0) }, Op::Msg { th: 0 }, Op::RunSpawned { th: 0, m: k(1) }, Op::RunEnded { th: 0, m: k(0) }, Op::RunEnded { th: 0, m: k(1) }, Op::Msg { th: 0 }, Op::RunSpawned { th: 0, m: k(0) }];
            for sel in [Sel::Msg(MsgSel::First), Sel::Msg(MsgSel::Pick(1)), Sel::Msg(MsgSel::Last)] {
                v.push(call(Kind::Branch, sel));
                v.push(call(Kind::Handoff(Summary::Markdown), sel));
                v.push(call(Kind::Handoff(Summary::ArtifactExisting), sel));
            }
            v
        },
        // the same calls through the HTTP router (server.rs passes the body through and maps errors to a status)
        {
            let h = |kind, sel, md| Op::Call { kind, th: 0, sel, stale: None, bundle_fail: false, md, http: true };
            let mut v = vec![Op::Msg { th: 0 }, Op::RunSpawned { th: 0, m: MRef::Known(0) }, Op::Msg { th: 0 }, Op::RunEnded { th: 0, m: MRef::Known(0) }, Op::Msg { th: 0 }];
            for sel in [Sel::None, Sel::Seq(SeqSel::Mid(2)), Sel::Seq(SeqSel::HeadPlus(0)), Sel::Msg(MsgSel::First), Sel::Msg(MsgSel::Unknown), Sel::Msg(MsgSel::RunFrame), Sel::Both] {
                v.push(h(Kind::Branch, sel, Md::Normal));
                v.push(h(Kind::Handoff(Summary::Markdown), sel, Md::Normal));
            }
            for s in [Summary::ArtifactExisting, Summary::ArtifactUnknown, Summary::BothExisting, Summary::BothUnknown, Summary::Neither] {
                v.push(h(Kind::Handoff(s), Sel::Msg(MsgSel::First), Md::Normal));
            }
            v.push(h(Kind::Handoff(Summary::Markdown), Sel::None, Md::Empty));
            v.push(h(Kind::Handoff(Summary::Markdown), Sel::None, Md::UnicodeBlank));
            v.push(Op::Call { kind: Kind::Handoff(Summary::Markdown), th: 0, sel: Sel::None, stale: None, bundle_fail: true, md: Md::Normal, http: true });
            v.push(Op::Call { kind: Kind::Branch, th: 1000, sel: Sel::None, stale: None, bundle_fail: false, md: Md::Normal, http: true });
            // the harness's own store instance goes on after the router's wrote
            v.push(Op::Msg { th: 0 });
            v.push(Op::Msg { th: 1 });
            v.push(Op::Call { kind: Kind::Branch, th: 1, sel: Sel::None, stale: None, bundle_fail: false, md: Md::Normal, http: false });
            v
        },
        // the TEXT of the summary: empty, blank in several ways, invisible, long - alone, next to an existing
        // artifact id, next to an unknown one; every accepted handoff must name a bundle that reads back
        {
            let mut v = vec![Op::Msg { th: 0 }, Op::RunSpawned { th: 0, m: MRef::Known(0) }, Op::RunEnded { th: 0, m: MRef::Known(0) }, Op::Msg { th: 0 }];
            for md in [Md::Empty, Md::Space, Md::Newline, Md::Ws, Md::UnicodeBlank, Md::ZeroWidth, Md::Long, Md::LongBlank] {
                v.push(Op::Call { kind: Kind::Handoff(Summary::Markdown), th: 0, sel: Sel::None, stale: None, bundle_fail: false, md, http: false });
            }
            for md in [Md::Empty, Md::Ws, Md::UnicodeBlank] {
                v.push(Op::Call { kind: Kind::Handoff(Summary::BothExisting), th: 0, sel: Sel::Msg(MsgSel::First), stale: None, bundle_fail: false, md, http: false });
                v.push(Op::Call { kind: Kind::Handoff(Summary::BothUnknown), th: 0, sel: Sel::Seq(SeqSel::Mid(2)), stale: None, bundle_fail: false, md, http: false });
                v.push(Op::Call { kind: Kind::Handoff(Summary::Markdown), th: 0, sel: Sel::Seq(SeqSel::Zero), stale: None, bundle_fail: false, md, http: false });
            }
            v.push(Op::Call { kind: Kind::Handoff(Summary::Markdown), th: 0, sel: Sel::None, stale: None, bundle_fail: true, md: Md::Empty, http: false });
            v
        },
        // ---- caller-supplied summary_artifact_id: every shape of id x every state of the artifact store ----
        // fresh store (no .rip/artifacts/blobs at all)
        shape_history(&[], &SHAPES_CORE, false, false),
        // blobs/ exists and is empty
        shape_history(&[Op::StoreFx(StoreFx::EmptyBlobsDir)], &SHAPES_CORE, false, false),
        // populated by an earlier handoff (the bundle ripd wrote)
        shape_history(&[call(Kind::Handoff(Summary::Markdown), Sel::None)], &SHAPES_ALL, false, false),
        // populated by a compaction checkpoint (rip.compaction_summary.v1)
        shape_history(&[Op::Checkpoint { th: 0 }], &SHAPES_CORE, false, false),
        // populated by the context compiler, a sub-directory inside blobs/, a leftover .tmp, files next to blobs/: every
        // shape without and with a summary text
        shape_history(&[Op::StoreFx(StoreFx::Compiled), Op::StoreFx(StoreFx::Furnish)], &SHAPES_ALL, true, false),
        // the same store, through POST /threads/{id}/handoff
        shape_history(&[call(Kind::Handoff(Summary::Markdown), Sel::None), Op::StoreFx(StoreFx::Furnish)], &SHAPES_ALL, false, true),
        // blobs is a regular file
        shape_history(&[Op::StoreFx(StoreFx::BlobsIsFile)], &SHAPES_CORE, false, false),
        // parent with only its creation frame; unknown parent; branch of a branch; handoff of a branch
        vec![
            call(Kind::Branch, Sel::None),
            Op::Call { kind: Kind::Branch, th: 1000, sel: Sel::None, stale: None, bundle_fail: false, md: Md::Normal, http: false },
            Op::Call { kind: Kind::Branch, th: 1, sel: Sel::None, stale: None, bundle_fail: false, md: Md::Normal, http: false },
            Op::Msg { th: 1 },
            Op::Call { kind: Kind::Handoff(Summary::Markdown), th: 1, sel: Sel::Msg(MsgSel::Last), stale: None, bundle_fail: false, md: Md::Normal, http: false },
            Op::Call { kind: Kind::Branch, th: 2, sel: Sel::Seq(SeqSel::Head), stale: None, bundle_fail: false, md: Md::Normal, http: false },
        ],
        // run frames naming a message that does not exist / the empty string, then selecting exactly that id
        vec![Op::Msg { th: 0 }, Op::RunSpawned { th: 0, m: MRef::Ghost(0) }, Op::RunEnded { th: 0, m: MRef::Empty }, Op::Msg { th: 0 }, Op::RunEnded { th: 0, m: MRef::Known(0) }, call(Kind::Branch, Sel::Msg(MsgSel::Ghost(0))), call(Kind::Branch, Sel::Msg(MsgSel::Empty)), call(Kind::Branch, Sel::Msg(MsgSel::First))],
        // faults + restart on the parent, stale sidecar view
        vec![Op::Msg { th: 0 }, Op::Msg { th: 0 }, Op::Fault { th: 0, x: Fault::TearTail }, call(Kind::Branch, Sel::None), Op::Fault { th: 0, x: Fault::Delete }, Op::Restart, call(Kind::Handoff(Summary::Markdown), Sel::Seq(SeqSel::Head)), Op::Call { kind: Kind::Branch, th: 0, sel: Sel::None, stale: Some(1), bundle_fail: false, md: Md::Normal, http: false }, Op::Msg { th: 0 }, call(Kind::Branch, Sel::None)],
    ]
}

fn main() {
    let a = parse_args();
    let mut res = RunResult::new("C10", &a);
    res.rule = "case = one thread.branch / thread.handoff call at the end of a history of ContinuityStore calls (messages, run_spawned / run_ended naming known, unknown and empty message ids, tool side effects, checkpoints, earlier branches and handoffs - parents that are themselves children -, sidecar faults delete / torn tail / empty / rolled back, restarts); selector classes none, from_seq 0 / mid / head / head+1.. / u64::MAX, from_message_id first / last / middle / unknown / named only by run frames / id of the created frame / id of a run frame / message of another thread / empty string, both; summary classes markdown, artifact id existing / unknown, both, neither, artifact store unwritable; caller-supplied artifact ids of 43 shapes (empty, ., .., ./, blank, blob name, blob/ blob/. blob/.., ./blob, dotted paths below / at / above PATH_MAX, blob.tmp, NUL, other case, unknown, 255 / 256 / 5000 bytes, sub-directory name, sub/, sub/inner, sub/missing, sub/../blob, nosuch/../blob, a/b, backslash, ../blobs, ../blobs/blob, ../outside.txt, ../x, ../../../../data/events.jsonl, absolute blob / blobs dir / workspace file / missing / root) on stores fresh / empty blobs dir / populated by a handoff, a compaction checkpoint, a compiled context bundle / with a sub-directory and files next to blobs / blobs a regular file, directly and through the router, without and with a text; non-trivial = a call on a parent with >= 3 frames and at least one message; distinct by hash of (history, call)".into();
    let check_art = a.extra.get("check-art").map(|v| v == "1").unwrap_or(CHECK_ART);
    let n = if a.thorough() { 3600 } else { 100 };
    let mut r = Rng::new(a.seed);
    let mut w = CaseWriter::new(&a.out, "Model.Frames Model.Log Model.Lineage", "check_case", "model_obs", 40);
    // calls made through the HTTP router: the result is compared as the response status (check_case_http)
    let mut wh = CaseWriter::new(&a.out.join("http"), "Model.Frames Model.Log Model.Lineage", "check_case_http", "model_obs_http", 40).with_base(1_000_000);
    // caller-supplied artifact ids: the guard over the file-system listing (Model/ArtGuard.v check_case_art)
    let mut wa = CaseWriter::new(&a.out.join("art"), "Base.Fs Model.ArtGuard", "check_case_art", "model_obs_art", 15).with_base(2_000_000);
    let mut distinct = Distinct::default();
    let mut all: Vec<Vec<Op>> = corpus();
    for i in 0..n {
        all.push(gen_case(&mut r, i % 6 == 5));
    }
    for (i, ops) in all.iter().enumerate() {
        let got = std::panic::catch_unwind(std::panic::AssertUnwindSafe(|| run_case(ops, check_art)));
        match got {
            Err(_) => {
                res.impl_panics += 1;
                res.oracle_violations.push(OracleViolation { case_id: i as i64, what: "the harness run panicked".into(), class: "panic".into(), replay: json!(ops.iter().map(|o| format!("{o:?}")).collect::<Vec<_>>()) });
            }
            Ok(o) => {
                res.evaluations += o.calls;
                res.oracle_checks += o.oracle_checks;
                res.bump_by("frames_in_final_logs", o.final_frames as u64);
                res.bump_by("calls_ok", o.ok_calls);
                for d in &o.dist {
                    res.bump(d);
                }
                let mut seen = std::collections::BTreeSet::new();
                for (what, class) in &o.violations {
                    if !seen.insert(class.clone()) {
                        continue;
                    }
                    let cls = class.clone();
                    let shrunk = shrink_vec(ops.clone(), |cs| {
                        std::panic::catch_unwind(std::panic::AssertUnwindSafe(|| run_case(cs, check_art))).map(|o| o.violations.iter().any(|v| v.1 == cls)).unwrap_or(false)
                    });
                    res.oracle_violations.push(OracleViolation { case_id: i as i64, what: what.clone(), class: class.clone(), replay: json!(shrunk.iter().map(|o| format!("{o:?}")).collect::<Vec<_>>()) });
                }
                for (term, desc) in o.art_terms.iter() {
                    res.bump("artifact_guard_cases");
                    if !a.oracle_only() {
                        let id = wa.push(term.clone());
                        if res.case_index.len() < 4000 {
                            res.case_index.insert(id.to_string(), json!({"history": ops.iter().map(|o| format!("{o:?}")).collect::<Vec<_>>(), "artifact_guard_case": desc}));
                        }
                    }
                }
                for (k, (term, desc)) in o.terms.iter().enumerate() {
                    if !a.oracle_only() {
                        let id = if desc["http"] == json!(true) { wh.push(term.clone()) } else { w.push(term.clone()) };
                        if res.case_index.len() < 4000 {
                            res.case_index.insert(id.to_string(), json!({"history": ops.iter().map(|o| format!("{o:?}")).collect::<Vec<_>>(), "call_index": k, "call": desc}));
                        }
                    }
                    let pf = desc["parent_frames"].as_array().map(|v| v.len()).unwrap_or(0);
                    let has_msg = desc["parent_frames"].as_array().map(|v| v.iter().any(|x| x.as_str().map(|s| s.ends_with("ContinuityMessageAppended")).unwrap_or(false))).unwrap_or(false);
                    if pf >= 3 && has_msg {
                        distinct.add(&format!("{ops:?}#{k}"));
                    }
                    if res.samples.len() < 3 && pf >= 4 && i >= 6 {
                        res.samples.push(desc.clone());
                    }
                }
            }
        }
    }
    w.flush();
    wh.flush();
    wa.flush();
    res.distinct_nontrivial = distinct.count();
    res.case_files = w.files.iter().chain(wh.files.iter()).chain(wa.files.iter()).map(|p| p.display().to_string()).collect();
    res.write(&a.out);
    println!("c10: {} calls in {} histories, {} oracle checks, {} oracle violations, {} panics", res.evaluations, all.len(), res.oracle_checks, res.oracle_violations.len(), res.impl_panics);
}
