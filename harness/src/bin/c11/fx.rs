//! C11 — "listing the files it changed": the shapes of mutating tool calls whose file effects are
//! compared with their side-effects frame (every `write` mode, `apply_patch` with add / update /
//! delete / move / move onto an existing file / several operations on the same path / failing at any
//! operation / unparsable, shell commands that create, overwrite and delete files).
//!
//! `Fx(n)`: n % 3 = tool class (0 write, 1 apply_patch, 2 bash); n / 3 = variant: the first variants are
//! written by hand (the corners), every later one is drawn from `Rng::new(n)`.  Every call works in a
//! directory of its own (`fx<actor>_<call>/`), so calls of parallel actors never touch the same file.
use rv::Rng;
use serde_json::{json, Value};

pub const CLASS_WRITE: u32 = 0;
pub const CLASS_PATCH: u32 = 1;
pub const CLASS_BASH: u32 = 2;

#[derive(Clone, Debug)]
pub enum Tool {
    /// mode as Model/Checkpoint.v write_tool: 0 atomic (default), 1 `atomic: false`, 2 append, 3 append + `create: false`
    Write { path: String, content: String, mode: u8 },
    Patch { text: String },
    /// the effects only (absolute paths); the harness wraps them in its enter / exit markers
    Bash { effects: Vec<BashFx> },
}
#[derive(Clone, Debug)]
pub enum BashFx {
    Put(String, String),
    Rm(String),
}

#[derive(Clone, Debug)]
pub struct Shape {
    pub tag: String,
    /// files present before the call (workspace-relative path, content)
    pub init: Vec<(String, String)>,
    pub tool: Tool,
    /// every workspace-relative path the call names (both ends of a move)
    pub named: Vec<String>,
}

pub fn class(n: u32) -> u32 {
    n % 3
}
pub fn tool_name(n: u32) -> &'static str {
    match class(n) {
        CLASS_WRITE => "write",
        CLASS_PATCH => "apply_patch",
        _ => "bash",
    }
}

/// the files a call directory starts with: name j holds the one line `c<j>`
const NAMES: [&str; 5] = ["a.txt", "b.txt", "c.txt", "d/e.txt", "d/f.txt"];
const EXTRA: [&str; 6] = ["n.txt", "m/n/x.txt", "d/z.txt", "q.txt", "g/h.txt", "b2.txt"];

fn line(k: u32) -> String {
    format!("c{k}\n")
}

#[derive(Clone, Debug)]
enum POp {
    Add(String, u32),
    Del(String),
    /// update `path` (optionally moved): hunk `-c<from>` `+c<to>`; `to == None`: a context-only hunk ` c<from>`
    Upd(String, Option<String>, u32, Option<u32>),
}

fn patch_text(dir: &str, ops: &[POp]) -> (String, Vec<String>) {
    let p = |x: &str| format!("{dir}/{x}");
    let mut s = String::from("*** Begin Patch\n");
    let mut named = vec![];
    for o in ops {
        match o {
            POp::Add(x, k) => {
                s += &format!("*** Add File: {}\n+c{k}\n", p(x));
                named.push(p(x));
            }
            POp::Del(x) => {
                s += &format!("*** Delete File: {}\n", p(x));
                named.push(p(x));
            }
            POp::Upd(x, mv, from, to) => {
                s += &format!("*** Update File: {}\n", p(x));
                named.push(p(x));
                if let Some(q) = mv {
                    s += &format!("*** Move to: {}\n", p(q));
                    named.push(p(q));
                }
                match to {
                    Some(t) => s += &format!("@@\n-c{from}\n+c{t}\n"),
                    None => s += &format!("@@\n c{from}\n"),
                }
            }
        }
    }
    s += "*** End Patch\n";
    named.sort();
    named.dedup();
    (s, named)
}

fn full_init(dir: &str) -> Vec<(String, String)> {
    NAMES.iter().enumerate().map(|(j, x)| (format!("{dir}/{x}"), line(j as u32))).collect()
}

fn hand_patch(k: u32) -> Option<(&'static str, Vec<POp>)> {
    use POp::*;
    let st = |x: &str| x.to_string();
    Some(match k {
        0 => ("move", vec![Upd(st("a.txt"), Some(st("n.txt")), 0, Some(10))]),
        1 => ("move+add", vec![Upd(st("a.txt"), Some(st("n.txt")), 0, Some(10)), Add(st("q.txt"), 11)]),
        2 => ("move-onto-existing", vec![Upd(st("a.txt"), Some(st("b.txt")), 0, Some(10))]),
        3 => ("move-into-new-dir", vec![Upd(st("a.txt"), Some(st("m/n/x.txt")), 0, Some(10))]),
        4 => ("add+update+delete+move", vec![Add(st("n.txt"), 10), Upd(st("b.txt"), None, 1, Some(11)), Del(st("c.txt")), Upd(st("d/e.txt"), Some(st("d/z.txt")), 3, Some(12))]),
        5 => ("add-then-delete", vec![Add(st("n.txt"), 10), Del(st("n.txt"))]),
        6 => ("context-only-update", vec![Upd(st("a.txt"), None, 0, None)]),
        7 => ("fails-after-a-move", vec![Upd(st("a.txt"), Some(st("n.txt")), 0, Some(10)), Del(st("missing.txt"))]),
        8 => ("move-then-add-at-old-path", vec![Upd(st("a.txt"), Some(st("n.txt")), 0, Some(10)), Add(st("a.txt"), 12)]),
        9 => ("move-to-itself", vec![Upd(st("a.txt"), Some(st("a.txt")), 0, Some(10))]),
        10 => ("unparsable", vec![]),
        11 => ("delete", vec![Del(st("a.txt"))]),
        12 => ("move-chain", vec![Upd(st("a.txt"), Some(st("n.txt")), 0, Some(10)), Upd(st("n.txt"), Some(st("b2.txt")), 10, Some(13))]),
        13 => ("update", vec![Upd(st("b.txt"), None, 1, Some(11))]),
        14 => ("add-into-new-dir", vec![Add(st("m/n/x.txt"), 10)]),
        15 => ("move-into-a-vacated-path", vec![Upd(st("a.txt"), Some(st("q.txt")), 0, Some(10)), Upd(st("b.txt"), Some(st("a.txt")), 1, Some(11))]),
        16 => ("delete-then-add", vec![Del(st("a.txt")), Add(st("a.txt"), 14)]),
        17 => ("hunk-does-not-apply", vec![Upd(st("a.txt"), None, 99, Some(10))]),
        18 => ("move-without-content-change", vec![Upd(st("c.txt"), Some(st("n.txt")), 2, None)]),
        19 => ("two-moves+delete", vec![Upd(st("a.txt"), Some(st("n.txt")), 0, Some(10)), Upd(st("d/e.txt"), Some(st("g/h.txt")), 3, Some(11)), Del(st("b.txt"))]),
        _ => return None,
    })
}
pub const HAND_PATCH: u32 = 20;

fn hand_write(k: u32, dir: &str) -> Option<(&'static str, String, String, u8)> {
    let p = |x: &str| format!("{dir}/{x}");
    Some(match k {
        0 => ("new-file-in-new-dir", p("m/n/x.txt"), line(10), 0),
        1 => ("same-content", p("a.txt"), line(0), 0),
        2 => ("append", p("a.txt"), line(10), 2),
        3 => ("append-no-create-missing", p("zz.txt"), line(10), 3),
        4 => ("plain-overwrite", p("b.txt"), line(11), 1),
        5 => ("overwrite", p("c.txt"), line(12), 0),
        6 => ("append-creates", p("n.txt"), line(10), 2),
        7 => ("path-is-a-directory", p("d"), line(10), 0),
        8 => ("absolute-path", "/abs/x.txt".to_string(), line(10), 0),
        9 => ("nested-overwrite", p("d/e.txt"), line(13), 0),
        _ => return None,
    })
}
pub const HAND_WRITE: u32 = 10;
pub const HAND_BASH: u32 = 3;

pub fn shape(n: u32, dir: &str, ws: &std::path::Path) -> Shape {
    let k = n / 3;
    let abs = |x: &str| ws.join(dir).join(x).to_string_lossy().to_string();
    match class(n) {
        CLASS_WRITE => {
            if let Some((tag, path, content, mode)) = hand_write(k, dir) {
                return Shape { tag: format!("write:{tag}"), init: full_init(dir), named: vec![path.clone()], tool: Tool::Write { path, content, mode } };
            }
            let mut r = Rng::new(n as u64 ^ 0x5eed_c11);
            let init: Vec<(String, String)> = full_init(dir).into_iter().filter(|_| r.chance(2, 3)).collect();
            let name = if r.chance(2, 3) { *r.pick(&NAMES) } else { *r.pick(&EXTRA) };
            let path = format!("{dir}/{name}");
            let cur = init.iter().find(|(p, _)| *p == path).map(|(_, c)| c.clone());
            let content = match (&cur, r.chance(1, 4)) {
                (Some(c), true) => c.clone(),
                _ => line(10 + r.below(5) as u32),
            };
            let mode = *r.pick(&[0u8, 0, 0, 1, 2, 2, 3]);
            Shape { tag: format!("write:random mode {mode}"), init, named: vec![path.clone()], tool: Tool::Write { path, content, mode } }
        }
        CLASS_PATCH => {
            if let Some((tag, ops)) = hand_patch(k) {
                let (text, named) = if tag == "unparsable" { (format!("*** Begin Patch\nrubbish {dir}\n"), vec![]) } else { patch_text(dir, &ops) };
                return Shape { tag: format!("patch:{tag}"), init: full_init(dir), named, tool: Tool::Patch { text } };
            }
            let mut r = Rng::new(n as u64 ^ 0x5eed_c11);
            let init: Vec<(String, String)> = full_init(dir).into_iter().filter(|_| r.chance(3, 4)).collect();
            // a simulation of the one-line files, only to make most operations applicable
            let mut sim: std::collections::BTreeMap<String, u32> = init.iter().enumerate().filter_map(|(_, (p, c))| c.trim_start_matches('c').trim().parse().ok().map(|k| (p[dir.len() + 1..].to_string(), k))).collect();
            let mut ops = vec![];
            let mut fresh = 10;
            for _ in 0..r.range(1, 4) {
                let present: Vec<String> = sim.keys().cloned().collect();
                let absent: Vec<String> = NAMES.iter().chain(EXTRA.iter()).map(|x| x.to_string()).filter(|x| !sim.contains_key(x)).collect();
                let sloppy = r.chance(1, 6); // may pick a path in the wrong state: the patch fails there
                let pick_present = |r: &mut Rng| if (sloppy || present.is_empty()) && !absent.is_empty() { r.pick(&absent).clone() } else { r.pick(&present).clone() };
                let pick_absent = |r: &mut Rng| if (sloppy || absent.is_empty()) && !present.is_empty() { r.pick(&present).clone() } else { r.pick(&absent).clone() };
                fresh += 1;
                match r.below(8) {
                    0 | 1 => {
                        let x = pick_absent(&mut r);
                        sim.insert(x.clone(), fresh);
                        ops.push(POp::Add(x, fresh));
                    }
                    2 => {
                        let x = pick_present(&mut r);
                        sim.remove(&x);
                        ops.push(POp::Del(x));
                    }
                    3 => {
                        let x = pick_present(&mut r);
                        let from = sim.get(&x).copied().unwrap_or(98);
                        let to = if r.chance(1, 5) { None } else { Some(fresh) };
                        if let Some(t) = to {
                            sim.insert(x.clone(), t);
                        }
                        ops.push(POp::Upd(x, None, from, to));
                    }
                    _ => {
                        let x = pick_present(&mut r);
                        let q = pick_absent(&mut r);
                        let from = sim.get(&x).copied().unwrap_or(98);
                        let to = if r.chance(1, 5) { None } else { Some(fresh) };
                        let v = to.unwrap_or(from);
                        sim.remove(&x);
                        sim.insert(q.clone(), v);
                        ops.push(POp::Upd(x, Some(q), from, to));
                    }
                }
            }
            let (text, named) = patch_text(dir, &ops);
            Shape { tag: format!("patch:random {} ops", ops.len()), init, named, tool: Tool::Patch { text } }
        }
        _ => {
            let effects = match k {
                0 => vec![BashFx::Put(abs("n.txt"), line(10)), BashFx::Rm(abs("a.txt")), BashFx::Put(abs("b.txt"), line(11))],
                1 => vec![],
                2 => vec![BashFx::Put(abs("m/n/x.txt"), line(10))],
                _ => {
                    let mut r = Rng::new(n as u64 ^ 0x5eed_c11);
                    (0..r.range(0, 3))
                        .map(|_| {
                            let name = if r.chance(1, 2) { *r.pick(&NAMES) } else { *r.pick(&EXTRA) };
                            if r.chance(1, 3) {
                                BashFx::Rm(abs(name))
                            } else {
                                BashFx::Put(abs(name), line(10 + r.below(5) as u32))
                            }
                        })
                        .collect()
                }
            };
            Shape { tag: format!("bash:{} effects", effects.len()), init: full_init(dir), named: vec![], tool: Tool::Bash { effects } }
        }
    }
}

pub fn bash_script(effects: &[BashFx]) -> String {
    let mut s = String::from("true");
    for e in effects {
        match e {
            BashFx::Put(p, c) => s += &format!("; mkdir -p \"$(dirname '{p}')\"; printf '%s\\n' '{}' > '{p}'", c.trim_end()),
            BashFx::Rm(p) => s += &format!("; rm -f '{p}'"),
        }
    }
    s
}

pub fn write_args(path: &str, content: &str, mode: u8) -> Value {
    match mode {
        0 => json!({"path": path, "content": content}),
        1 => json!({"path": path, "content": content, "atomic": false}),
        2 => json!({"path": path, "content": content, "append": true}),
        _ => json!({"path": path, "content": content, "append": true, "create": false}),
    }
}
