//! C11 — "in progress": a mutating execution is in progress until everything it started that can still write
//! the workspace is done or detached from it.  `Bg(n)`: a shell command (background task in pipes / pty mode,
//! or the `bash` tool) whose shell returns at once and LEAVES A CHILD BEHIND; the child waits on a FIFO the
//! harness holds, then writes the workspace (`late_<actor>.txt`, a sequence line in the marker file).
//!
//! n % 4 = site (0 pipes task, 1 pty task, 2 bash tool, 3 bash tool called with `timeout_ms`: the call is
//! abandoned while the child is pending); (n / 4) % 6 = what the child does with the streams it
//! inherited from the execution (pipes: stdout + stderr; pty: the slave side on stdin/stdout/stderr):
//!   0 keeps them                      1 closes stdout only              2 double-forked (own session when
//!   3 closes all of them (detached)   4 double-forked + closes all         `setsid` exists), keeps them
//!   5 closes stderr only
//! A child that keeps at least one stream is ATTACHED: the execution cannot have seen end-of-stream, so it is
//! still in progress and the child's write must come before the lock is handed on.  A child that closed all of
//! them (3, 4) is invisible to the execution: the property text says nothing about it, nothing is demanded
//! (observed and counted only).

#[allow(dead_code)]
pub const SITE_PIPES: u32 = 0;
pub const SITE_PTY: u32 = 1;
pub const SITE_TOOL: u32 = 2;
pub const SITE_TOOL_TIMEOUT: u32 = 3;
pub const SITES: u32 = 4;
pub const SHAPES: u32 = 6;

pub fn site(n: u32) -> u32 {
    n % SITES
}
pub fn shape(n: u32) -> u32 {
    (n / SITES) % SHAPES
}
pub fn make(site: u32, shape: u32) -> u32 {
    shape * SITES + site
}
pub fn is_task(n: u32) -> bool {
    site(n) <= SITE_PTY
}
pub fn attached(n: u32) -> bool {
    !matches!(shape(n), 3 | 4)
}
pub fn tag(n: u32) -> String {
    let s = ["pipes-task", "pty-task", "bash-tool", "bash-tool-timeout"][site(n) as usize];
    let h = ["keeps-pipes", "closes-stdout", "double-fork-keeps-pipes", "closes-all", "double-fork-closes-all", "closes-stderr"][shape(n) as usize];
    format!("{s}/{h}")
}

/// (holds stdout, holds stderr) of the child when it writes
pub fn holds(n: u32) -> (bool, bool) {
    match shape(n) {
        0 | 2 => (true, true),
        1 => (false, true),
        5 => (true, false),
        _ => (false, false),
    }
}

/// the command: `enter <i> <shell pid>`, the child started in the background, `shellexit <i>`; the child:
/// `child <i> <pid>`, waits for a line on the FIFO, writes the workspace file, `late <i>`.  The section of the
/// actor (`enter` .. `exit`) is closed by the attached child after its write, by the shell itself for a detached one.
pub fn command(n: u32, i: usize, markers: &str, fifo: &str, late_file: &str, have_setsid: bool) -> String {
    let att = attached(n);
    let tail = if att { format!("echo exit {i} >> {markers}") } else { "true".to_string() };
    // single quotes only inside; $$ of `sh -c` is the child's own pid
    let child = format!("echo child {i} $$ >> {markers}; read _ < {fifo}; echo late-{i} >> {late_file}; echo late {i} >> {markers}; {tail}");
    let redir = match shape(n) {
        1 => " > /dev/null",
        5 => " 2> /dev/null",
        3 | 4 => " < /dev/null > /dev/null 2>&1",
        _ => "",
    };
    let launch = match shape(n) {
        2 | 4 => {
            if have_setsid {
                format!("setsid sh -c '{child}'{redir} &")
            } else {
                format!("( sh -c '{child}'{redir} & )")
            }
        }
        _ => format!("sh -c '{child}'{redir} &"),
    };
    let close = if att { String::new() } else { format!("echo exit {i} >> {markers}; ") };
    // HUP ignored (inherited by the child): the end of a pty session leader must not take the child with it
    format!("trap '' HUP; echo enter {i} $$ >> {markers}; {launch} {close}echo shellexit {i} >> {markers}")
}
